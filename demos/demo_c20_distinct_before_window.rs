//! C20: `RETURN DISTINCT ... ORDER BY ... SKIP s LIMIT l` slices the *distinct* rows.
//! The planner used to put the Distinct node above Skip / Limit, so duplicates took up window positions:
//! `UNWIND [1,1,2,3] AS x RETURN DISTINCT x ORDER BY x LIMIT 2` returned [1] instead of [1, 2].
use nervusdb::Db;
use nervusdb_query::{Params, Value, prepare};
use tempfile::tempdir;

fn ints(db: &Db, cypher: &str) -> Vec<i64> {
    let snapshot = db.snapshot();
    prepare(cypher)
        .unwrap()
        .execute_streaming(&snapshot, &Params::new())
        .map(|r| match r.unwrap().get("x") {
            Some(Value::Int(i)) => *i,
            other => panic!("unexpected {other:?}"),
        })
        .collect()
}

#[test]
fn distinct_rows_are_sliced_after_deduplication() {
    let dir = tempdir().unwrap();
    let db = Db::open(dir.path().join("c20.ndb")).unwrap();
    assert_eq!(ints(&db, "UNWIND [1,1,2,3] AS x RETURN DISTINCT x ORDER BY x LIMIT 2"), vec![1, 2]);
    assert_eq!(ints(&db, "UNWIND [3,1,1,2,2,3] AS x RETURN DISTINCT x ORDER BY x SKIP 1 LIMIT 2"), vec![2, 3]);
    assert_eq!(ints(&db, "UNWIND [3,1,1,2,2,3] AS x RETURN DISTINCT x ORDER BY x DESC SKIP 2"), vec![1]);
    assert_eq!(ints(&db, "UNWIND [3,1,1,2,2,3] AS y WITH DISTINCT y AS x ORDER BY x LIMIT 2 RETURN x"), vec![1, 2]);
    // without DISTINCT the window counts duplicates
    assert_eq!(ints(&db, "UNWIND [1,1,2,3] AS x RETURN x ORDER BY x LIMIT 2"), vec![1, 1]);
}
