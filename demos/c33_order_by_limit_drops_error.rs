use nervusdb::Db;
use nervusdb::query::{ExecuteOptions, Params, prepare};
use nervusdb_query::Result;
use tempfile::tempdir;

#[test]
fn order_by_limit_keeps_limit_errors() {
    let dir = tempdir().unwrap();
    let db = Db::open(dir.path().join("g")).unwrap();
    let snapshot = db.snapshot();
    let mut params = Params::new();
    params.set_execute_options(ExecuteOptions { max_collection_items: 10, ..ExecuteOptions::default() });
    let q = prepare("UNWIND [1,2,3] AS a RETURN a, size(range(1,a*10)) AS n ORDER BY a DESC LIMIT 1").unwrap();
    let rows: Result<Vec<_>> = q.execute_streaming(&snapshot, &params).collect();
    println!("result = {:?}", rows.as_ref().map(|r| r.len()).map_err(|e| e.to_string()));
    assert!(rows.is_err(), "limit error was sliced away by ORDER BY + LIMIT");
}
