use nervusdb::{Db, GraphSnapshot};
use nervusdb_query::{ExecuteOptions, Params, prepare};
use std::collections::HashSet;
use tempfile::tempdir;

/// Many single-node CREATE statements, each in its own transaction, in a tight loop.
/// Every one must succeed and all external ids must be distinct.
#[test]
fn tight_loop_of_single_creates_all_succeed_with_distinct_ids() {
    let dir = tempdir().unwrap();
    let db = Db::open(dir.path().join("ids1.ndb")).unwrap();
    let q = prepare("CREATE (:N)").unwrap();
    let params = Params::new();

    let n = 2000;
    for i in 0..n {
        let snapshot = db.snapshot();
        let mut txn = db.begin_write();
        q.execute_write(&snapshot, &mut txn, &params)
            .unwrap_or_else(|e| panic!("CREATE #{i} failed: {e}"));
        txn.commit().unwrap();
    }

    let snap = db.snapshot();
    let ext: Vec<_> = snap
        .nodes()
        .map(|iid| snap.resolve_external(iid).unwrap())
        .collect();
    let distinct: HashSet<_> = ext.iter().copied().collect();
    println!("created {} nodes, {} distinct external ids", ext.len(), distinct.len());
    assert_eq!(ext.len(), n);
    assert_eq!(distinct.len(), n);
}

/// Several CREATE statements in ONE transaction, each creating one node, back to back
/// (no commit/fsync in between, so they are only nanoseconds apart).
#[test]
fn back_to_back_creates_in_one_txn_all_succeed() {
    let dir = tempdir().unwrap();
    let db = Db::open(dir.path().join("ids2.ndb")).unwrap();
    let q = prepare("CREATE ()").unwrap();
    let params = Params::new();
    let snapshot = db.snapshot();

    let mut txn = db.begin_write();
    let n = 200_000;
    for i in 0..n {
        q.execute_write(&snapshot, &mut txn, &params)
            .unwrap_or_else(|e| panic!("CREATE #{i} of {n} in one txn failed: {e}"));
    }
    txn.commit().unwrap();
}

/// One statement whose first CREATE clause creates N nodes (external ids reach
/// `now + N`, i.e. N nanoseconds "into the future") immediately followed by a second
/// CREATE clause whose ids restart at `now + 0`. A legal statement: it must succeed.
#[test]
fn large_create_followed_by_create_in_same_statement_succeeds() {
    let dir = tempdir().unwrap();
    let db = Db::open(dir.path().join("ids3.ndb")).unwrap();

    let q = prepare("UNWIND range(1, 1000000) AS i CREATE () CREATE ()").unwrap();
    let mut params = Params::new();
    params.set_execute_options(ExecuteOptions {
        max_intermediate_rows: 10_000_000,
        max_collection_items: 10_000_000,
        soft_timeout_ms: 600_000,
        max_apply_rows_per_outer: 10_000_000,
    });

    let mut failures = Vec::new();
    // Probabilistic: each attempt collides with probability ~1/3 (debug) .. ~2/3 (release).
    for attempt in 0..6 {
        if !failures.is_empty() {
            break;
        }
        let snapshot = db.snapshot();
        let mut txn = db.begin_write();
        match q.execute_write(&snapshot, &mut txn, &params) {
            Ok(created) => println!("attempt {attempt}: ok, created {created}"),
            Err(e) => {
                println!("attempt {attempt}: FAILED: {e}");
                failures.push(e.to_string());
            }
        }
        // txn dropped: rollback, keeps attempts independent
    }
    assert!(
        failures.is_empty(),
        "a legal CREATE statement failed because of clock-derived id collision: {failures:?}"
    );
}
