use nervusdb::Db;
use nervusdb::query::{Params, Row, Value, prepare, query_collect};
use tempfile::tempdir;

fn write(db: &Db, cypher: &str) {
    let q = prepare(cypher).unwrap();
    let mut txn = db.begin_write();
    q.execute_write(&db.snapshot(), &mut txn, &Params::new())
        .unwrap();
    txn.commit().unwrap();
}

fn rows(db: &Db, cypher: &str) -> Vec<Row> {
    query_collect(&db.snapshot(), cypher, &Params::new()).unwrap()
}

fn count(db: &Db, cypher: &str) -> Value {
    let r = rows(db, cypher);
    assert_eq!(r.len(), 1);
    r[0].get("c").cloned().unwrap()
}

#[test]
fn deleted_nodes_stay_deleted_after_compaction() {
    let dir = tempdir().unwrap();
    let path = dir.path().join("c05dn.ndb");
    let db = Db::open(&path).unwrap();
    write(&db, "CREATE (a:N {k: 1})");
    write(&db, "CREATE (b:N {k: 2})");
    write(&db, "CREATE (c:N {k: 3})");
    assert_eq!(count(&db, "MATCH (n) RETURN count(n) AS c"), Value::Int(3));

    write(&db, "MATCH (n) DELETE n");
    assert_eq!(
        count(&db, "MATCH (n) RETURN count(n) AS c"),
        Value::Int(0),
        "after delete, before compact"
    );
    assert_eq!(rows(&db, "MATCH (n:N) RETURN n").len(), 0, "label scan pre");

    db.compact().unwrap();
    let c = count(&db, "MATCH (n) RETURN count(n) AS c");
    println!("count(n) after delete + compact = {c:?}");
    println!(
        "MATCH (n:N) rows after delete + compact = {}",
        rows(&db, "MATCH (n:N) RETURN n").len()
    );
    assert_eq!(c, Value::Int(0), "deleted nodes reappeared after compaction");
    assert_eq!(
        rows(&db, "MATCH (n:N) RETURN n").len(),
        0,
        "deleted nodes reappeared in label scan after compaction"
    );

    db.close().unwrap();
    let db = Db::open(&path).unwrap();
    let c = count(&db, "MATCH (n) RETURN count(n) AS c");
    println!("count(n) after delete + compact + reopen = {c:?}");
    assert_eq!(c, Value::Int(0), "deleted nodes reappeared after reopen");
}
