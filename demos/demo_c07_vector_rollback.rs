use nervusdb::Db;
use tempfile::tempdir;

/// A vector set inside a write transaction that is dropped (rolled back)
/// must not be visible to `Db::search_vector`.
#[test]
fn set_vector_in_rolled_back_txn_is_not_searchable() {
    let dir = tempdir().unwrap();
    let db = Db::open(dir.path().join("vec.ndb")).unwrap();

    {
        let mut txn = db.begin_write();
        let label = txn.get_or_create_label("Doc").unwrap();
        let node = txn.create_node(4242, label).unwrap();
        txn.set_vector(node, vec![1.0, 0.0, 0.0, 0.0]).unwrap();
        // dropped without commit => rollback
    }

    let hits = db.search_vector(&[1.0, 0.0, 0.0, 0.0], 5).unwrap();
    println!("hits after rollback = {hits:?}");
    assert!(
        hits.is_empty(),
        "vector written by a rolled-back transaction is visible to search: {hits:?}"
    );
}
