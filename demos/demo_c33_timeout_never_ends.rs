// C33 / C16 confirmation: after the soft timeout tripped, the limit guard reported the error again on every pull and never ended the stream,
// so consumers that drain a stream before looking at it (query_collect, PreparedQuery::execute_mixed for read statements, i.e. ndb_txn_query)
// never returned and accumulated error values until the process ran out of memory. Place in /repo/nervusdb/tests/ and run
// `cargo test --offline -p nervusdb --test demo_c33_timeout_never_ends -- --nocapture`; on the unfixed tree the watchdog kills the process.
use nervusdb::Db;
use nervusdb_query::{ExecuteOptions, Params, prepare, query_collect};
use tempfile::tempdir;
#[test]
fn a_query_that_times_out_returns_its_error() {
    std::thread::spawn(|| { std::thread::sleep(std::time::Duration::from_secs(30)); println!("STILL RUNNING after 30 s (timeout was 5 ms)"); std::process::exit(3); });
    let dir = tempdir().unwrap();
    let db = Db::open(dir.path().join("g")).unwrap();
    let snapshot = db.snapshot();
    let params = Params::with_execute_options(ExecuteOptions { soft_timeout_ms: 5, max_intermediate_rows: 1_000_000_000, ..Default::default() });
    let cy = "UNWIND range(1, 100000) AS x UNWIND range(1, 100) AS y RETURN x + y AS s";
    let t = std::time::Instant::now();
    let r = query_collect(&snapshot, cy, &params).map(|v| v.len()).map_err(|e| e.to_string());
    println!("query_collect finished: {:?} in {:?}", r.map_err(|e| e.chars().take(90).collect::<String>()), t.elapsed());
    let mut txn = db.begin_write();
    let q = prepare(cy).unwrap();
    let t = std::time::Instant::now();
    let r = q.execute_mixed(&snapshot, &mut txn, &params).map(|(rows, _)| rows.len()).map_err(|e| e.to_string());
    println!("execute_mixed finished: {:?} in {:?}", r.map_err(|e| e.chars().take(90).collect::<String>()), t.elapsed());
}
