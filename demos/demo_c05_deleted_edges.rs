use nervusdb::Db;
use nervusdb::query::{Params, Row, prepare, query_collect};
use tempfile::tempdir;

fn write(db: &Db, cypher: &str) {
    let q = prepare(cypher).unwrap();
    let mut txn = db.begin_write();
    q.execute_write(&db.snapshot(), &mut txn, &Params::new())
        .unwrap();
    txn.commit().unwrap();
}

fn rows(db: &Db, cypher: &str) -> Vec<Row> {
    query_collect(&db.snapshot(), cypher, &Params::new()).unwrap()
}

#[test]
fn deleted_edge_stays_deleted_after_second_compaction() {
    let dir = tempdir().unwrap();
    let path = dir.path().join("c05de.ndb");
    let db = Db::open(&path).unwrap();
    write(&db, "CREATE (a:P {k: 1})-[:R]->(b:P {k: 2})");
    assert_eq!(rows(&db, "MATCH (a)-[r:R]->(b) RETURN r").len(), 1);
    db.compact().unwrap();
    assert_eq!(
        rows(&db, "MATCH (a)-[r:R]->(b) RETURN r").len(),
        1,
        "edge visible after 1st compact"
    );

    write(&db, "MATCH (a)-[r:R]->(b) DELETE r");
    assert_eq!(
        rows(&db, "MATCH (a)-[r:R]->(b) RETURN r").len(),
        0,
        "edge gone after delete, before 2nd compact"
    );

    db.compact().unwrap();
    let n = rows(&db, "MATCH (a)-[r:R]->(b) RETURN r").len();
    println!("outgoing edges after delete + 2nd compact = {n}");
    let n_in = rows(&db, "MATCH (b)<-[r:R]-(a) RETURN r").len();
    println!("incoming edges after delete + 2nd compact = {n_in}");
    assert_eq!(n, 0, "deleted edge reappeared after second compaction");
    assert_eq!(n_in, 0, "deleted edge reappeared (incoming) after second compaction");

    db.close().unwrap();
    let db = Db::open(&path).unwrap();
    let n = rows(&db, "MATCH (a)-[r:R]->(b) RETURN r").len();
    println!("edges after delete + 2nd compact + reopen = {n}");
    assert_eq!(n, 0, "deleted edge reappeared after reopen");
}
