use nervusdb::Db;
use nervusdb::query::{Params, Row, Value, prepare, query_collect};
use tempfile::tempdir;

fn write(db: &Db, cypher: &str) {
    let q = prepare(cypher).unwrap();
    let mut txn = db.begin_write();
    q.execute_write(&db.snapshot(), &mut txn, &Params::new())
        .unwrap();
    txn.commit().unwrap();
}

fn rows(db: &Db, cypher: &str) -> Vec<Row> {
    query_collect(&db.snapshot(), cypher, &Params::new()).unwrap()
}

fn explain(db: &Db, cypher: &str) -> String {
    let r = rows(db, &format!("EXPLAIN {cypher}"));
    match &r[0].columns()[0].1 {
        Value::String(s) => s.clone(),
        other => format!("{other:?}"),
    }
}

#[test]
fn deleted_node_is_not_returned_by_index_seek() {
    let dir = tempdir().unwrap();
    let db = Db::open(dir.path().join("c15del.ndb")).unwrap();
    db.create_index("Person", "name").unwrap();
    write(&db, "CREATE (n:Person {name: 'a', tag: 'first'})");
    write(&db, "CREATE (m:Person {name: 'a', tag: 'second'})");

    let q = "MATCH (x:Person {name: 'a'}) RETURN x";
    println!("plan:\n{}", explain(&db, q));
    assert!(explain(&db, q).contains("IndexSeek"), "plan must use the index");
    assert_eq!(rows(&db, q).len(), 2, "pre: both nodes found through index");

    write(&db, "MATCH (n:Person {tag: 'first'}) DELETE n");
    assert_eq!(
        rows(&db, "MATCH (n) RETURN n").len(),
        1,
        "full scan sees one live node"
    );

    let got = rows(&db, q);
    println!("index seek rows after delete = {}", got.len());
    for r in &got {
        println!("  row = {:?}", r.columns());
    }
    assert_eq!(got.len(), 1, "index seek returned a deleted node");

    // Bare seek without any residual property access on the row.
    let c = rows(&db, "MATCH (x:Person {name: 'a'}) RETURN count(*) AS c");
    println!("count(*) through index after delete = {:?}", c[0].get("c"));
    assert_eq!(c[0].get("c"), Some(&Value::Int(1)), "count(*) via index seek");

    // Same after compaction.
    db.compact().unwrap();
    let got = rows(&db, q);
    println!("index seek rows after delete + compact = {}", got.len());
    assert_eq!(got.len(), 1, "index seek returned a deleted node after compaction");
}

#[test]
fn changed_value_is_not_returned_under_old_key() {
    let dir = tempdir().unwrap();
    let db = Db::open(dir.path().join("c15upd.ndb")).unwrap();
    db.create_index("Person", "name").unwrap();
    write(&db, "CREATE (n:Person {name: 'a', tag: 'first'})");
    write(&db, "CREATE (m:Person {name: 'a', tag: 'second'})");
    write(&db, "MATCH (n:Person {tag: 'first'}) SET n.name = 'b'");

    let a = rows(&db, "MATCH (x:Person {name: 'a'}) RETURN x").len();
    let b = rows(&db, "MATCH (x:Person {name: 'b'}) RETURN x").len();
    println!("after SET name='b': seek 'a' rows={a}, seek 'b' rows={b}");
    assert_eq!(a, 1, "seek for old value");
    assert_eq!(b, 1, "seek for new value");
}
