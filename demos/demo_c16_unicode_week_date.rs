// C16 confirmation: a week-date literal with a multi-byte character used to panic in parse_week_date_components (s[0..4]).
// Place in /repo/nervusdb/tests/ and run `cargo test --offline -p nervusdb --test demo_c16_unicode_week_date`.
use nervusdb::Db;
use nervusdb_query::{Params, Result, prepare};
use tempfile::tempdir;

#[test]
fn temporal_functions_do_not_panic_on_unicode() {
    let dir = tempdir().unwrap();
    let db = Db::open(dir.path().join("g")).unwrap();
    let snapshot = db.snapshot();
    for q in [
        "RETURN date('abcéW12') AS d",
        "RETURN date('20é-01') AS d",
        "RETURN localtime('1é:30') AS d",
        "RETURN duration('P1é') AS d",
        "RETURN date('é-é-é1') AS d",
        "RETURN datetime('2020-01-01T10:00:00[é]') AS d",
    ] {
        let r = std::panic::catch_unwind(std::panic::AssertUnwindSafe(|| {
            prepare(q).and_then(|p| p.execute_streaming(&snapshot, &Params::new()).collect::<Result<Vec<_>>>())
        }));
        println!("{:40} -> {}", q, match &r { Ok(Ok(v)) => format!("ok {} rows", v.len()), Ok(Err(e)) => format!("err {}", e), Err(_) => "PANIC".to_string() });
        assert!(r.is_ok(), "query panicked: {q}");
    }
}
