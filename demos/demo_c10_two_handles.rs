//! Suspicion c10_two_handles: nothing prevents two live handles on the same database files.

use nervusdb::{Db, GraphSnapshot, PropertyValue};
use std::collections::BTreeMap;

/// Property: a second writer handle must be refused (or wait) while the first is open.
#[test]
fn second_open_is_refused_while_first_handle_is_live() {
    let dir = tempfile::tempdir().unwrap();
    let path = dir.path().join("c10a.ndb");

    let db1 = Db::open(&path).unwrap();
    let second = Db::open(&path);
    assert!(
        second.is_err(),
        "Db::open succeeded a second time while another handle on the same files is still open"
    );
    drop(db1);
}

/// Consequence: commits through both handles must all survive (if the second open is allowed
/// at all). Each handle commits one node with a property; after reopen both must be there.
#[test]
fn commits_through_two_handles_are_not_lost() {
    let dir = tempfile::tempdir().unwrap();
    let path = dir.path().join("c10b.ndb");

    {
        let db1 = Db::open(&path).unwrap();
        let db2 = match Db::open(&path) {
            Ok(db) => db,
            Err(e) => {
                println!("second open refused ({e:?}) - nothing to demonstrate");
                return;
            }
        };

        {
            let mut txn = db1.begin_write();
            let label = txn.get_or_create_label("A").unwrap();
            let n = txn.create_node(111, label).unwrap();
            println!("handle 1: ext 111 -> internal {n}");
            txn.set_node_property(n, "who".to_string(), PropertyValue::String("one".into()))
                .unwrap();
            txn.commit().unwrap();
        }
        {
            let mut txn = db2.begin_write();
            let label = txn.get_or_create_label("A").unwrap();
            let n = txn.create_node(222, label).unwrap();
            println!("handle 2: ext 222 -> internal {n}");
            txn.set_node_property(n, "who".to_string(), PropertyValue::String("two".into()))
                .unwrap();
            txn.commit().unwrap();
        }

        db1.close().unwrap();
        db2.close().unwrap();
    }

    let db = match Db::open(&path) {
        Ok(db) => db,
        Err(e) => panic!("REOPEN FAILED after writing through two handles: {e:?}"),
    };
    let snap = db.snapshot();
    let mut found: BTreeMap<u64, Option<PropertyValue>> = BTreeMap::new();
    for iid in snap.nodes() {
        if let Some(ext) = snap.resolve_external(iid) {
            found.insert(ext, snap.node_property(iid, "who"));
        }
    }
    println!("after reopen: {found:?}");
    let mut want = BTreeMap::new();
    want.insert(111u64, Some(PropertyValue::String("one".into())));
    want.insert(222u64, Some(PropertyValue::String("two".into())));
    assert_eq!(found, want, "data committed through one of the handles was lost/garbled");
}
