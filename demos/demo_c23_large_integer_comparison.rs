// C23 confirmation: comparisons between large integers (and between integers and floats) went through f64, so
// `9007199254740993 > 9007199254740992` was false while `>=` and `<=` were both true and `=` false, and `=` between an integer
// and a float was not transitive. Place in /repo/nervusdb/tests/ and run
// `cargo test --offline -p nervusdb --test demo_c23_large_integer_comparison -- --nocapture`.
use nervusdb::Db;
use nervusdb_query::{Params, Result, Value, prepare};
use tempfile::tempdir;

fn eval(q: &str) -> Vec<Value> {
    let dir = tempdir().unwrap();
    let db = Db::open(dir.path().join("g")).unwrap();
    let snapshot = db.snapshot();
    let rows = prepare(q)
        .and_then(|p| {
            p.execute_streaming(&snapshot, &Params::new())
                .collect::<Result<Vec<_>>>()
        })
        .unwrap();
    rows.iter().map(|r| r.columns()[0].1.clone()).collect()
}

#[test]
fn integer_comparisons_are_exact_and_agree_with_equality() {
    let a = "9007199254740993";
    let b = "9007199254740992";
    assert_eq!(eval(&format!("RETURN {a} > {b} AS r")), vec![Value::Bool(true)]);
    assert_eq!(eval(&format!("RETURN {a} < {b} AS r")), vec![Value::Bool(false)]);
    assert_eq!(eval(&format!("RETURN {a} <= {b} AS r")), vec![Value::Bool(false)]);
    assert_eq!(eval(&format!("RETURN {a} >= {b} AS r")), vec![Value::Bool(true)]);
    assert_eq!(eval(&format!("RETURN {a} = {b} AS r")), vec![Value::Bool(false)]);
    assert_eq!(
        eval("RETURN 9223372036854775807 > 9223372036854775806 AS r"),
        vec![Value::Bool(true)]
    );
    assert_eq!(
        eval(&format!("UNWIND [{a}, {b}] AS x WITH x WHERE x > {b} RETURN count(*) AS c")),
        vec![Value::Int(1)]
    );
}

#[test]
fn integer_float_comparisons_are_exact() {
    // 9007199254740993 is not representable as f64; 9007199254740992.0 is.
    assert_eq!(eval("RETURN 9007199254740993 > 9007199254740992.0 AS r"), vec![Value::Bool(true)]);
    assert_eq!(eval("RETURN 9007199254740993 = 9007199254740992.0 AS r"), vec![Value::Bool(false)]);
    assert_eq!(eval("RETURN 9007199254740993 <= 9007199254740992.0 AS r"), vec![Value::Bool(false)]);
    assert_eq!(eval("RETURN 9007199254740992.0 < 9007199254740993 AS r"), vec![Value::Bool(true)]);
    assert_eq!(eval("RETURN 9007199254740992 = 9007199254740992.0 AS r"), vec![Value::Bool(true)]);
    assert_eq!(eval("RETURN 1 < 1.5 AS r"), vec![Value::Bool(true)]);
    assert_eq!(eval("RETURN -1 > -1.5 AS r"), vec![Value::Bool(true)]);
    assert_eq!(eval("RETURN 2 > 1.5 AS r"), vec![Value::Bool(true)]);
    assert_eq!(eval("RETURN 9223372036854775807 < 9223372036854775808.0 AS r"), vec![Value::Bool(true)]);
    assert_eq!(eval("RETURN -9223372036854775808 = -9223372036854775808.0 AS r"), vec![Value::Bool(true)]);
    assert_eq!(
        eval("UNWIND [9007199254740993, 9007199254740992.0] AS x RETURN x ORDER BY x"),
        vec![Value::Float(9007199254740992.0), Value::Int(9007199254740993)]
    );
}
