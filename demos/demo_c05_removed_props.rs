use nervusdb::Db;
use nervusdb::query::{Params, Row, Value, prepare, query_collect};
use tempfile::tempdir;

fn write(db: &Db, cypher: &str) {
    let q = prepare(cypher).unwrap();
    let mut txn = db.begin_write();
    q.execute_write(&db.snapshot(), &mut txn, &Params::new())
        .unwrap();
    txn.commit().unwrap();
}

fn rows(db: &Db, cypher: &str) -> Vec<Row> {
    query_collect(&db.snapshot(), cypher, &Params::new()).unwrap()
}

fn single(db: &Db, cypher: &str, col: &str) -> Value {
    let r = rows(db, cypher);
    assert_eq!(r.len(), 1, "expected one row for {cypher}");
    r[0].get(col).cloned().unwrap()
}

#[test]
fn removed_property_stays_removed_after_compaction() {
    let dir = tempdir().unwrap();
    let db = Db::open(dir.path().join("c05rp_a.ndb")).unwrap();
    write(&db, "CREATE (n:N {p: 1, q: 7})");
    db.compact().unwrap();
    assert_eq!(single(&db, "MATCH (n:N) RETURN n.p AS p", "p"), Value::Int(1));

    write(&db, "MATCH (n:N) REMOVE n.p");
    let before = single(&db, "MATCH (n:N) RETURN n.p AS p", "p");
    println!("n.p after REMOVE, before 2nd compact = {before:?}");
    db.compact().unwrap();

    let p = single(&db, "MATCH (n:N) RETURN n.p AS p", "p");
    println!("n.p after REMOVE + compact = {p:?}");
    let keys = single(&db, "MATCH (n:N) RETURN keys(n) AS k", "k");
    println!("keys(n) after REMOVE + compact = {keys:?}");
    let props = single(&db, "MATCH (n:N) RETURN properties(n) AS m", "m");
    println!("properties(n) after REMOVE + compact = {props:?}");
    assert_eq!(p, Value::Null, "removed property n.p is visible after compaction");
    assert_eq!(before, Value::Null, "removed property n.p visible before 2nd compaction");
    assert_eq!(
        single(&db, "MATCH (n:N) RETURN size(keys(n)) AS k", "k"),
        Value::Int(1),
        "keys(n) still lists removed property after compaction"
    );
}

#[test]
fn property_set_to_null_stays_removed_after_compaction() {
    let dir = tempdir().unwrap();
    let db = Db::open(dir.path().join("c05rp_b.ndb")).unwrap();
    write(&db, "CREATE (n:N {p: 1, q: 7})");
    db.compact().unwrap();
    write(&db, "MATCH (n:N) SET n.p = null");
    let before = single(&db, "MATCH (n:N) RETURN n.p AS p", "p");
    println!("n.p after SET null, before 2nd compact = {before:?}");
    db.compact().unwrap();
    let p = single(&db, "MATCH (n:N) RETURN n.p AS p", "p");
    println!("n.p after SET null + compact = {p:?}");
    assert_eq!(p, Value::Null, "nulled property n.p is visible after compaction");
    assert_eq!(before, Value::Null, "nulled property n.p visible before 2nd compaction");
}

#[test]
fn overwritten_property_reads_new_value_after_compaction() {
    let dir = tempdir().unwrap();
    let db = Db::open(dir.path().join("c05rp_c.ndb")).unwrap();
    write(&db, "CREATE (n:N {p: 1})");
    db.compact().unwrap();
    write(&db, "MATCH (n:N) SET n.p = 2");
    // Before the second compaction (new value in run, old value in tree).
    assert_eq!(
        single(&db, "MATCH (n:N) RETURN n.p AS p", "p"),
        Value::Int(2),
        "n.p before 2nd compact"
    );
    assert_eq!(
        single(&db, "MATCH (n:N) RETURN properties(n).p AS p", "p"),
        Value::Int(2),
        "properties(n).p before 2nd compact returns stale value"
    );
    db.compact().unwrap();
    assert_eq!(
        single(&db, "MATCH (n:N) RETURN n.p AS p", "p"),
        Value::Int(2),
        "n.p after 2nd compact"
    );
    assert_eq!(
        single(&db, "MATCH (n:N) RETURN properties(n).p AS p", "p"),
        Value::Int(2),
        "properties(n).p after 2nd compact returns stale value"
    );
}

#[test]
fn control_remove_without_compaction_works() {
    let dir = tempdir().unwrap();
    let db = Db::open(dir.path().join("c05rp_d.ndb")).unwrap();
    write(&db, "CREATE (n:N {p: 1, q: 7})");
    write(&db, "MATCH (n:N) REMOVE n.p");
    assert_eq!(single(&db, "MATCH (n:N) RETURN n.p AS p", "p"), Value::Null);
}
