// C16 confirmation: a long left-associative operator / postfix chain used to overflow the stack (process abort) because the
// parser's infix and postfix loops build a left-deep tree without recursing. Place in /repo/nervusdb/tests/ and run
// `cargo test --offline -p nervusdb --test demo_c16_long_operator_chain -- --nocapture`.
// On the unfixed tree the test process dies with "has overflowed its stack" (SIGABRT) at n = 1000.
use nervusdb::Db;
use nervusdb_query::{Params, Result, prepare};
use tempfile::tempdir;

fn run(q: &str) -> String {
    let dir = tempdir().unwrap();
    let db = Db::open(dir.path().join("g")).unwrap();
    let snapshot = db.snapshot();
    let r = prepare(q).and_then(|p| {
        p.execute_streaming(&snapshot, &Params::new())
            .collect::<Result<Vec<_>>>()
    });
    format!("{:?}", r.map(|v| v.len()).map_err(|e| e.to_string().chars().take(80).collect::<String>()))
}

#[test]
fn long_chains_return_rows_or_an_error() {
    for n in [100usize, 1000, 100000] {
        let mut q = String::from("RETURN 1");
        for _ in 0..n { q.push_str("+1"); }
        q.push_str(" AS d");
        println!("plus n={} -> {}", n, run(&q));
        let mut q = String::from("WITH {a: 1} AS m RETURN m");
        for _ in 0..n { q.push_str(".a"); }
        q.push_str(" AS d");
        println!("dot n={} -> {}", n, run(&q));
        let mut q = String::from("WITH [1] AS l RETURN l");
        for _ in 0..n { q.push_str("[0]"); }
        q.push_str(" AS d");
        println!("idx n={} -> {}", n, run(&q));
        let mut q = String::from("RETURN 1");
        for _ in 0..n { q.push_str(" IS NULL"); }
        q.push_str(" AS d");
        println!("isnull n={} -> {}", n, run(&q));
        let mut q = String::from("MATCH (n) RETURN n");
        for _ in 0..n { q.push_str(":A"); }
        q.push_str(" AS d");
        println!("labels n={} -> {}", n, run(&q));
    }
}
