use nervusdb::{Db, GraphSnapshot};
use nervusdb_query::{Params, Value, prepare};
use tempfile::tempdir;

fn count(db: &Db, cypher: &str) -> i64 {
    let snapshot = db.snapshot();
    let rows: Vec<_> = prepare(cypher)
        .unwrap()
        .execute_streaming(&snapshot, &Params::new())
        .collect::<Result<Vec<_>, _>>()
        .unwrap();
    match rows[0].get("c") {
        Some(Value::Int(i)) => *i,
        other => panic!("unexpected count value {other:?}"),
    }
}

/// Low-level view: number of live nodes and number of outgoing edges stored on
/// tombstoned (deleted) nodes.
fn raw_state(db: &Db) -> (usize, usize) {
    let snap = db.snapshot();
    let live: Vec<_> = snap.nodes().collect();
    let mut dangling = 0;
    // internal ids are dense and small in these tests
    for iid in 0..16u32 {
        if snap.is_tombstoned_node(iid) {
            dangling += snap.neighbors(iid, None).count();
        }
    }
    (live.len(), dangling)
}

/// Single statement (mixed read/write entry point, the one the C API / CLI use):
/// create a connected node and plain-DELETE it. Must be refused.
#[test]
fn delete_of_node_connected_earlier_in_same_statement_is_refused() {
    let dir = tempdir().unwrap();
    let db = Db::open(dir.path().join("dangling1.ndb")).unwrap();

    let q = prepare("CREATE (a:X)-[:R]->(b:Y) WITH a DELETE a").unwrap();
    let snapshot = db.snapshot();
    let mut txn = db.begin_write();
    let res = q.execute_mixed(&snapshot, &mut txn, &Params::new());
    println!("single-statement result = {res:?}");
    let refused = res.is_err();
    if !refused {
        txn.commit().unwrap();
        let rels = count(&db, "MATCH ()-[r:R]->() RETURN count(r) AS c");
        let xs = count(&db, "MATCH (n:X) RETURN count(n) AS c");
        let ys_in = count(&db, "MATCH (n:Y)<-[r:R]-() RETURN count(r) AS c");
        let (live, dangling) = raw_state(&db);
        println!(
            "after commit: MATCH ()-[r:R]->() = {rels}, X nodes = {xs}, R edges into Y = {ys_in}, \
             live nodes = {live}, edges stored on deleted nodes = {dangling}"
        );
    }
    assert!(
        refused,
        "plain DELETE of a node that has a relationship (created in the same statement) was accepted"
    );
}

/// Two statements in ONE write transaction: the first creates two connected nodes,
/// the second plain-DELETEs the nodes (not the relationship). Must be refused.
#[test]
fn delete_of_node_connected_earlier_in_same_txn_is_refused() {
    let dir = tempdir().unwrap();
    let db = Db::open(dir.path().join("dangling2.ndb")).unwrap();

    let mut txn = db.begin_write();
    prepare("CREATE (a:X {k: 1})-[:R]->(b:Y)")
        .unwrap()
        .execute_mixed(&db.snapshot(), &mut txn, &Params::new())
        .unwrap();
    let res = prepare("MATCH (n) DELETE n")
        .unwrap()
        .execute_mixed(&db.snapshot(), &mut txn, &Params::new());
    println!("second statement result = {res:?}");
    let refused = res.is_err();
    txn.commit().unwrap();

    let rels = count(&db, "MATCH ()-[r:R]->() RETURN count(r) AS c");
    let nodes = count(&db, "MATCH (n) RETURN count(n) AS c");
    let (live, dangling) = raw_state(&db);
    println!(
        "after commit: MATCH ()-[r:R]->() = {rels}, nodes = {nodes}, live nodes = {live}, \
         edges stored on deleted nodes = {dangling}"
    );
    assert!(
        refused,
        "plain DELETE of connected nodes (relationship created earlier in the same txn) was accepted"
    );
}
