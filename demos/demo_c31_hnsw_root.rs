//! Suspicion c31_hnsw_root: HNSW B-tree roots are recorded in the catalog only at creation;
//! after a root split the new root lives only in memory, so a reopen loads a stale root.

use nervusdb::Db;

const N: usize = 600;
const PROBES: [usize; 4] = [0, 150, 400, 599];

fn probe(db: &Db) -> Vec<Result<Vec<(u32, f32)>, String>> {
    PROBES
        .iter()
        .map(|&p| {
            db.search_vector(&[p as f32, 0.0], 5)
                .map_err(|e| format!("{e:?}"))
        })
        .collect()
}

#[test]
fn vector_search_is_unchanged_after_reopen() {
    let dir = tempfile::tempdir().unwrap();
    let path = dir.path().join("c31.ndb");

    let mut ids = Vec::new();
    let before;
    {
        let db = Db::open(&path).unwrap();
        {
            let mut txn = db.begin_write();
            let label = txn.get_or_create_label("Doc").unwrap();
            for i in 0..N {
                ids.push(txn.create_node(1 + i as u64, label).unwrap());
            }
            txn.commit().unwrap();
        }
        {
            let mut txn = db.begin_write();
            for (i, &iid) in ids.iter().enumerate() {
                txn.set_vector(iid, vec![i as f32, 0.0]).unwrap();
            }
            txn.commit().unwrap();
        }

        before = probe(&db);
        for (k, &p) in PROBES.iter().enumerate() {
            let res = before[k].as_ref().expect("warm search must succeed");
            println!("warm  probe {p}: {res:?}");
            assert_eq!(res.len(), 5, "warm search returns k results");
            assert_eq!(res[0].0, ids[p], "warm search finds the exact vector");
            assert_eq!(res[0].1, 0.0);
        }
        db.close().unwrap();
    }

    let db = Db::open(&path).expect("reopen");
    let after = probe(&db);
    for (k, &p) in PROBES.iter().enumerate() {
        println!("cold  probe {p}: {:?}", after[k]);
    }
    assert_eq!(
        after, before,
        "vector search results changed after close + reopen (stale HNSW root?)"
    );
}
