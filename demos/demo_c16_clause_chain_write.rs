// C16 known finding (C16.9): the number of stacked clauses / UNION branches / patterns / hops is bounded only by the query length,
// and plan compilation / execution recurse once per unit. Place in /repo/nervusdb/tests/ and run e.g.
//   W=sets N=3000 cargo test --offline -p nervusdb --test demo_c16_clause_chain_write -- --nocapture
// Expected today: the test process aborts with "has overflowed its stack" (SIGABRT) — in a debug build already at N=120 for W=sets,
// N=800 for W=union, N=500 for W=match; in a release build at N=1000 (sets) / N=3000 (with, match, union, unwind, create1).
use nervusdb::Db;
use nervusdb_query::{Params, prepare};
use tempfile::tempdir;
#[test]
fn probe() {
    let which = std::env::var("W").unwrap_or_default();
    let n: usize = std::env::var("N").ok().and_then(|v| v.parse().ok()).unwrap_or(1000);
    let q = match which.as_str() {
        "creates" => { let mut q = String::new(); for i in 0..n { q.push_str(&format!("CREATE (x{}:L {{i: {}}}) ", i, i)); } q }
        "create1" => { let mut q = String::from("CREATE "); for i in 0..n { if i>0 {q.push(',');} q.push_str(&format!("(x{}:L {{i: {}}})", i, i)); } q }
        "createpath" => { let mut q = String::from("CREATE (x)"); for i in 0..n { q.push_str(&format!("-[:R]->(y{})", i)); } q }
        "sets" => { let mut q = String::from("CREATE (x) "); for i in 0..n { q.push_str(&format!("SET x.p{} = {} ", i, i)); } q }
        "set1" => { let mut q = String::from("CREATE (x) SET "); for i in 0..n { if i>0 {q.push(',');} q.push_str(&format!("x.p{} = {}", i, i)); } q }
        _ => String::from("RETURN 1")
    };
    let dir = tempdir().unwrap();
    let db = Db::open(dir.path().join("g")).unwrap();
    let t = std::time::Instant::now();
    let r = prepare(&q).and_then(|p| { let snap = db.snapshot(); let mut txn = db.begin_write(); let r = p.execute_mixed(&snap, &mut txn, &Params::new()).map(|(_rows, c)| c); if r.is_ok() { txn.commit().unwrap(); } r });
    println!("{} n={} -> {:?} in {:?}", which, n, r.map_err(|e| e.to_string().chars().take(80).collect::<String>()), t.elapsed());
}
