//! Suspicion c03_live_catalog: a read snapshot's index lookups (and property B-tree reads)
//! go to the LIVE shared structures instead of the state captured at snapshot time.

use nervusdb::query::{Params, prepare};
use nervusdb::{Db, GraphSnapshot, PropertyValue};

fn run(snap: &nervusdb::DbSnapshot, q: &str) -> Vec<u32> {
    let prepared = prepare(q).unwrap();
    let rows = prepared
        .execute_streaming(snap, &Params::new())
        .collect::<Result<Vec<_>, _>>()
        .unwrap();
    let mut ids: Vec<u32> = rows.iter().map(|r| r.get_node("n").unwrap()).collect();
    ids.sort();
    ids
}

/// (a1) As specified: snapshot taken BEFORE index creation + matching node; query via old snapshot.
#[test]
fn a1_old_snapshot_query_does_not_see_node_indexed_later() {
    let dir = tempfile::tempdir().unwrap();
    let db = Db::open(dir.path().join("c03a1.ndb")).unwrap();
    {
        let mut txn = db.begin_write();
        let label = txn.get_or_create_label("Person").unwrap();
        let n = txn.create_node(1, label).unwrap();
        txn.set_node_property(n, "name".to_string(), PropertyValue::String("other".into()))
            .unwrap();
        txn.commit().unwrap();
    }

    let old = db.snapshot();

    db.create_index("Person", "name").unwrap();
    {
        let mut txn = db.begin_write();
        let label = txn.get_or_create_label("Person").unwrap();
        let n = txn.create_node(2, label).unwrap();
        txn.set_node_property(n, "name".to_string(), PropertyValue::String("x".into()))
            .unwrap();
        txn.commit().unwrap();
    }

    // sanity: a fresh snapshot sees it
    assert_eq!(run(&db.snapshot(), "MATCH (n:Person {name:'x'}) RETURN n").len(), 1);

    let got = run(&old, "MATCH (n:Person {name:'x'}) RETURN n");
    println!("a1: old snapshot query returned {got:?}");
    assert!(got.is_empty(), "old snapshot query sees node committed later: {got:?}");
}

/// (a2) Same scenario, but at the snapshot API (`GraphSnapshot::lookup_index`) the executor uses.
#[test]
fn a2_old_snapshot_lookup_index_does_not_see_later_index_entries() {
    let dir = tempfile::tempdir().unwrap();
    let db = Db::open(dir.path().join("c03a2.ndb")).unwrap();
    {
        let mut txn = db.begin_write();
        let label = txn.get_or_create_label("Person").unwrap();
        let n = txn.create_node(1, label).unwrap();
        txn.set_node_property(n, "name".to_string(), PropertyValue::String("other".into()))
            .unwrap();
        txn.commit().unwrap();
    }

    let old = db.snapshot();

    db.create_index("Person", "name").unwrap();
    {
        let mut txn = db.begin_write();
        let label = txn.get_or_create_label("Person").unwrap();
        let n = txn.create_node(2, label).unwrap();
        txn.set_node_property(n, "name".to_string(), PropertyValue::String("x".into()))
            .unwrap();
        txn.commit().unwrap();
    }

    let got = old.lookup_index("Person", "name", &PropertyValue::String("x".into()));
    println!("a2: old snapshot lookup_index -> {got:?}");
    assert_eq!(
        got, None,
        "old snapshot's index lookup returns an entry (index + node) created after the snapshot"
    );
}

/// (b) Query-level consequence: the index exists up-front, two nodes have name='old'.
/// After the snapshot one of them is renamed. The OLD snapshot must still return both.
#[test]
fn b_old_snapshot_query_still_sees_rows_whose_index_entry_was_moved_later() {
    let dir = tempfile::tempdir().unwrap();
    let db = Db::open(dir.path().join("c03b.ndb")).unwrap();
    db.create_index("Person", "name").unwrap();

    let (a, b);
    {
        let mut txn = db.begin_write();
        let label = txn.get_or_create_label("Person").unwrap();
        a = txn.create_node(1, label).unwrap();
        b = txn.create_node(2, label).unwrap();
        for n in [a, b] {
            txn.set_node_property(n, "name".to_string(), PropertyValue::String("old".into()))
                .unwrap();
        }
        txn.commit().unwrap();
    }

    let old = db.snapshot();
    assert_eq!(run(&old, "MATCH (n:Person {name:'old'}) RETURN n"), vec![a, b]);

    {
        let mut txn = db.begin_write();
        txn.set_node_property(a, "name".to_string(), PropertyValue::String("new".into()))
            .unwrap();
        txn.commit().unwrap();
    }

    // The old snapshot itself still says a.name == 'old' ...
    assert_eq!(
        old.node_property(a, "name"),
        Some(PropertyValue::String("old".into()))
    );
    // ... so the same query on the same snapshot must return the same rows.
    let got = run(&old, "MATCH (n:Person {name:'old'}) RETURN n");
    println!("b: old snapshot query after later rename returned {got:?}, expected {:?}", vec![a, b]);
    assert_eq!(
        got,
        vec![a, b],
        "repeating a query on one snapshot gave a different answer after a later commit"
    );
}

/// (c) Property B-tree: snapshot taken after a compaction; later write + second compaction.
#[test]
fn c_old_snapshot_property_is_stable_across_later_compaction() {
    let dir = tempfile::tempdir().unwrap();
    let db = Db::open(dir.path().join("c03c.ndb")).unwrap();
    let n;
    {
        let mut txn = db.begin_write();
        let label = txn.get_or_create_label("Person").unwrap();
        n = txn.create_node(1, label).unwrap();
        txn.set_node_property(n, "age".to_string(), PropertyValue::Int(1))
            .unwrap();
        txn.commit().unwrap();
    }
    db.compact().unwrap();

    let old = db.snapshot();
    assert_eq!(old.node_property(n, "age"), Some(PropertyValue::Int(1)));

    {
        let mut txn = db.begin_write();
        txn.set_node_property(n, "age".to_string(), PropertyValue::Int(2))
            .unwrap();
        txn.commit().unwrap();
    }
    // before the second compaction the old snapshot is still fine
    assert_eq!(old.node_property(n, "age"), Some(PropertyValue::Int(1)));
    db.compact().unwrap();

    assert_eq!(db.snapshot().node_property(n, "age"), Some(PropertyValue::Int(2)));
    let got = old.node_property(n, "age");
    println!("c: old snapshot reads age = {got:?} after later compaction (expected Int(1))");
    assert_eq!(
        got,
        Some(PropertyValue::Int(1)),
        "old snapshot observed a value written after it was taken"
    );
}
