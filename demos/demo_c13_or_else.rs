use nervusdb::Db;
use nervusdb_query::{Params, Value, prepare};
use tempfile::tempdir;

fn count(db: &Db, cypher: &str) -> i64 {
    let snapshot = db.snapshot();
    let rows: Vec<_> = prepare(cypher)
        .unwrap()
        .execute_streaming(&snapshot, &Params::new())
        .collect::<Result<Vec<_>, _>>()
        .unwrap();
    match rows[0].get("c") {
        Some(Value::Int(i)) => *i,
        other => panic!("unexpected count value {other:?}"),
    }
}

/// UNION of two write branches; the LEFT branch raises a runtime error
/// (toBoolean(1) -> InvalidArgumentValue). The statement must report the error.
#[test]
fn union_left_branch_runtime_error_is_reported() {
    let dir = tempdir().unwrap();
    let db = Db::open(dir.path().join("orelse1.ndb")).unwrap();

    let q = prepare(
        "CREATE (a:U1 {flag: toBoolean(1)}) RETURN 1 AS x \
         UNION \
         CREATE (b:U2) RETURN 1 AS x",
    )
    .unwrap();
    let snapshot = db.snapshot();
    let mut txn = db.begin_write();
    let res = q.execute_write(&snapshot, &mut txn, &Params::new());
    println!("union(left fails) execute_write result = {res:?}");
    let reported_ok = res.is_ok();
    if reported_ok {
        txn.commit().unwrap();
        println!(
            "after commit: U1 = {}, U2 = {}",
            count(&db, "MATCH (n:U1) RETURN count(n) AS c"),
            count(&db, "MATCH (n:U2) RETURN count(n) AS c")
        );
    }
    assert!(
        !reported_ok,
        "runtime error of the first UNION branch was swallowed; statement reported success"
    );
}

/// CALL { } subquery after a failing CREATE: the error of the outer part must be reported.
#[test]
fn apply_outer_runtime_error_is_reported() {
    let dir = tempdir().unwrap();
    let db = Db::open(dir.path().join("orelse2.ndb")).unwrap();

    let q = match prepare(
        "CREATE (a:A1 {flag: toBoolean(1)}) WITH 1 AS one CALL { CREATE (s:S1) RETURN 2 AS two } RETURN one",
    ) {
        Ok(q) => q,
        Err(e) => {
            println!("apply form not accepted by the planner (case not applicable): {e}");
            return;
        }
    };
    let snapshot = db.snapshot();
    let mut txn = db.begin_write();
    let res = q.execute_write(&snapshot, &mut txn, &Params::new());
    println!("apply(outer fails) execute_write result = {res:?}");
    let reported_ok = res.is_ok();
    if reported_ok {
        txn.commit().unwrap();
        println!(
            "after commit: A1 = {}, S1 = {}",
            count(&db, "MATCH (n:A1) RETURN count(n) AS c"),
            count(&db, "MATCH (n:S1) RETURN count(n) AS c")
        );
    }
    assert!(
        !reported_ok,
        "runtime error of the outer part was swallowed; statement reported success"
    );
}

/// Companion: a UNION of two legal write branches must execute BOTH branches.
#[test]
fn union_of_two_write_branches_executes_both() {
    let dir = tempdir().unwrap();
    let db = Db::open(dir.path().join("orelse3.ndb")).unwrap();

    let q = prepare("CREATE (a:V1) RETURN 1 AS x UNION CREATE (b:V2) RETURN 1 AS x").unwrap();
    let snapshot = db.snapshot();
    let mut txn = db.begin_write();
    let res = q.execute_write(&snapshot, &mut txn, &Params::new());
    println!("union(both legal) execute_write result = {res:?}");
    res.unwrap();
    txn.commit().unwrap();
    let v1 = count(&db, "MATCH (n:V1) RETURN count(n) AS c");
    let v2 = count(&db, "MATCH (n:V2) RETURN count(n) AS c");
    println!("after commit: V1 = {v1}, V2 = {v2}");
    assert_eq!((v1, v2), (1, 1), "both UNION branches must take effect");
}
