use nervusdb::Db;
use nervusdb_query::{Params, prepare};
use tempfile::tempdir;

#[test]
fn oversized_indexed_property_is_an_error_not_a_panic() {
    let dir = tempdir().unwrap();
    let db = Db::open(dir.path().join("g")).unwrap();
    db.create_index("Item", "k").unwrap();
    let big = "x".repeat(24 * 1024);
    let mut txn = db.begin_write();
    let q = prepare(&format!("CREATE (:Item {{k: '{}'}})", big)).unwrap();
    q.execute_write(&db.snapshot(), &mut txn, &Params::new()).unwrap();
    let r = std::panic::catch_unwind(std::panic::AssertUnwindSafe(|| txn.commit()));
    match r {
        Ok(res) => println!("commit returned {:?}", res.map_err(|e| e.to_string())),
        Err(_) => panic!("commit PANICKED"),
    }
}
