use nervusdb::{Db, vacuum};
use nervusdb_api::GraphSnapshot;
use nervusdb_query::{Params, prepare};
use tempfile::tempdir;

#[test]
fn vacuum_after_compaction_keeps_both_directions() {
    let dir = tempdir().unwrap();
    let path = dir.path().join("g");
    {
        let db = Db::open(&path).unwrap();
        let mut txn = db.begin_write();
        let q = prepare("CREATE (a:A {k:1})-[:R]->(b:B {k:2})").unwrap();
        q.execute_write(&db.snapshot(), &mut txn, &Params::new()).unwrap();
        txn.commit().unwrap();
        db.compact().unwrap();
        db.close().unwrap();
    }
    let report = vacuum(&path);
    println!("vacuum -> {:?}", report.as_ref().map(|_| "ok").map_err(|e| e.to_string()));
    report.unwrap();
    let db = Db::open(&path).unwrap();
    let s = db.snapshot();
    let out: usize = s.nodes().map(|n| s.neighbors(n, None).count()).sum();
    let inc: usize = s.nodes().map(|n| s.incoming_neighbors(n, None).count()).sum();
    println!("out={} in={}", out, inc);
    assert_eq!((out, inc), (1, 1));
}
