// C16 confirmation: extreme / negative integer arguments used to panic in substring() and in temporal + duration arithmetic.
// Place in /repo/nervusdb/tests/ and run `cargo test --offline -p nervusdb --test demo_c16_extreme_integers -- --nocapture`.
use nervusdb::Db;
use nervusdb_query::{Params, Result, prepare};
use tempfile::tempdir;

#[test]
fn extreme_integer_arguments_do_not_panic() {
    let dir = tempdir().unwrap();
    let db = Db::open(dir.path().join("g")).unwrap();
    let snapshot = db.snapshot();
    let mut panicked = Vec::new();
    for q in [
        "RETURN substring('abc', 1, -1) AS d",
        "RETURN substring('abc', -1, 2) AS d",
        "RETURN substring('abc', 1, 9223372036854775807) AS d",
        "RETURN substring('abc', 9223372036854775807, 9223372036854775807) AS d",
        "RETURN left('abc', -1) AS d",
        "RETURN right('abc', -9223372036854775808) AS d",
        "RETURN [1,2,3][-9223372036854775808..2] AS d",
        "RETURN [1,2,3][-9223372036854775808] AS d",
        "RETURN date('2020-01-01') + duration({months: 9223372036854775807}) AS d",
        "RETURN date('2020-01-01') + duration({months: 2147483647}) AS d",
        "RETURN date('2020-01-01') - duration({months: 2147483647}) AS d",
        "RETURN date('2020-01-01') + duration({days: 9223372036854775807}) AS d",
        "RETURN date('2020-01-01') - duration({days: 9223372036854775807}) AS d",
        "RETURN localdatetime('2020-01-01T00:00') + duration({days: 9223372036854775807}) AS d",
        "RETURN datetime('2020-01-01T00:00Z') + duration({days: -9223372036854775807}) AS d",
        "RETURN localtime('12:00') + duration({days: 9223372036854775807, nanoseconds: 1}) AS d",
        "RETURN time('12:00Z') + duration({days: 9223372036854775807, nanoseconds: 1}) AS d",
        "RETURN localtime('12:00') - duration({days: 9223372036854775807, nanoseconds: 1}) AS d",
        "RETURN date('2020-01-01') + duration({nanoseconds: -9223372036854775808}) AS d",
        "RETURN duration({years: 9223372036854775807}) AS d",
        "RETURN duration({months: 9223372036854775807, days: 9223372036854775807, seconds: 9223372036854775807}) AS d",
        "RETURN duration({weeks: 9223372036854775807}) AS d",
        "RETURN duration({days: 1.5e300}) AS d",
        "RETURN duration('P9223372036854775807Y') AS d",
        "RETURN duration('P99999999999999999999D') AS d",
        "RETURN duration('PT9223372036854775807H') AS d",
        "RETURN duration({hours: 9223372036854775807}) + duration({hours: 9223372036854775807}) AS d",
        "RETURN duration({hours: 9223372036854775807}) * 9223372036854775807 AS d",
        "RETURN duration({hours: 1}) / 0 AS d",
        "RETURN duration({hours: 1}) / 0.0 AS d",
        "RETURN date({year: 9223372036854775807, month: 1, day: 1}) AS d",
        "RETURN date({year: 2020, quarter: 4, dayOfQuarter: 4294967295}) AS d",
        "RETURN date({year: 2020, week: 4294967295}) AS d",
        "RETURN date({year: 2020, ordinalDay: 4294967295}) AS d",
        "RETURN localtime({hour: 12, nanosecond: 9223372036854775807}) AS d",
        "RETURN localtime({hour: 12, millisecond: 9223372036854775807, microsecond: 9223372036854775807}) AS d",
        "RETURN datetime({year: 2020, month: 1, day: 1, timezone: '+18:00'}) AS d",
        "RETURN datetime.fromepoch(9223372036854775807, 9223372036854775807) AS d",
        "RETURN datetime.fromepochmillis(-9223372036854775808) AS d",
        "RETURN duration.between(date('-999999999-01-01'), date('+999999999-01-01')) AS d",
        "RETURN duration.inDays(date('-999999999-01-01'), date('+999999999-01-01')) AS d",
        "RETURN duration.inSeconds(localdatetime('-999999999-01-01T00:00'), localdatetime('+999999999-12-01T00:00')) AS d",
        "RETURN duration.inMonths(localdatetime('-999999999-01-01T00:00'), localdatetime('+999999999-12-01T00:00')) AS d",
        "RETURN date.truncate('millennium', date('-999999999-01-01')) AS d",
        "RETURN date.truncate('week', date('+999999999-12-31')) AS d",
        "RETURN datetime.truncate('day', datetime('2020-01-01T00:00Z'), {nanosecond: 9223372036854775807}) AS d",
        "RETURN toString(duration({minutes: -9223372036854775808})) AS d",
        "RETURN duration({seconds: -9223372036854775808}).minutesOfHour AS d",
        "RETURN date('+999999999-12-31').week AS d",
        "RETURN date('-999999999-01-01').dayOfWeek AS d",
        "RETURN localdatetime('+999999999-12-31T23:59:59.999999999') + duration({nanoseconds: 1}) AS d",
    ] {
        let r = std::panic::catch_unwind(std::panic::AssertUnwindSafe(|| {
            prepare(q).and_then(|p| {
                p.execute_streaming(&snapshot, &Params::new())
                    .collect::<Result<Vec<_>>>()
            })
        }));
        let shown = match &r {
            Ok(Ok(v)) => format!("ok {}", v.first().map(|r| format!("{:?}", r)).unwrap_or_default().chars().take(70).collect::<String>()),
            Ok(Err(e)) => format!("err {}", e),
            Err(_) => "PANIC".to_string(),
        };
        println!("{:100} -> {}", q, shown);
        if r.is_err() {
            panicked.push(q);
        }
    }
    assert!(panicked.is_empty(), "queries that panicked: {panicked:#?}");
}
