use nervusdb::Db;
use nervusdb::query::{Params, Row, Value, prepare, query_collect};
use tempfile::tempdir;

fn write(db: &Db, cypher: &str) {
    let q = prepare(cypher).unwrap();
    let mut txn = db.begin_write();
    q.execute_write(&db.snapshot(), &mut txn, &Params::new())
        .unwrap();
    txn.commit().unwrap();
}

fn rows(db: &Db, cypher: &str) -> Vec<Row> {
    query_collect(&db.snapshot(), cypher, &Params::new()).unwrap()
}

fn explain(db: &Db, cypher: &str) -> String {
    let r = rows(db, &format!("EXPLAIN {cypher}"));
    match &r[0].columns()[0].1 {
        Value::String(s) => s.clone(),
        other => format!("{other:?}"),
    }
}

/// Runs the scenario; `with_index` decides whether the index is created
/// between the "old" and the "new" inserts. Returns (rows for WHERE form, rows for pattern form).
fn scenario(with_index: bool) -> (usize, usize, usize) {
    let dir = tempdir().unwrap();
    let db = Db::open(dir.path().join("c15bf.ndb")).unwrap();
    write(&db, "CREATE (n:Person {name: 'dup', tag: 'old'})");
    write(&db, "CREATE (n:Person {name: 'other', tag: 'old2'})");
    if with_index {
        db.create_index("Person", "name").unwrap();
    }
    write(&db, "CREATE (n:Person {name: 'dup', tag: 'new'})");

    let q_where = "MATCH (n:Person) WHERE n.name = 'dup' RETURN n";
    let q_pat = "MATCH (n:Person {name: 'dup'}) RETURN n";
    let q_other = "MATCH (n:Person) WHERE n.name = 'other' RETURN n";
    println!(
        "with_index={with_index} plan:\n{}",
        explain(&db, q_where)
    );
    let a = rows(&db, q_where).len();
    let b = rows(&db, q_pat).len();
    let c = rows(&db, q_other).len();
    println!("with_index={with_index}: WHERE-form rows={a}, pattern-form rows={b}, other rows={c}");
    (a, b, c)
}

#[test]
fn control_without_index_finds_both_nodes() {
    assert_eq!(scenario(false), (2, 2, 1));
}

#[test]
fn index_created_after_data_is_backfilled() {
    let (where_rows, pattern_rows, other_rows) = scenario(true);
    assert_eq!(
        where_rows, 2,
        "WHERE n.name='dup' with late-created index misses the pre-existing node"
    );
    assert_eq!(
        pattern_rows, 2,
        "(n:Person {{name:'dup'}}) with late-created index misses the pre-existing node"
    );
    assert_eq!(other_rows, 1, "value only present on pre-index nodes");
}
