use std::ffi::{CStr, CString};
use std::os::raw::c_char;
use std::ptr;

use nervusdb::{
    NDB_OK, ndb_begin_write, ndb_close, ndb_db_t, ndb_last_error_message, ndb_open, ndb_query,
    ndb_result_free, ndb_result_t, ndb_result_to_json, ndb_string_free, ndb_txn_commit,
    ndb_txn_query, ndb_txn_t,
};

fn open(name: &str, dir: &tempfile::TempDir) -> *mut ndb_db_t {
    let p = CString::new(dir.path().join(name).to_string_lossy().to_string()).unwrap();
    let mut db: *mut ndb_db_t = ptr::null_mut();
    assert_eq!(ndb_open(p.as_ptr(), &mut db), NDB_OK);
    db
}

fn query_json(db: *mut ndb_db_t, cypher: &str) -> String {
    let q = CString::new(cypher).unwrap();
    let mut result: *mut ndb_result_t = ptr::null_mut();
    assert_eq!(ndb_query(db, q.as_ptr(), ptr::null(), &mut result), NDB_OK);
    let mut json_ptr: *mut c_char = ptr::null_mut();
    assert_eq!(ndb_result_to_json(result, &mut json_ptr), NDB_OK);
    let json = unsafe { CStr::from_ptr(json_ptr) }
        .to_str()
        .unwrap()
        .to_string();
    ndb_string_free(json_ptr);
    ndb_result_free(result);
    json
}

fn last_error() -> String {
    let mut buf = vec![0 as c_char; 512];
    ndb_last_error_message(buf.as_mut_ptr(), buf.len());
    unsafe { CStr::from_ptr(buf.as_ptr()) }
        .to_str()
        .unwrap()
        .to_string()
}

fn txn_query(txn: *mut ndb_txn_t, cypher: &str) {
    let c = CString::new(cypher).unwrap();
    let rc = ndb_txn_query(txn, c.as_ptr(), ptr::null());
    assert_eq!(rc, NDB_OK, "`{cypher}` failed: {}", last_error());
}

/// Second statement of a transaction must see the property written by the first one.
#[test]
fn txn_second_statement_sees_property_written_by_first() {
    let dir = tempfile::tempdir().unwrap();
    let db = open("own-prop", &dir);

    let mut txn: *mut ndb_txn_t = ptr::null_mut();
    assert_eq!(ndb_begin_write(db, &mut txn), NDB_OK);
    txn_query(txn, "CREATE (:P {k: 1})");
    txn_query(txn, "MATCH (n:P) WHERE n.k = 1 SET n.seen = true");
    assert_eq!(ndb_txn_commit(txn), NDB_OK);

    let created = query_json(db, "MATCH (n:P) RETURN count(n) AS c");
    let seen = query_json(db, "MATCH (n:P) WHERE n.seen = true RETURN count(n) AS c");
    println!("created: {created}   seen: {seen}");
    assert!(created.contains("\"c\":1"), "node not created: {created}");
    assert!(
        seen.contains("\"c\":1"),
        "second statement did not see the first statement's write: {seen}"
    );

    assert_eq!(ndb_close(db), NDB_OK);
}

/// Second statement of a transaction must see the relationship created by the first one.
#[test]
fn txn_second_statement_sees_relationship_created_by_first() {
    let dir = tempfile::tempdir().unwrap();
    let db = open("own-rel", &dir);

    let mut txn: *mut ndb_txn_t = ptr::null_mut();
    assert_eq!(ndb_begin_write(db, &mut txn), NDB_OK);
    txn_query(txn, "CREATE (:A {k: 1})-[:R]->(:B)");
    txn_query(txn, "MATCH (a:A)-[:R]->(b:B) SET b.hit = true");
    assert_eq!(ndb_txn_commit(txn), NDB_OK);

    let rels = query_json(db, "MATCH (:A)-[r:R]->(:B) RETURN count(r) AS c");
    let hit = query_json(db, "MATCH (b:B) WHERE b.hit = true RETURN count(b) AS c");
    println!("rels: {rels}   hit: {hit}");
    assert!(rels.contains("\"c\":1"), "relationship not created: {rels}");
    assert!(
        hit.contains("\"c\":1"),
        "second statement did not see the first statement's relationship: {hit}"
    );

    assert_eq!(ndb_close(db), NDB_OK);
}
