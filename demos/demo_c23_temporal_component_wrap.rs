// C23 confirmation: temporal map components were narrowed with `as i32` / `as u32`, so an out-of-range component wrapped back into
// the valid range: date({year: 2020, month: 4294967297, day: 1}) returned 2020-01-01. Place in /repo/nervusdb/tests/ and run
// `cargo test --offline -p nervusdb --test demo_c23_temporal_component_wrap`.
use nervusdb::Db;
use nervusdb_query::{Params, Result, Value, prepare};
use tempfile::tempdir;

fn eval(q: &str) -> Value {
    let dir = tempdir().unwrap();
    let db = Db::open(dir.path().join("g")).unwrap();
    let snapshot = db.snapshot();
    let rows = prepare(q)
        .and_then(|p| {
            p.execute_streaming(&snapshot, &Params::new())
                .collect::<Result<Vec<_>>>()
        })
        .unwrap();
    rows[0].columns()[0].1.clone()
}

#[test]
fn out_of_range_components_do_not_wrap_into_range() {
    assert_eq!(eval("RETURN date({year: 2020, month: 4294967297, day: 1}) AS r"), Value::Null);
    assert_eq!(eval("RETURN date({year: 4294969316, month: 1, day: 1}) AS r"), Value::Null);
    assert_eq!(eval("RETURN localtime({hour: 4294967297, minute: 0}) AS r"), Value::Null);
    assert_eq!(eval("RETURN date({year: 2020, week: 4294967297}) AS r"), Value::Null);
    assert_eq!(eval("RETURN date({year: 2020, month: 2, day: 3}) AS r"), Value::String("2020-02-03".to_string()));
}
