//! C14: a relationship created on a node that was deleted earlier in the same statement.
//!
//! `MATCH (a:A),(b:B) DETACH DELETE a CREATE (a)-[:R]->(b)` used to commit an edge whose source is a
//! tombstoned node: `incoming_neighbors(b)` then returned a relationship that connects a node which does
//! not exist in the snapshot.  The statement has to be refused (or at least leave no such relationship).
use nervusdb::{Db, GraphSnapshot};
use nervusdb_query::{Params, prepare};
use tempfile::tempdir;

fn run(db: &Db, cypher: &str) -> Result<(), String> {
    let snapshot = db.snapshot();
    let mut txn = db.begin_write();
    match prepare(cypher).unwrap().execute_mixed(&snapshot, &mut txn, &Params::new()) {
        Ok(_) => txn.commit().map_err(|e| e.to_string()),
        Err(e) => Err(e.to_string()),
    }
}

/// every relationship a read returns, in either direction, connects two live nodes
fn dangling(db: &Db) -> Vec<String> {
    let snap = db.snapshot();
    let live: std::collections::BTreeSet<u32> = snap.nodes().collect();
    let mut out = Vec::new();
    for &n in &live {
        for e in snap.neighbors(n, None) {
            if !live.contains(&e.dst) {
                out.push(format!("out {e:?}"));
            }
        }
        for e in snap.incoming_neighbors(n, None) {
            if !live.contains(&e.src) {
                out.push(format!("in {e:?}"));
            }
        }
    }
    out
}

#[test]
fn create_on_a_node_deleted_in_the_same_statement() {
    let dir = tempdir().unwrap();
    let db = Db::open(dir.path().join("c14a.ndb")).unwrap();
    run(&db, "CREATE (:A {id: 1}), (:B {id: 2})").unwrap();
    let res = run(&db, "MATCH (a:A), (b:B) DETACH DELETE a CREATE (a)-[:R]->(b)");
    println!("CREATE after DELETE: {res:?}");
    let d = dangling(&db);
    assert!(d.is_empty(), "relationships on a deleted node are visible: {d:?}");
}

#[test]
fn merge_on_a_node_deleted_in_the_same_statement() {
    let dir = tempdir().unwrap();
    let db = Db::open(dir.path().join("c14b.ndb")).unwrap();
    run(&db, "CREATE (:A {id: 1}), (:B {id: 2})").unwrap();
    let res = run(&db, "MATCH (a:A), (b:B) DETACH DELETE a MERGE (a)-[:R]->(b)");
    println!("MERGE after DELETE: {res:?}");
    let d = dangling(&db);
    assert!(d.is_empty(), "relationships on a deleted node are visible: {d:?}");
}

#[test]
fn create_on_a_node_deleted_earlier_in_the_transaction() {
    let dir = tempdir().unwrap();
    let db = Db::open(dir.path().join("c14c.ndb")).unwrap();
    run(&db, "CREATE (:A {id: 1}), (:B {id: 2})").unwrap();
    let snapshot = db.snapshot();
    let mut txn = db.begin_write();
    prepare("MATCH (a:A) DETACH DELETE a").unwrap().execute_mixed(&snapshot, &mut txn, &Params::new()).unwrap();
    let res = prepare("MATCH (a:A), (b:B) CREATE (a)-[:R]->(b)").unwrap().execute_mixed(&snapshot, &mut txn, &Params::new());
    println!("second statement: {:?}", res.as_ref().map(|_| ()).map_err(|e| e.to_string()));
    if res.is_ok() {
        txn.commit().unwrap();
    } else {
        drop(txn);
    }
    let d = dangling(&db);
    assert!(d.is_empty(), "relationships on a deleted node are visible: {d:?}");
}
