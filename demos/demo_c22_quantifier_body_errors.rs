//! C22: a runtime type error inside the body of a list quantifier or of reduce() used to be swallowed.
//! The runtime pre-pass checked the body against the outer row, where the bound variable does not exist,
//! so `toInteger(x)` saw null; the evaluator then turned the real error into null.
use nervusdb::Db;
use nervusdb_query::{Params, prepare};
use tempfile::tempdir;

fn run(db: &Db, cypher: &str) -> Result<usize, String> {
    let snapshot = db.snapshot();
    let rows: Result<Vec<_>, _> = prepare(cypher).map_err(|e| e.to_string())?.execute_streaming(&snapshot, &Params::new()).collect();
    rows.map(|r| r.len()).map_err(|e| e.to_string())
}

#[test]
fn type_errors_inside_quantifier_and_reduce_bodies_fail_the_query() {
    let dir = tempdir().unwrap();
    let db = Db::open(dir.path().join("c22.ndb")).unwrap();
    // the same call outside a binding construct is a runtime error
    assert!(run(&db, "RETURN toInteger([1]) AS v").is_err(), "baseline: toInteger of a list must fail");
    for q in [
        "RETURN all(x IN [[1]] WHERE toInteger(x) > 0) AS v",
        "RETURN any(x IN [[1]] WHERE toInteger(x) > 0) AS v",
        "RETURN none(x IN [[1]] WHERE toInteger(x) > 0) AS v",
        "RETURN single(x IN [[1]] WHERE toInteger(x) > 0) AS v",
        "RETURN reduce(s = 0, x IN [[1]] | s + toInteger(x)) AS v",
    ] {
        let r = run(&db, q);
        assert!(r.is_err(), "`{q}` swallowed the runtime error and returned {r:?}");
    }
    // well-typed bodies still work
    assert_eq!(run(&db, "RETURN all(x IN ['1','2'] WHERE toInteger(x) > 0) AS v"), Ok(1));
    assert_eq!(run(&db, "RETURN reduce(s = 0, x IN ['1','2'] | s + toInteger(x)) AS v"), Ok(1));
}
