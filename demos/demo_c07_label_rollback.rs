use nervusdb::{Db, GraphSnapshot};
use tempfile::tempdir;

/// A label created inside a write transaction that is dropped (rolled back)
/// must not exist afterwards.
#[test]
fn label_created_in_rolled_back_txn_does_not_exist() {
    let dir = tempdir().unwrap();
    let path = dir.path().join("label.ndb");
    let db = Db::open(&path).unwrap();

    assert_eq!(db.snapshot().resolve_label_id("Fresh"), None);

    {
        let mut txn = db.begin_write();
        let _id = txn.get_or_create_label("Fresh").unwrap();
        // dropped without commit => rollback
    }

    let after = db.snapshot().resolve_label_id("Fresh");
    println!("resolve_label_id(\"Fresh\") after rollback = {after:?}");
    assert_eq!(
        after, None,
        "label created by a rolled-back transaction is visible in a new snapshot"
    );
}

/// Same, but checks persistence across reopen (the label must not have been made durable).
#[test]
fn label_created_in_rolled_back_txn_does_not_survive_reopen() {
    let dir = tempdir().unwrap();
    let path = dir.path().join("label2.ndb");
    {
        let db = Db::open(&path).unwrap();
        {
            let mut txn = db.begin_write();
            let _id = txn.get_or_create_label("Fresh").unwrap();
        }
        drop(db);
    }
    let db = Db::open(&path).unwrap();
    let after = db.snapshot().resolve_label_id("Fresh");
    println!("resolve_label_id(\"Fresh\") after rollback + reopen = {after:?}");
    assert_eq!(
        after, None,
        "label created by a rolled-back transaction was made durable"
    );
}
