use nervusdb::Db;
use nervusdb::query::{Params, Row, prepare, query_collect};
use tempfile::tempdir;

fn write(db: &Db, cypher: &str) {
    let q = prepare(cypher).unwrap();
    let mut txn = db.begin_write();
    q.execute_write(&db.snapshot(), &mut txn, &Params::new())
        .unwrap();
    txn.commit().unwrap();
}

fn rows(db: &Db, cypher: &str) -> Vec<Row> {
    query_collect(&db.snapshot(), cypher, &Params::new()).unwrap()
}

#[test]
fn second_label_from_create_survives_compact_and_reopen() {
    let dir = tempdir().unwrap();
    let path = dir.path().join("c04a.ndb");
    let db = Db::open(&path).unwrap();
    write(&db, "CREATE (n:A:B {k: 1})");
    assert_eq!(rows(&db, "MATCH (n:A) RETURN n").len(), 1, "pre: A");
    assert_eq!(rows(&db, "MATCH (n:B) RETURN n").len(), 1, "pre: B");
    db.compact().unwrap();
    assert_eq!(rows(&db, "MATCH (n:B) RETURN n").len(), 1, "after compact: B");
    db.close().unwrap();

    let db = Db::open(&path).unwrap();
    assert_eq!(rows(&db, "MATCH (n:A) RETURN n").len(), 1, "reopen: A");
    assert_eq!(
        rows(&db, "MATCH (n:B) RETURN n").len(),
        1,
        "reopen: second label B lost after compact+close+reopen"
    );
}

#[test]
fn label_added_with_set_survives_compact_and_reopen() {
    let dir = tempdir().unwrap();
    let path = dir.path().join("c04b.ndb");
    let db = Db::open(&path).unwrap();
    write(&db, "CREATE (n:A {k: 1})");
    write(&db, "MATCH (n:A) SET n:B");
    assert_eq!(rows(&db, "MATCH (n:B) RETURN n").len(), 1, "pre: B");
    db.compact().unwrap();
    db.close().unwrap();

    let db = Db::open(&path).unwrap();
    assert_eq!(rows(&db, "MATCH (n:A) RETURN n").len(), 1, "reopen: A");
    assert_eq!(
        rows(&db, "MATCH (n:B) RETURN n").len(),
        1,
        "reopen: SET n:B label lost after compact+close+reopen"
    );
}

#[test]
fn removed_label_stays_removed_after_compact_and_reopen() {
    let dir = tempdir().unwrap();
    let path = dir.path().join("c04c.ndb");
    let db = Db::open(&path).unwrap();
    write(&db, "CREATE (n:A {k: 1})");
    write(&db, "MATCH (n:A) REMOVE n:A");
    assert_eq!(rows(&db, "MATCH (n:A) RETURN n").len(), 0, "pre: A removed");
    assert_eq!(rows(&db, "MATCH (n) RETURN n").len(), 1, "pre: node exists");
    db.compact().unwrap();
    assert_eq!(
        rows(&db, "MATCH (n:A) RETURN n").len(),
        0,
        "after compact: A removed"
    );
    db.close().unwrap();

    let db = Db::open(&path).unwrap();
    assert_eq!(rows(&db, "MATCH (n) RETURN n").len(), 1, "reopen: node exists");
    assert_eq!(
        rows(&db, "MATCH (n:A) RETURN n").len(),
        0,
        "reopen: removed label A came back after compact+close+reopen"
    );
}

/// Control: without compaction the WAL is replayed on reopen and both labels survive.
#[test]
fn control_second_label_survives_reopen_without_compaction() {
    let dir = tempdir().unwrap();
    let path = dir.path().join("c04d.ndb");
    let db = Db::open(&path).unwrap();
    write(&db, "CREATE (n:A:B {k: 1})");
    drop(db);
    let db = Db::open(&path).unwrap();
    assert_eq!(rows(&db, "MATCH (n:A) RETURN n").len(), 1, "reopen: A");
    assert_eq!(rows(&db, "MATCH (n:B) RETURN n").len(), 1, "reopen: B");
}
