//! C22 (known finding C22.7:PatternComprehension:unscoped): a runtime type error inside the projection or the WHERE of a
//! pattern comprehension is swallowed — the pre-pass checks the body against the outer row, where the pattern's variables
//! are unbound.  This test FAILS on the current tree; it documents the finding.
use nervusdb::Db;
use nervusdb_query::{Params, prepare};
use tempfile::tempdir;

fn run(db: &Db, cypher: &str) -> Result<usize, String> {
    let snapshot = db.snapshot();
    let rows: Result<Vec<_>, _> = prepare(cypher).map_err(|e| e.to_string())?.execute_streaming(&snapshot, &Params::new()).collect();
    rows.map(|r| r.len()).map_err(|e| e.to_string())
}

#[test]
fn type_error_inside_a_pattern_comprehension_fails_the_query() {
    let dir = tempdir().unwrap();
    let db = Db::open(dir.path().join("c22p.ndb")).unwrap();
    {
        let snapshot = db.snapshot();
        let mut txn = db.begin_write();
        prepare("CREATE (:A {id: 1})-[:R]->(:B {w: [1, 2]})").unwrap().execute_mixed(&snapshot, &mut txn, &Params::new()).unwrap();
        txn.commit().unwrap();
    }
    // outside the comprehension the same call is a runtime error
    assert!(run(&db, "MATCH (b:B) RETURN toInteger(b.w) AS v").is_err(), "baseline: toInteger of a list must fail");
    let r = run(&db, "MATCH (a:A) RETURN [(a)-[:R]->(b) | toInteger(b.w)] AS v");
    assert!(r.is_err(), "the runtime error inside the pattern comprehension was swallowed: {r:?}");
}
