//! Regression check c05_empty_segment: a compaction that yields a segment without any
//! relationships must not break incoming traversals.

use nervusdb::query::{Params, Value, prepare};
use nervusdb::{Db, GraphSnapshot, PropertyValue};

#[test]
fn incoming_traversal_over_empty_segment_returns_zero() {
    let dir = tempfile::tempdir().unwrap();
    let db = Db::open(dir.path().join("c05.ndb")).unwrap();
    let mut ids = Vec::new();
    {
        let mut txn = db.begin_write();
        let label = txn.get_or_create_label("Person").unwrap();
        for i in 0..5u64 {
            let n = txn.create_node(10 + i, label).unwrap();
            txn.set_node_property(n, "v".to_string(), PropertyValue::Int(i as i64))
                .unwrap();
            ids.push(n);
        }
        txn.commit().unwrap();
    }
    db.compact().unwrap();

    let snap = db.snapshot();

    // storage-level API
    for &n in &ids {
        assert_eq!(snap.incoming_neighbors(n, None).count(), 0);
        assert_eq!(snap.neighbors(n, None).count(), 0);
    }

    // query-level
    let rows = prepare("MATCH (n)<-[r]-(m) RETURN count(r) AS c")
        .unwrap()
        .execute_streaming(&snap, &Params::new())
        .collect::<Result<Vec<_>, _>>()
        .unwrap();
    println!("rows = {rows:?}");
    assert_eq!(rows.len(), 1);
    assert!(
        matches!(rows[0].get("c"), Some(Value::Int(0))),
        "count(r) = {:?}",
        rows[0].get("c")
    );

    // properties still readable after that compaction
    assert_eq!(snap.node_property(ids[3], "v"), Some(PropertyValue::Int(3)));
}
