//! Suspicion c18_i2e_overflow: the node table (i2e) addresses page `start + index/512`
//! directly instead of allocating from the pager, so node #513+ lands in a page that
//! was handed out to another structure (segment / property tree / blobs) in between.

use nervusdb::{Db, GraphSnapshot, PropertyValue};

const FIRST: u64 = 100;
const MORE: u64 = 600;

#[test]
fn node_table_growth_does_not_corrupt_other_structures() {
    let dir = tempfile::tempdir().unwrap();
    let path = dir.path().join("c18.ndb");

    let rel;
    {
        let db = Db::open(&path).unwrap();

        // Phase 1: 100 nodes with properties and a ring of edges, then compact so that
        // CSR segment / property B-tree / blob pages are allocated right after the
        // first node-table page.
        {
            let mut txn = db.begin_write();
            let label = txn.get_or_create_label("Person").unwrap();
            rel = txn.get_or_create_rel_type("NEXT").unwrap();
            let mut ids = Vec::new();
            for i in 0..FIRST {
                let iid = txn.create_node(1000 + i, label).unwrap();
                assert_eq!(iid as u64, i, "internal ids are dense");
                txn.set_node_property(iid, "v".to_string(), PropertyValue::Int(i as i64))
                    .unwrap();
                txn.set_node_property(
                    iid,
                    "name".to_string(),
                    PropertyValue::String(format!("node-{i}")),
                )
                .unwrap();
                ids.push(iid);
            }
            for i in 0..FIRST as usize {
                txn.create_edge(ids[i], rel, ids[(i + 1) % FIRST as usize]);
            }
            txn.commit().unwrap();
        }
        db.compact().unwrap();

        // Phase 2: 600 more nodes over several commits (crosses the 512-record page boundary).
        for batch in 0..6u64 {
            let mut txn = db.begin_write();
            let label = txn.get_or_create_label("Person").unwrap();
            for j in 0..(MORE / 6) {
                let i = FIRST + batch * (MORE / 6) + j;
                let iid = txn.create_node(1000 + i, label).unwrap();
                assert_eq!(iid as u64, i, "internal ids are dense");
                txn.set_node_property(iid, "v".to_string(), PropertyValue::Int(i as i64))
                    .unwrap();
            }
            txn.commit().unwrap();
        }

        db.close().unwrap();
    }

    // Reopen and verify everything.
    let db = match Db::open(&path) {
        Ok(db) => db,
        Err(e) => panic!("REOPEN FAILED after creating {} nodes: {e:?}", FIRST + MORE),
    };
    let snap = db.snapshot();

    let mut problems: Vec<String> = Vec::new();
    let total = FIRST + MORE;
    let seen = snap.nodes().count() as u64;
    if seen != total {
        problems.push(format!("node count: expected {total}, got {seen}"));
    }
    for i in 0..total {
        let iid = i as u32;
        let ext = snap.resolve_external(iid);
        if ext != Some(1000 + i) {
            problems.push(format!("node {i}: external id {ext:?}, expected {}", 1000 + i));
        }
        let v = snap.node_property(iid, "v");
        if v != Some(PropertyValue::Int(i as i64)) {
            problems.push(format!("node {i}: property v = {v:?}, expected Int({i})"));
        }
        if i < FIRST {
            let name = snap.node_property(iid, "name");
            if name != Some(PropertyValue::String(format!("node-{i}"))) {
                problems.push(format!("node {i}: property name = {name:?}"));
            }
            let out = std::panic::catch_unwind(std::panic::AssertUnwindSafe(|| {
                snap.neighbors(iid, Some(rel)).map(|e| e.dst).collect::<Vec<u32>>()
            }));
            let want = vec![((i + 1) % FIRST) as u32];
            match out {
                Ok(out) if out == want => {}
                Ok(out) => {
                    problems.push(format!("node {i}: neighbors {out:?}, expected {want:?}"))
                }
                Err(_) => problems.push(format!("node {i}: neighbors() PANICKED inside storage")),
            }
        }
    }

    for p in problems.iter().take(15) {
        println!("PROBLEM: {p}");
    }
    assert!(
        problems.is_empty(),
        "{} corruption problems after reopen (first: {})",
        problems.len(),
        problems[0]
    );
}
