//! C26: equal keys that end up on both sides of a leaf split.
//!
//! `BTree::insert` puts a new entry in front of the entries with an equal key, so the newest
//! entry is the first one in key order and a lookup (`cursor_lower_bound`) has to return it.
use nervusdb_storage::index::btree::BTree;
use nervusdb_storage::pager::Pager;

fn key(i: u32) -> Vec<u8> {
    let mut k = vec![b'k'; 96];
    k.extend_from_slice(&i.to_be_bytes());
    k
}

fn scan(tree: &BTree, pager: &Pager) -> Vec<(Vec<u8>, u64)> {
    let mut out = Vec::new();
    let mut c = tree.cursor_lower_bound(pager, &[]).unwrap();
    while c.is_valid().unwrap() {
        out.push((c.key().unwrap(), c.payload().unwrap()));
        if !c.advance().unwrap() {
            break;
        }
    }
    out
}

/// Builds a tree where the two entries of key 1000 straddle the first leaf split:
/// `fill` smaller and `fill` larger keys around them.
fn build(dir: &tempfile::TempDir, fill: u32) -> (Pager, BTree) {
    let mut pager = Pager::open(dir.path().join(format!("t{fill}.ndb"))).unwrap();
    let mut tree = BTree::create(&mut pager).unwrap();
    tree.insert(&mut pager, &key(1000), 1).unwrap(); // older
    tree.insert(&mut pager, &key(1000), 2).unwrap(); // newer
    for i in 0..fill {
        tree.insert(&mut pager, &key(i), 100 + i as u64).unwrap();
        tree.insert(&mut pager, &key(2000 + i), 200 + i as u64).unwrap();
    }
    (pager, tree)
}

#[test]
fn lookup_returns_newest_entry_of_a_key_split_across_leaves() {
    let dir = tempfile::tempdir().unwrap();
    for fill in 1..120 {
        let (pager, tree) = build(&dir, fill);
        // the scan is the ground truth: entries in key order, newest first among equals
        let all = scan(&tree, &pager);
        let first = all.iter().find(|(k, _)| *k == key(1000)).unwrap().1;
        assert_eq!(first, 2, "fill={fill}: scan order");
        let mut c = tree.cursor_lower_bound(&pager, &key(1000)).unwrap();
        assert!(c.is_valid().unwrap());
        assert_eq!(c.key().unwrap(), key(1000));
        assert_eq!(
            c.payload().unwrap(),
            2,
            "fill={fill}: lookup returned the older of two entries with the same key"
        );
    }
}

#[test]
fn delete_removes_the_stored_pair_among_equal_keys() {
    let dir = tempfile::tempdir().unwrap();
    let mut pager = Pager::open(dir.path().join("d.ndb")).unwrap();
    let mut tree = BTree::create(&mut pager).unwrap();
    // three entries with one key; payloads arrive in increasing order so the leaf holds 3,2,1
    for p in 1..=3u64 {
        tree.insert(&mut pager, &key(7), p).unwrap();
    }
    for p in 1..=3u64 {
        assert!(
            tree.delete(&mut pager, &key(7), p).unwrap(),
            "stored pair (key 7, payload {p}) was not found by delete"
        );
    }
    assert!(scan(&tree, &pager).is_empty());
}

#[test]
fn delete_finds_a_pair_left_of_the_separator() {
    let dir = tempfile::tempdir().unwrap();
    for fill in 1..120 {
        let (mut pager, mut tree) = build(&dir, fill);
        assert!(
            tree.delete(&mut pager, &key(1000), 2).unwrap(),
            "fill={fill}: pair (1000, 2) is stored but delete did not find it"
        );
        let left: Vec<u64> = scan(&tree, &pager)
            .into_iter()
            .filter(|(k, _)| *k == key(1000))
            .map(|(_, v)| v)
            .collect();
        assert_eq!(left, vec![1], "fill={fill}");
    }
}

/// `delete` never merges leaves, so an emptied leaf stays in the sibling chain; a scan has to step over it.
#[test]
fn scan_steps_over_a_leaf_emptied_by_deletes() {
    let dir = tempfile::tempdir().unwrap();
    let mut pager = Pager::open(dir.path().join("e.ndb")).unwrap();
    let mut tree = BTree::create(&mut pager).unwrap();
    let big = |i: u32| {
        let mut k = i.to_be_bytes().to_vec();
        k.resize(1500, b'x');
        k
    };
    for i in 0..40u32 {
        tree.insert(&mut pager, &big(i), i as u64).unwrap();
    }
    // delete a contiguous range that covers at least one whole leaf (5 entries of 1.5 KB per 8 KB page)
    for i in 10..25u32 {
        assert!(tree.delete(&mut pager, &big(i), i as u64).unwrap());
    }
    let got: Vec<u64> = scan(&tree, &pager).into_iter().map(|(_, v)| v).collect();
    let want: Vec<u64> = (0..10).chain(25..40).collect();
    assert_eq!(got, want, "entries stored after the emptied leaf are missing from the scan");
}
