use std::ffi::{CStr, CString};
use std::os::raw::c_char;
use std::ptr;

use nervusdb::{
    NDB_OK, ndb_begin_write, ndb_close, ndb_db_t, ndb_last_error_message, ndb_open, ndb_query,
    ndb_result_free, ndb_result_t, ndb_result_to_json, ndb_string_free, ndb_txn_commit,
    ndb_txn_query, ndb_txn_t,
};

fn open(name: &str, dir: &tempfile::TempDir) -> *mut ndb_db_t {
    let p = CString::new(dir.path().join(name).to_string_lossy().to_string()).unwrap();
    let mut db: *mut ndb_db_t = ptr::null_mut();
    assert_eq!(ndb_open(p.as_ptr(), &mut db), NDB_OK);
    db
}

fn query_json(db: *mut ndb_db_t, cypher: &str) -> String {
    let q = CString::new(cypher).unwrap();
    let mut result: *mut ndb_result_t = ptr::null_mut();
    assert_eq!(ndb_query(db, q.as_ptr(), ptr::null(), &mut result), NDB_OK);
    let mut json_ptr: *mut c_char = ptr::null_mut();
    assert_eq!(ndb_result_to_json(result, &mut json_ptr), NDB_OK);
    let json = unsafe { CStr::from_ptr(json_ptr) }
        .to_str()
        .unwrap()
        .to_string();
    ndb_string_free(json_ptr);
    ndb_result_free(result);
    json
}

fn last_error() -> String {
    let mut buf = vec![0 as c_char; 512];
    ndb_last_error_message(buf.as_mut_ptr(), buf.len());
    unsafe { CStr::from_ptr(buf.as_ptr()) }
        .to_str()
        .unwrap()
        .to_string()
}

/// A statement that fails inside an explicit transaction must have no effect:
/// committing the transaction afterwards must not persist its partial writes.
#[test]
fn failed_statement_in_txn_leaves_no_effect_after_commit() {
    let dir = tempfile::tempdir().unwrap();
    let db = open("partial", &dir);

    let mut txn: *mut ndb_txn_t = ptr::null_mut();
    assert_eq!(ndb_begin_write(db, &mut txn), NDB_OK);

    // rows 1 and 2 succeed, row 3 raises a runtime type error (toBoolean(1)).
    let stmt =
        CString::new("UNWIND ['true', 'false', 1] AS x CREATE (:T {flag: toBoolean(x)})").unwrap();
    let rc = ndb_txn_query(txn, stmt.as_ptr(), ptr::null());
    println!("ndb_txn_query rc = {rc}, error = {:?}", last_error());
    assert_ne!(rc, NDB_OK, "statement was expected to fail at runtime");

    assert_eq!(ndb_txn_commit(txn), NDB_OK);

    let json = query_json(db, "MATCH (n:T) RETURN count(n) AS c");
    println!("after commit: {json}");
    assert!(
        json.contains("\"c\":0"),
        "failed statement left partial writes that were committed: {json}"
    );

    assert_eq!(ndb_close(db), NDB_OK);
}
