// C16 known finding (C16.9): the number of stacked clauses / UNION branches / patterns / hops is bounded only by the query length,
// and plan compilation / execution recurse once per unit. Place in /repo/nervusdb/tests/ and run e.g.
//   W=with N=3000 cargo test --offline -p nervusdb --test demo_c16_clause_chain_read -- --nocapture
// Expected today: the test process aborts with "has overflowed its stack" (SIGABRT) — in a debug build already at N=120 for W=sets,
// N=800 for W=union, N=500 for W=match; in a release build at N=1000 (sets) / N=3000 (with, match, union, unwind, create1).
use nervusdb::Db;
use nervusdb_query::{Params, Result, prepare};
use tempfile::tempdir;
fn run(q: &str) -> String {
    let dir = tempdir().unwrap();
    let db = Db::open(dir.path().join("g")).unwrap();
    let snapshot = db.snapshot();
    let r = prepare(q).and_then(|p| p.execute_streaming(&snapshot, &Params::new()).collect::<Result<Vec<_>>>());
    format!("{:?}", r.map(|v| v.len()).map_err(|e| e.to_string().chars().take(80).collect::<String>()))
}
#[test]
fn probe() {
    let which = std::env::var("W").unwrap_or_default();
    let n: usize = std::env::var("N").ok().and_then(|v| v.parse().ok()).unwrap_or(1000);
    let q = match which.as_str() {
        "union" => { let mut q = String::from("RETURN 1 AS a"); for _ in 0..n { q.push_str(" UNION ALL RETURN 1 AS a"); } q }
        "with" => { let mut q = String::from("WITH 1 AS a"); for _ in 0..n { q.push_str(" WITH a AS a"); } q.push_str(" RETURN a"); q }
        "match" => { let mut q = String::from("MATCH (a)"); for i in 0..n { q.push_str(&format!("-[:R]->(b{})", i)); } q.push_str(" RETURN a"); q }
        "unwind" => { let mut q = String::new(); for i in 0..n { q.push_str(&format!("UNWIND [1] AS x{} ", i)); } q.push_str(" RETURN 1 AS a"); q }
        "create" => { let mut q = String::new(); for i in 0..n { q.push_str(&format!("CREATE (x{}) ", i)); } q }
        "optmatch" => { let mut q = String::from("MATCH (a)"); for i in 0..n { q.push_str(&format!(" OPTIONAL MATCH (a)-->(b{})", i)); } q.push_str(" RETURN a"); q }
        "matches" => { let mut q = String::new(); for i in 0..n { q.push_str(&format!("MATCH (b{}) ", i)); } q.push_str(" RETURN 1 AS a"); q }
        _ => String::from("RETURN 1")
    };
    let t = std::time::Instant::now();
    let r = run(&q);
    println!("{} n={} -> {} in {:?}", which, n, r, t.elapsed());
}
