#!/bin/sh
# Runs the repository's pinned baseline suite (the fallback form of /root/.vp/BASELINE.json's command: the nextest
# form cannot list the custom tck_harness target offline) and prints one summary line.
cd /repo || exit 2
[ -f /w/out/rust_env.sh ] && . /w/out/rust_env.sh
export CARGO_NET_OFFLINE=true
cargo test --workspace --no-fail-fast --offline > /tmp/nervusdb_tests.log 2>&1
python3 - <<'PY'
import re
p=f=0
failed=[]
for l in open('/tmp/nervusdb_tests.log'):
    m=re.match(r'test result: \w+\. (\d+) passed; (\d+) failed', l)
    if m: p+=int(m.group(1)); f+=int(m.group(2))
    m=re.match(r'test (\S+) \.\.\. FAILED', l)
    if m: failed.append(m.group(1))
print("passed=%d failed=%d %s" % (p,f,failed))
PY
