"""Fact loading and the generic MIR utilities every rule uses.

A Body is one MIR body (fn / assoc fn / closure) as dumped by nvs-facts.
Blocks are dicts {"s": [stmts], "t": terminator, "c": is_cleanup}.

Statement forms
  ["a", place, rvalue, line, expn]         assignment
  ["sd", local]                            StorageDead
  ["setd", place, variant]                 SetDiscriminant
Place      [local, [proj...]]    proj: "*" | ["f", idx, name, adt] | ["i", local] | ["ci",..] | ["ss",..] | ["d", name, idx] | "o"
Operand    ["c", place] | ["m", place] | ["k", {ty, v, d, fn, named}] | ["o"]
Rvalue     ["use", op] | ["ref", mut, place] | ["rawptr", place] | ["cast", kind, op, from, to]
           | ["bin", op, a, b, ty] | ["un", op, a, ty] | ["discr", place]
           | ["agg", kind, name, variant, [ops], [field names]] | ["repeat", op, n] | ["other", str]
Terminator ["goto", bb] | ["switch", op, [[val, bb]..], otherwise, ty, line] | ["ret"] | ["unreach"] | ["resume"] | ["abort"]
           | ["drop", place, bb, unwind, line]
           | ["call", callee, [args], dest place, target|None, unwind|None, line, expn]
           | ["assert", cond, expected, kind, [ops], bb, unwind, line]
"""
import json
import os
import re

_CRATE_RE = re.compile(r"(?<![A-Za-z0-9_])crate::")
# lifetime-only generic lists (`WriteTxn::<'a>::commit`, `WriteTxn<'_>`) are noise in ids
_LIFETIME_RE = re.compile(r"(?:::)?<'[a-z_0-9]+(?:/#\d+)?(?:, ?'[a-z_0-9]+(?:/#\d+)?)*>")

PKG_ALIAS = {
    ("nervusdb-api", "nervusdb_api"): "nervusdb_api",
    ("nervusdb-storage", "nervusdb_storage"): "nervusdb_storage",
    ("nervusdb-query", "nervusdb_query"): "nervusdb_query",
    ("nervusdb", "nervusdb"): "nervusdb",
    ("nervusdb-capi", "nervusdb"): "nervusdb_capi",
    ("nervusdb-cli", "nervusdb"): "nervusdb_cli",
    ("nervusdb-pyo3", "nervusdb"): "nervusdb_pyo3",
}


class Call:
    __slots__ = ("body", "bb", "callee", "args", "dest", "target", "unwind", "line", "expn", "ordinal")

    def __init__(self, body, bb, t):
        self.body = body
        self.bb = bb
        self.callee = t[1]
        self.args = t[2]
        self.dest = t[3]
        self.target = t[4]
        self.unwind = t[5]
        self.line = t[6]
        self.expn = t[7]
        self.ordinal = 0

    @property
    def name(self):
        """Resolved callee def path, or the declared one when unresolved; '' for indirect calls."""
        c = self.callee
        return c.get("r") or c.get("d") or ""

    @property
    def declared(self):
        return self.callee.get("d") or ""

    @property
    def resolved(self):
        c = self.callee
        return bool(c.get("r")) and not c.get("decl_only") and c.get("rk") != "virtual"

    def loc(self):
        return "%s:%d" % (self.body.file, self.line)

    def __repr__(self):
        return "<call %s @%s bb%d>" % (self.name, self.loc(), self.bb)


class Body:
    def __init__(self, rec, pkg, alias):
        self.id = rec["id"]
        self.pkg = pkg
        self.alias = alias
        self.kind = rec["kind"]
        self.file = rec["file"]
        self.line = rec["line"]
        self.end_line = rec["end_line"]
        self.root = rec.get("root")  # for closures: enclosing fn
        self.parent = rec.get("parent")
        self.vis = rec.get("vis", "")
        self.no_mangle = rec.get("no_mangle", False)
        self.self_ty = rec.get("self_ty")
        self.impl_trait = rec.get("impl_trait")
        self.argc = rec["argc"]
        self.locals = rec["locals"]
        self.dbg = rec.get("dbg", [])
        self.blocks = rec["blocks"]
        self._calls = None
        self._succ = None
        self._pred = None
        self._idom = None
        self._ipdom = None
        self._defs = None
        self._uses = None

    # ------------------------------------------------------------ basics
    @property
    def is_pub(self):
        return self.vis.startswith("Public")

    def local_ty(self, l):
        return self.locals[l][0]

    def local_name(self, l):
        return self.locals[l][1]

    def term(self, b):
        return self.blocks[b]["t"]

    def is_cleanup(self, b):
        return self.blocks[b]["c"]

    def calls(self):
        if self._calls is None:
            out = []
            counts = {}
            for i, blk in enumerate(self.blocks):
                t = blk["t"]
                if t[0] == "call" and not blk["c"]:
                    c = Call(self, i, t)
                    out.append(c)
            # ordinal among same-name calls, in source-line then block order (stable key component)
            for c in sorted(out, key=lambda c: (c.line, c.bb)):
                n = counts.get(c.name, 0)
                c.ordinal = n
                counts[c.name] = n + 1
            self._calls = out
        return self._calls

    def calls_named(self, *names):
        return [c for c in self.calls() if c.name in names or c.declared in names]

    def call_at(self, bb):
        t = self.blocks[bb]["t"]
        if t[0] == "call":
            for c in self.calls():
                if c.bb == bb:
                    return c
        return None

    # ------------------------------------------------------------ CFG (normal edges only)
    def succs(self, b):
        if self._succ is None:
            self._build_cfg()
        return self._succ[b]

    def preds(self, b):
        if self._pred is None:
            self._build_cfg()
        return self._pred[b]

    def _build_cfg(self):
        n = len(self.blocks)
        succ = [[] for _ in range(n)]
        for i, blk in enumerate(self.blocks):
            t = blk["t"]
            k = t[0]
            if k == "goto":
                succ[i] = [t[1]]
            elif k == "switch":
                s = []
                for _, tb in t[2]:
                    if tb not in s:
                        s.append(tb)
                if t[3] not in s:
                    s.append(t[3])
                succ[i] = s
            elif k == "drop":
                succ[i] = [t[2]]
            elif k == "call":
                succ[i] = [t[4]] if t[4] is not None else []
            elif k == "assert":
                succ[i] = [t[5]]
            else:
                succ[i] = []
        pred = [[] for _ in range(n)]
        for i, ss in enumerate(succ):
            for s in ss:
                pred[s].append(i)
        self._succ = succ
        self._pred = pred

    def return_blocks(self):
        return [i for i, b in enumerate(self.blocks) if b["t"][0] == "ret" and not b["c"]]

    def reachable(self, starts, avoid=(), edge_ok=None):
        """Forward reachability over normal edges from `starts` (blocks), never entering `avoid` blocks.
        The start blocks themselves are included (even if in avoid)."""
        avoid = set(avoid)
        seen = set(starts)
        work = list(starts)
        while work:
            b = work.pop()
            for s in self.succs(b):
                if s in seen or s in avoid:
                    continue
                if edge_ok is not None and not edge_ok(b, s):
                    continue
                seen.add(s)
                work.append(s)
        return seen

    def reachable_back(self, starts, avoid=()):
        avoid = set(avoid)
        seen = set(starts)
        work = list(starts)
        while work:
            b = work.pop()
            for s in self.preds(b):
                if s in seen or s in avoid:
                    continue
                seen.add(s)
                work.append(s)
        return seen

    # ------------------------------------------------------------ dominators
    def _rpo(self, succs, entry, n):
        seen = [False] * n
        order = []
        stack = [(entry, iter(succs(entry)))]
        seen[entry] = True
        while stack:
            node, it = stack[-1]
            adv = False
            for s in it:
                if not seen[s]:
                    seen[s] = True
                    stack.append((s, iter(succs(s))))
                    adv = True
                    break
            if not adv:
                order.append(node)
                stack.pop()
        order.reverse()
        return order

    def _dom(self, succs, preds, entry, n):
        rpo = self._rpo(succs, entry, n)
        idx = {b: i for i, b in enumerate(rpo)}
        idom = {entry: entry}
        changed = True
        while changed:
            changed = False
            for b in rpo[1:]:
                new = None
                for p in preds(b):
                    if p in idom:
                        if new is None:
                            new = p
                        else:
                            f1, f2 = p, new
                            while f1 != f2:
                                while idx[f1] > idx[f2]:
                                    f1 = idom[f1]
                                while idx[f2] > idx[f1]:
                                    f2 = idom[f2]
                            new = f1
                if new is not None and idom.get(b) != new:
                    idom[b] = new
                    changed = True
        return idom

    def idom(self):
        if self._idom is None:
            n = len(self.blocks)
            self._idom = self._dom(self.succs, self.preds, 0, n)
        return self._idom

    def dominates(self, a, b):
        """block a dominates block b (reflexive). Unreachable b -> False."""
        idom = self.idom()
        if b not in idom:
            return False
        while True:
            if a == b:
                return True
            p = idom[b]
            if p == b:
                return False
            b = p

    def ipdom(self):
        """post-dominators w.r.t. a virtual exit joined from every return block."""
        if self._ipdom is None:
            n = len(self.blocks)
            exit_ = n
            rets = self.return_blocks()

            def rsuccs(b):
                if b == exit_:
                    return rets
                return self.preds(b)

            def rpreds(b):
                if b in rets_set:
                    return list(self.succs(b)) + [exit_]
                if b == exit_:
                    return []
                return self.succs(b)

            rets_set = set(rets)
            self._ipdom = self._dom(rsuccs, rpreds, exit_, n + 1)
        return self._ipdom

    def postdominates(self, a, b):
        """a post-dominates b over paths that reach a return."""
        ip = self.ipdom()
        if b not in ip:
            return False
        exit_ = len(self.blocks)
        while True:
            if a == b:
                return True
            p = ip[b]
            if p == b or p == exit_:
                return a == p
            b = p

    # ------------------------------------------------------------ defs / uses of locals
    def defs(self):
        """local -> list of (bb, idx|-1, kind, payload) where kind in {'assign','call'}; whole-local defs only."""
        if self._defs is None:
            d = {}
            for bi, blk in enumerate(self.blocks):
                for si, st in enumerate(blk["s"]):
                    if st[0] == "a":
                        pl = st[1]
                        d.setdefault(pl[0], []).append((bi, si, "assign" if not pl[1] else "passign", st))
                t = blk["t"]
                if t[0] == "call":
                    pl = t[3]
                    d.setdefault(pl[0], []).append((bi, -1, "call" if not pl[1] else "pcall", t))
            self._defs = d
        return self._defs

    def single_def(self, local):
        ds = [x for x in self.defs().get(local, []) if x[2] in ("assign", "call")]
        if len(ds) == 1 and len(self.defs().get(local, [])) == 1:
            return ds[0]
        return None

    def iter_operands(self):
        """yield (bb, si|-1, operand) for every operand read in the body"""
        for bi, blk in enumerate(self.blocks):
            for si, st in enumerate(blk["s"]):
                if st[0] == "a":
                    for op in rvalue_operands(st[2]):
                        yield bi, si, op
            t = blk["t"]
            if t[0] == "call":
                for a in t[2]:
                    yield bi, -1, a
                if "ptr" in t[1]:
                    yield bi, -1, t[1]["ptr"]
            elif t[0] == "switch":
                yield bi, -1, t[1]
            elif t[0] == "assert":
                yield bi, -1, t[1]

    def uses(self):
        """local -> list of (bb, si, how) for every read/mention of the local (operand, ref, place base, drop)."""
        if self._uses is None:
            u = {}

            def add(l, bi, si, how):
                u.setdefault(l, []).append((bi, si, how))

            def place_uses(pl, bi, si, how):
                add(pl[0], bi, si, how)
                for pr in pl[1]:
                    if isinstance(pr, list) and pr[0] == "i":
                        add(pr[1], bi, si, "index")

            for bi, blk in enumerate(self.blocks):
                for si, st in enumerate(blk["s"]):
                    if st[0] == "a":
                        rv = st[2]
                        k = rv[0]
                        if k in ("ref", "rawptr"):
                            place_uses(rv[2] if k == "ref" else rv[1], bi, si, "ref")
                        elif k == "discr":
                            place_uses(rv[1], bi, si, "discr")
                        else:
                            for op in rvalue_operands(rv):
                                if op[0] in ("c", "m"):
                                    place_uses(op[1], bi, si, "move" if op[0] == "m" else "copy")
                        # writing through a projection of a local also "uses" the base
                        if st[1][1]:
                            place_uses(st[1], bi, si, "wbase")
                    elif st[0] == "setd":
                        place_uses(st[1], bi, si, "wbase")
                t = blk["t"]
                if t[0] == "call":
                    for a in t[2]:
                        if a[0] in ("c", "m"):
                            place_uses(a[1], bi, -1, "arg")
                    if "ptr" in t[1] and t[1]["ptr"][0] in ("c", "m"):
                        place_uses(t[1]["ptr"][1], bi, -1, "callee")
                    if t[3][1]:
                        place_uses(t[3], bi, -1, "wbase")
                elif t[0] == "switch":
                    if t[1][0] in ("c", "m"):
                        place_uses(t[1][1], bi, -1, "switch")
                elif t[0] == "assert":
                    if t[1][0] in ("c", "m"):
                        place_uses(t[1][1], bi, -1, "assert")
                elif t[0] == "drop":
                    place_uses(t[1], bi, -1, "drop")
            self._uses = u
        return self._uses

    def origin(self, local, depth=10):
        """Follow copies / moves / (re)borrows of a local back to what defines its value.
        Returns one of
          ("agg", rvalue, bb)        built by an aggregate
          ("call", Call)             result of a call
          ("arg", n)                 n-th argument (1-based local index) of the body
          ("place", place, bb)       read from a projected place (field / deref of something not traceable)
          ("const", k)               constant operand
          ("rv", rvalue, bb)         other rvalue
          None                       several defs / unknown
        """
        cur = local
        for _ in range(depth):
            if 1 <= cur <= self.argc:
                ds = self.defs().get(cur, [])
                if not ds:
                    return ("arg", cur)
            ds = self.defs().get(cur, [])
            whole = [d for d in ds if d[2] in ("assign", "call")]
            if len(whole) != 1:
                return None
            bi, si, kind, st = whole[0]
            if kind == "call":
                return ("call", self.call_at(bi))
            rv = st[2]
            k = rv[0]
            if k == "use":
                op = rv[1]
                if op[0] == "k":
                    return ("const", op[1])
                pl = op[1]
                if all(p == "*" for p in pl[1]):
                    cur = pl[0]
                    continue
                return ("place", pl, bi)
            if k in ("ref", "rawptr"):
                pl = rv[2] if k == "ref" else rv[1]
                if all(p == "*" for p in pl[1]):
                    cur = pl[0]
                    continue
                return ("place", pl, bi)
            if k == "agg":
                return ("agg", rv, bi)
            if k == "cast" and rv[1].startswith(("Coerce", "PtrToPtr", "Transmute")):
                l = op_local(rv[2])
                if l is not None:
                    cur = l
                    continue
            return ("rv", rv, bi)
        return None

    def line_of_block(self, b):
        t = self.blocks[b]["t"]
        if t[0] == "call":
            return t[6]
        if t[0] == "switch":
            return t[5]
        if t[0] == "drop":
            return t[4]
        if t[0] == "assert":
            return t[7]
        for st in self.blocks[b]["s"]:
            if st[0] == "a":
                return st[3]
        return 0

    def __repr__(self):
        return "<Body %s>" % self.id


def rvalue_operands(rv):
    k = rv[0]
    if k == "use":
        return [rv[1]]
    if k == "cast":
        return [rv[2]]
    if k == "bin":
        return [rv[2], rv[3]]
    if k == "un":
        return [rv[2]]
    if k == "agg":
        return rv[4]
    if k == "repeat":
        return [rv[1]]
    return []


def op_local(op):
    """local of a plain `copy/move _n` operand (no projection), else None"""
    if op[0] in ("c", "m") and not op[1][1]:
        return op[1][0]
    return None


def op_place(op):
    if op[0] in ("c", "m"):
        return op[1]
    return None


def op_const(op):
    if op[0] == "k":
        return op[1]
    return None


def place_fields(pl):
    """list of (field name, adt) along the projection"""
    return [(p[2], p[3]) for p in pl[1] if isinstance(p, list) and p[0] == "f"]


class Facts:
    def __init__(self, facts_dir):
        self.dir = facts_dir
        self.bodies = {}
        self.adts = {}
        self.consts = {}
        self.impls = []
        self.traits = {}
        self.crates = []
        self._callers = None
        self._callees_cache = {}
        self._closures_of = None
        self._load()

    def _load(self):
        for f in sorted(os.listdir(self.dir)):
            if not f.endswith(".jsonl"):
                continue
            parts = f.split("--")
            pkg, krate = parts[0], parts[1]
            alias = PKG_ALIAS.get((pkg, krate), krate)
            nb = 0
            with open(os.path.join(self.dir, f)) as fh:
                for line in fh:
                    if "crate::" in line:
                        line = _CRATE_RE.sub(alias + "::", line)
                    if "<'" in line:
                        line = _LIFETIME_RE.sub("", line)
                    rec = json.loads(line)
                    k = rec["rec"]
                    if k == "body":
                        b = Body(rec, pkg, alias)
                        self.bodies[b.id] = b
                        nb += 1
                    elif k == "adt":
                        self.adts[rec["id"]] = rec
                    elif k == "const":
                        self.consts[rec["id"]] = rec
                    elif k == "impl":
                        rec["pkg"] = pkg
                        self.impls.append(rec)
                    elif k == "trait":
                        self.traits[rec["id"]] = rec
                    elif k == "crate":
                        rec["alias"] = alias
                        self.crates.append(rec)
                    elif k == "end":
                        assert rec["bodies"] == nb, "truncated fact file %s" % f
        # closed-world trait method table: (trait, method) -> [impl fn ids]
        self.trait_impls = {}
        for im in self.impls:
            if im["trait"]:
                for name, did in im["items"]:
                    self.trait_impls.setdefault((im["trait"], name), []).append(did)
        # capi/facade name ambiguity: references `nervusdb::X` from dependants of the C API
        self._fix_ambiguous()

    def _fix_ambiguous(self):
        capi_ids = {i for i, b in self.bodies.items() if b.alias == "nervusdb_capi"}
        clash = [i for i in capi_ids if ("nervusdb::" + i.split("::", 1)[1]) in self.bodies] if capi_ids else []
        self.ambiguous_ids = clash
        for b in self.bodies.values():
            if b.alias != "nervusdb_pyo3":
                continue
            for c in b.calls():
                for key in ("r", "d"):
                    v = c.callee.get(key)
                    if v and v.startswith("nervusdb::") and v not in self.bodies:
                        alt = "nervusdb_capi::" + v[len("nervusdb::"):]
                        if alt in self.bodies:
                            c.callee[key] = alt

    # ------------------------------------------------------------ lookup
    def body(self, id_):
        return self.bodies.get(id_)

    def find(self, pattern):
        rx = re.compile(pattern)
        return [b for i, b in sorted(self.bodies.items()) if rx.search(i)]

    def impl_method(self, trait, self_ty, name):
        """id of method `name` in `impl trait for self_ty` (None when absent)"""
        for im in self.impls:
            if im["trait"] == trait and im["self"] == self_ty:
                for n, did in im["items"]:
                    if n == name:
                        return did
        return None

    def closures_of(self, fn_id):
        if self._closures_of is None:
            m = {}
            for b in self.bodies.values():
                if b.kind == "closure" and b.root:
                    m.setdefault(b.root, []).append(b)
            self._closures_of = m
        return self._closures_of.get(fn_id, [])

    # ------------------------------------------------------------ call graph
    def call_targets(self, call):
        """body ids a call may invoke (closed world for unresolved trait calls)."""
        c = call.callee
        if "ptr" in c:
            return []
        r = c.get("r")
        if r and not c.get("decl_only") and c.get("rk") != "virtual":
            return [r]
        tr = c.get("trait")
        d = c.get("d") or ""
        out = []
        if tr:
            m = d.rsplit("::", 1)[-1]
            out = list(self.trait_impls.get((tr, m), []))
            # default method body
            if d in self.bodies:
                out.append(d)
        if r and r not in out:
            out.append(r)
        return out

    def callees(self, body_id, with_closures=True):
        """set of callee ids of a body (resolved, closed world) incl. closures defined in it"""
        key = (body_id, with_closures)
        if key in self._callees_cache:
            return self._callees_cache[key]
        b = self.bodies.get(body_id)
        out = set()
        if b is not None:
            for c in b.calls():
                for t in self.call_targets(c):
                    out.add(t)
                # fn items passed as values (callbacks)
                for a in c.args:
                    k = op_const(a)
                    if k and k.get("fn"):
                        out.add(k["fn"])
            if with_closures:
                for blk in b.blocks:
                    for st in blk["s"]:
                        if st[0] == "a" and st[2][0] == "agg" and st[2][1] == "closure":
                            out.add(st[2][2])
                        elif st[0] == "a":
                            for op in rvalue_operands(st[2]):
                                k = op_const(op)
                                if k and k.get("fn"):
                                    out.add(k["fn"])
        self._callees_cache[key] = out
        return out

    def reach(self, roots, stop=None):
        """transitive closure of callees from roots (ids). stop(id)->True prunes descent."""
        seen = set()
        work = list(roots)
        while work:
            x = work.pop()
            if x in seen:
                continue
            seen.add(x)
            if stop is not None and stop(x):
                continue
            for y in self.callees(x):
                if y not in seen:
                    work.append(y)
        return seen

    def reaches(self, root, targets, _memo=None):
        """does root's call closure include any id in targets (set)?  returns the first path found or None"""
        targets = set(targets)
        prev = {root: None}
        work = [root]
        while work:
            x = work.pop(0)
            if x in targets and x != root:
                path = []
                while x is not None:
                    path.append(x)
                    x = prev[x]
                return list(reversed(path))
            for y in sorted(self.callees(x)):
                if y not in prev:
                    prev[y] = x
                    work.append(y)
        if root in targets:
            return [root]
        return None

    def callers(self):
        if self._callers is None:
            m = {}
            for i in self.bodies:
                for y in self.callees(i):
                    m.setdefault(y, set()).add(i)
            self._callers = m
        return self._callers

    def const_value(self, id_):
        c = self.consts.get(id_)
        if c is None:
            return None
        if "v" in c:
            return c["v"]
        if "bytes" in c:
            return bytes(c["bytes"])
        return c.get("d")
