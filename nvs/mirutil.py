"""Small MIR idiom helpers shared by the rules."""
from .facts import op_local, op_const

DEREF_LIKE = (
    "core::ops::deref::Deref::deref",
    "core::ops::deref::DerefMut::deref_mut",
    "core::convert::AsRef::as_ref",
    "core::convert::AsMut::as_mut",
    "core::borrow::Borrow::borrow",
    "core::borrow::BorrowMut::borrow_mut",
)


def place_path(body, local, depth=12):
    """Resolve a local to (base, [(field, adt)...]) following borrows, reborrows and Deref-like calls.
    base is ("arg", n) | ("local", n) | ("call", Call) | ("agg", rv) | ("const", k) | ("unknown", local)."""
    fields = []
    cur = local
    for _ in range(depth):
        o = body.origin(cur)
        if o is None:
            return (("local", cur), fields)
        k = o[0]
        if k == "arg":
            return (("arg", o[1]), fields)
        if k == "place":
            pl = o[1]
            fs = [(p[2], p[3]) for p in pl[1] if isinstance(p, list) and p[0] == "f"]
            fields = fs + fields
            cur = pl[0]
            if 1 <= cur <= body.argc and not body.defs().get(cur):
                return (("arg", cur), fields)
            continue
        if k == "call":
            c = o[1]
            if c is not None and (c.declared in DEREF_LIKE) and c.args:
                l = op_local(c.args[0])
                if l is not None:
                    cur = l
                    continue
            return (("call", c), fields)
        if k == "agg":
            return (("agg", o[1]), fields)
        if k == "const":
            return (("const", o[1]), fields)
        return (("unknown", cur), fields)
    return (("unknown", cur), fields)


def recv_field(body, call, argi=0):
    """(field name, owning adt) of the receiver `x.field.method()`; None when not a field."""
    if argi >= len(call.args):
        return None
    a = call.args[argi]
    if a[0] in ("c", "m"):
        pl = a[1]
        fs = [(p[2], p[3]) for p in pl[1] if isinstance(p, list) and p[0] == "f"]
        if fs:
            return fs[-1]
        base, fields = place_path(body, pl[0])
        if fields:
            return fields[-1]
    return None


def recv_fields(body, call, argi=0):
    if argi >= len(call.args):
        return (None, [])
    a = call.args[argi]
    if a[0] in ("c", "m"):
        pl = a[1]
        fs = [(p[2], p[3]) for p in pl[1] if isinstance(p, list) and p[0] == "f"]
        base, fields = place_path(body, pl[0])
        return (base, fields + fs)
    return (None, [])


def callee_short(name):
    """`nervusdb_storage::wal::Wal::append` -> `Wal::append`"""
    parts = name.split("::")
    return "::".join(parts[-2:]) if len(parts) >= 2 else name


def site_key(call):
    return "%s#%d" % (callee_short(call.name), call.ordinal)


def backward_calls(body, local, depth=14):
    """Calls in the intra-procedural backward data slice of `local` (through copies, borrows, fields,
    aggregates and call arguments).  Returns list of Call (may contain duplicates-free set)."""
    from .facts import rvalue_operands
    seen_l = set()
    out = []
    seen_c = set()
    work = [(local, 0)]
    while work:
        l, d = work.pop()
        if l in seen_l or d > depth:
            continue
        seen_l.add(l)
        for (bi, si, kind, st) in body.defs().get(l, []):
            if kind in ("call", "pcall"):
                c = body.call_at(bi)
                if c is not None and (body.id, c.bb) not in seen_c:
                    seen_c.add((body.id, c.bb))
                    out.append(c)
                    for a in c.args:
                        if a[0] in ("c", "m"):
                            work.append((a[1][0], d + 1))
            else:
                rv = st[2]
                k = rv[0]
                if k in ("ref", "rawptr"):
                    pl = rv[2] if k == "ref" else rv[1]
                    work.append((pl[0], d + 1))
                elif k == "discr":
                    work.append((rv[1][0], d + 1))
                else:
                    for op in rvalue_operands(rv):
                        if op[0] in ("c", "m"):
                            work.append((op[1][0], d + 1))
    return out


def switch_on(body, bb):
    """if block bb ends in a switch, return (cond_local, negated, [(val, target)], otherwise) tracing `Not`"""
    t = body.term(bb)
    if t[0] != "switch":
        return None
    l = op_local(t[1])
    if l is None:
        return None
    neg = False
    for _ in range(4):
        sd = body.single_def(l)
        if sd is None:
            break
        bi, si, kind, st = sd
        if kind == "assign" and st[2][0] == "un" and st[2][1] == "Not":
            nl = op_local(st[2][2])
            if nl is None:
                break
            neg = not neg
            l = nl
            continue
        if kind == "assign" and st[2][0] == "use":
            nl = op_local(st[2][1])
            if nl is None:
                break
            l = nl
            continue
        break
    return (l, neg, t[2], t[3])


def backward_slice(body, local, depth=16):
    """(calls, fields) in the intra-procedural backward data slice of `local`; fields = set of (name, adt)."""
    from .facts import rvalue_operands
    seen_l = set()
    calls = []
    fields = set()
    seen_c = set()
    work = [(local, 0)]

    def note_place(pl):
        for p in pl[1]:
            if isinstance(p, list) and p[0] == "f":
                fields.add((p[2], p[3]))

    while work:
        l, d = work.pop()
        if l in seen_l or d > depth:
            continue
        seen_l.add(l)
        for (bi, si, kind, st) in body.defs().get(l, []):
            if kind in ("call", "pcall"):
                c = body.call_at(bi)
                if c is not None and c.bb not in seen_c:
                    seen_c.add(c.bb)
                    calls.append(c)
                    for a in c.args:
                        if a[0] in ("c", "m"):
                            note_place(a[1])
                            work.append((a[1][0], d + 1))
            else:
                rv = st[2]
                k = rv[0]
                if k in ("ref", "rawptr"):
                    pl = rv[2] if k == "ref" else rv[1]
                    note_place(pl)
                    work.append((pl[0], d + 1))
                elif k == "discr":
                    note_place(rv[1])
                    work.append((rv[1][0], d + 1))
                else:
                    for op in rvalue_operands(rv):
                        if op[0] in ("c", "m"):
                            note_place(op[1])
                            work.append((op[1][0], d + 1))
    return calls, fields


def value_root(body, l, depth=8):
    """follow copies / integer casts back to the local that first held the value"""
    for _ in range(depth):
        sd = body.single_def(l)
        if not sd or sd[2] != "assign":
            return l
        rv = sd[3][2]
        if rv[0] == "use" and rv[1][0] in ("c", "m") and not rv[1][1][1]:
            l = rv[1][1][0]
            continue
        if rv[0] == "cast" and rv[1] in ("IntToInt",) and rv[2][0] in ("c", "m") and not rv[2][1][1]:
            l = rv[2][1][0]
            continue
        return l
    return l


def upper_bound_guards(body, value_local):
    """switches that compare `value_local` (up to copies/casts) against a constant or another value and dominate
    later code.  Returns list of (switch_bb, big_arm_target, small_arm_target, other_operand)."""
    from .facts import op_const
    root = value_root(body, value_local)
    out = []
    for bi, blk in enumerate(body.blocks):
        sw = switch_on(body, bi)
        if not sw:
            continue
        l, neg, arms, other = sw
        sd = body.single_def(l)
        if not sd or sd[2] != "assign" or sd[3][2][0] != "bin":
            continue
        rv = sd[3][2]
        op, a, b_ = rv[1], rv[2], rv[3]
        if op not in ("Gt", "Ge", "Lt", "Le"):
            continue
        la, lb = op_local(a), op_local(b_)
        ra = value_root(body, la) if la is not None else None
        rb = value_root(body, lb) if lb is not None else None
        if ra == root:
            value_left = True
            other_op = b_
        elif rb == root:
            value_left = False
            other_op = a
        else:
            continue
        # truth value of "value is too big"
        big_when_true = (op in ("Gt", "Ge")) == value_left
        t_true = None
        t_false = None
        for v, tb in arms:
            if v == 0:
                t_false = tb
        t_true = other
        if neg:
            t_true, t_false = t_false, t_true
        big_t, small_t = (t_true, t_false) if big_when_true else (t_false, t_true)
        out.append((bi, big_t, small_t, other_op))
    return out


def peel_refs(body, l, depth=6):
    """local that a chain of borrows / reborrows / copies of references ultimately points at"""
    for _ in range(depth):
        sd = body.single_def(l) if l is not None else None
        if not sd or sd[2] != "assign":
            return l
        rv = sd[3][2]
        if rv[0] in ("ref", "rawptr"):
            pl = rv[2] if rv[0] == "ref" else rv[1]
            if all(p == "*" for p in pl[1]):
                l = pl[0]
                continue
            return l
        if rv[0] == "use" and rv[1][0] in ("c", "m") and all(p == "*" for p in rv[1][1][1]) and body.local_ty(l).startswith("&"):
            l = rv[1][1][0]
            continue
        return l
    return l


def narrowing_cast_guarded(b, bi, operand_local):
    """Is the value `operand_local`, narrowed by a cast in block bi, range-checked on every path to bi?
    Idioms: a dominating comparison of the same value whose `too big` arm avoids bi; a dominating
    `RangeInclusive::contains(&range, &value)` with bi off the false arm; a remainder of widened values."""
    l = operand_local
    if l is None:
        return False
    for g in upper_bound_guards(b, l):
        if b.dominates(g[0], bi) and g[1] is not None and bi not in b.reachable([g[1]]):
            return True
    root_l = value_root(b, l)
    for sb in range(len(b.blocks)):
        sw = switch_on(b, sb)
        if not sw or not b.dominates(sb, bi):
            continue
        sd = b.single_def(sw[0])
        if sd and sd[2] == "call":
            cc = b.call_at(sd[0])
            if cc and cc.name.endswith("::contains") and len(cc.args) > 1:
                al = peel_refs(b, op_local(cc.args[1]))
                if al is not None and value_root(b, al) == root_l:
                    t_false = [tb for v, tb in sw[2] if v == 0]
                    if t_false and bi not in b.reachable([t_false[0]]):
                        return True
    sdr = b.single_def(root_l)
    if sdr and sdr[2] == "assign" and sdr[3][2][0] == "bin" and sdr[3][2][1] == "Rem":
        return True
    return False


def payload_key(body, l):
    """identity of the *source place* a scalar local was read from, so that two separate reads `*len` of the same
    pattern binding compare equal: ("place", json of the origin place) or ("local", root)."""
    import json as _json
    r = value_root(body, l)
    o = body.origin(r)
    if o and o[0] == "place":
        return ("place", _json.dumps(o[1]))
    return ("local", r)


def sign_guarded(body, bi, l):
    """Is the signed value in local `l` (cast to an unsigned type in block bi) known non-negative there?
    Idioms: a dominating comparison of the same source value with a constant whose `small` arm cannot reach bi;
    the value is the result of clamp(lo>=0, ..) / rem_euclid / unsigned_abs / abs / `%` on a non-negative / max(0, ..)."""
    from .facts import op_const
    key = payload_key(body, l)
    for sb in range(len(body.blocks)):
        sw = switch_on(body, sb)
        if not sw or not body.dominates(sb, bi) or sb == bi:
            continue
        cl, neg, arms, other = sw
        sd = body.single_def(cl)
        if not sd or sd[2] != "assign" or sd[3][2][0] != "bin":
            continue
        rv = sd[3][2]
        op, a, b_ = rv[1], rv[2], rv[3]
        if op not in ("Gt", "Ge", "Lt", "Le"):
            continue
        la, lb = op_local(a), op_local(b_)
        if la is not None and payload_key(body, la) == key and b_[0] == "k":
            value_left = True
        elif lb is not None and payload_key(body, lb) == key and a[0] == "k":
            value_left = False
        else:
            continue
        big_when_true = (op in ("Gt", "Ge")) == value_left
        t_false = None
        for v, tb in arms:
            if v == 0:
                t_false = tb
        t_true = other
        if neg:
            t_true, t_false = t_false, t_true
        small_t = t_false if big_when_true else t_true
        if small_t is not None and bi not in body.reachable([small_t]):
            return True
    r = value_root(body, l)
    sd = body.single_def(r)
    if sd and sd[2] == "call":
        c = body.call_at(sd[0])
        short = c.name.split("::")[-1]
        if short in ("rem_euclid", "unsigned_abs", "abs", "len", "count"):
            return True
        if short == "clamp" and len(c.args) == 3 and c.args[1][0] == "k" and (c.args[1][1].get("v") or 0) >= 0:
            return True
        if short == "max" and any(x[0] == "k" and (x[1].get("v") or 0) >= 0 for x in c.args):
            return True
    return False
