"""Small MIR idiom helpers shared by the rules."""
from .facts import op_local, op_const

DEREF_LIKE = (
    "core::ops::deref::Deref::deref",
    "core::ops::deref::DerefMut::deref_mut",
    "core::convert::AsRef::as_ref",
    "core::convert::AsMut::as_mut",
    "core::borrow::Borrow::borrow",
    "core::borrow::BorrowMut::borrow_mut",
)


def place_path(body, local, depth=12):
    """Resolve a local to (base, [(field, adt)...]) following borrows, reborrows and Deref-like calls.
    base is ("arg", n) | ("local", n) | ("call", Call) | ("agg", rv) | ("const", k) | ("unknown", local)."""
    fields = []
    cur = local
    for _ in range(depth):
        o = body.origin(cur)
        if o is None:
            return (("local", cur), fields)
        k = o[0]
        if k == "arg":
            return (("arg", o[1]), fields)
        if k == "place":
            pl = o[1]
            fs = [(p[2], p[3]) for p in pl[1] if isinstance(p, list) and p[0] == "f"]
            fields = fs + fields
            cur = pl[0]
            if 1 <= cur <= body.argc and not body.defs().get(cur):
                return (("arg", cur), fields)
            continue
        if k == "call":
            c = o[1]
            if c is not None and (c.declared in DEREF_LIKE) and c.args:
                l = op_local(c.args[0])
                if l is not None:
                    cur = l
                    continue
            return (("call", c), fields)
        if k == "agg":
            return (("agg", o[1]), fields)
        if k == "const":
            return (("const", o[1]), fields)
        return (("unknown", cur), fields)
    return (("unknown", cur), fields)


def recv_field(body, call, argi=0):
    """(field name, owning adt) of the receiver `x.field.method()`; None when not a field."""
    if argi >= len(call.args):
        return None
    a = call.args[argi]
    if a[0] in ("c", "m"):
        pl = a[1]
        fs = [(p[2], p[3]) for p in pl[1] if isinstance(p, list) and p[0] == "f"]
        if fs:
            return fs[-1]
        base, fields = place_path(body, pl[0])
        if fields:
            return fields[-1]
    return None


def recv_fields(body, call, argi=0):
    if argi >= len(call.args):
        return (None, [])
    a = call.args[argi]
    if a[0] in ("c", "m"):
        pl = a[1]
        fs = [(p[2], p[3]) for p in pl[1] if isinstance(p, list) and p[0] == "f"]
        base, fields = place_path(body, pl[0])
        return (base, fields + fs)
    return (None, [])


def callee_short(name):
    """`nervusdb_storage::wal::Wal::append` -> `Wal::append`"""
    parts = name.split("::")
    return "::".join(parts[-2:]) if len(parts) >= 2 else name


def site_key(call):
    return "%s#%d" % (callee_short(call.name), call.ordinal)
