"""Small MIR idiom helpers shared by the rules."""
from .facts import op_local, op_const

DEREF_LIKE = (
    "core::ops::deref::Deref::deref",
    "core::ops::deref::DerefMut::deref_mut",
    "core::convert::AsRef::as_ref",
    "core::convert::AsMut::as_mut",
    "core::borrow::Borrow::borrow",
    "core::borrow::BorrowMut::borrow_mut",
)


def place_path(body, local, depth=12):
    """Resolve a local to (base, [(field, adt)...]) following borrows, reborrows and Deref-like calls.
    base is ("arg", n) | ("local", n) | ("call", Call) | ("agg", rv) | ("const", k) | ("unknown", local)."""
    fields = []
    cur = local
    for _ in range(depth):
        o = body.origin(cur)
        if o is None:
            return (("local", cur), fields)
        k = o[0]
        if k == "arg":
            return (("arg", o[1]), fields)
        if k == "place":
            pl = o[1]
            fs = [(p[2], p[3]) for p in pl[1] if isinstance(p, list) and p[0] == "f"]
            fields = fs + fields
            cur = pl[0]
            if 1 <= cur <= body.argc and not body.defs().get(cur):
                return (("arg", cur), fields)
            continue
        if k == "call":
            c = o[1]
            if c is not None and (c.declared in DEREF_LIKE) and c.args:
                l = op_local(c.args[0])
                if l is not None:
                    cur = l
                    continue
            return (("call", c), fields)
        if k == "agg":
            return (("agg", o[1]), fields)
        if k == "const":
            return (("const", o[1]), fields)
        return (("unknown", cur), fields)
    return (("unknown", cur), fields)


def recv_field(body, call, argi=0):
    """(field name, owning adt) of the receiver `x.field.method()`; None when not a field."""
    if argi >= len(call.args):
        return None
    a = call.args[argi]
    if a[0] in ("c", "m"):
        pl = a[1]
        fs = [(p[2], p[3]) for p in pl[1] if isinstance(p, list) and p[0] == "f"]
        if fs:
            return fs[-1]
        base, fields = place_path(body, pl[0])
        if fields:
            return fields[-1]
    return None


def recv_fields(body, call, argi=0):
    if argi >= len(call.args):
        return (None, [])
    a = call.args[argi]
    if a[0] in ("c", "m"):
        pl = a[1]
        fs = [(p[2], p[3]) for p in pl[1] if isinstance(p, list) and p[0] == "f"]
        base, fields = place_path(body, pl[0])
        return (base, fields + fs)
    return (None, [])


def callee_short(name):
    """`nervusdb_storage::wal::Wal::append` -> `Wal::append`"""
    parts = name.split("::")
    return "::".join(parts[-2:]) if len(parts) >= 2 else name


def site_key(call):
    return "%s#%d" % (callee_short(call.name), call.ordinal)


def backward_calls(body, local, depth=14):
    """Calls in the intra-procedural backward data slice of `local` (through copies, borrows, fields,
    aggregates and call arguments).  Returns list of Call (may contain duplicates-free set)."""
    from .facts import rvalue_operands
    seen_l = set()
    out = []
    seen_c = set()
    work = [(local, 0)]
    while work:
        l, d = work.pop()
        if l in seen_l or d > depth:
            continue
        seen_l.add(l)
        for (bi, si, kind, st) in body.defs().get(l, []):
            if kind in ("call", "pcall"):
                c = body.call_at(bi)
                if c is not None and (body.id, c.bb) not in seen_c:
                    seen_c.add((body.id, c.bb))
                    out.append(c)
                    for a in c.args:
                        if a[0] in ("c", "m"):
                            work.append((a[1][0], d + 1))
            else:
                rv = st[2]
                k = rv[0]
                if k in ("ref", "rawptr"):
                    pl = rv[2] if k == "ref" else rv[1]
                    work.append((pl[0], d + 1))
                elif k == "discr":
                    work.append((rv[1][0], d + 1))
                else:
                    for op in rvalue_operands(rv):
                        if op[0] in ("c", "m"):
                            work.append((op[1][0], d + 1))
    return out


def switch_on(body, bb):
    """if block bb ends in a switch, return (cond_local, negated, [(val, target)], otherwise) tracing `Not`"""
    t = body.term(bb)
    if t[0] != "switch":
        return None
    l = op_local(t[1])
    if l is None:
        return None
    neg = False
    for _ in range(4):
        sd = body.single_def(l)
        if sd is None:
            break
        bi, si, kind, st = sd
        if kind == "assign" and st[2][0] == "un" and st[2][1] == "Not":
            nl = op_local(st[2][2])
            if nl is None:
                break
            neg = not neg
            l = nl
            continue
        if kind == "assign" and st[2][0] == "use":
            nl = op_local(st[2][1])
            if nl is None:
                break
            l = nl
            continue
        break
    return (l, neg, t[2], t[3])


def backward_slice(body, local, depth=16):
    """(calls, fields) in the intra-procedural backward data slice of `local`; fields = set of (name, adt)."""
    from .facts import rvalue_operands
    seen_l = set()
    calls = []
    fields = set()
    seen_c = set()
    work = [(local, 0)]

    def note_place(pl):
        for p in pl[1]:
            if isinstance(p, list) and p[0] == "f":
                fields.add((p[2], p[3]))

    while work:
        l, d = work.pop()
        if l in seen_l or d > depth:
            continue
        seen_l.add(l)
        for (bi, si, kind, st) in body.defs().get(l, []):
            if kind in ("call", "pcall"):
                c = body.call_at(bi)
                if c is not None and c.bb not in seen_c:
                    seen_c.add(c.bb)
                    calls.append(c)
                    for a in c.args:
                        if a[0] in ("c", "m"):
                            note_place(a[1])
                            work.append((a[1][0], d + 1))
            else:
                rv = st[2]
                k = rv[0]
                if k in ("ref", "rawptr"):
                    pl = rv[2] if k == "ref" else rv[1]
                    note_place(pl)
                    work.append((pl[0], d + 1))
                elif k == "discr":
                    note_place(rv[1])
                    work.append((rv[1][0], d + 1))
                else:
                    for op in rvalue_operands(rv):
                        if op[0] in ("c", "m"):
                            note_place(op[1])
                            work.append((op[1][0], d + 1))
    return calls, fields
