"""CLI: python3 -m nvs check <Cxx> [--thorough] | facts [--fresh] | list"""
import importlib
import os
import sys

from . import core, extract


def main(argv):
    if len(argv) < 1:
        print(__doc__)
        return 2
    cmd = argv[0]
    if cmd == "facts":
        d, info = extract.ensure_facts(fresh="--fresh" in argv)
        print(d, info)
        return 0
    if cmd == "check":
        pid = argv[1]
        tier = "thorough" if "--thorough" in argv or os.environ.get("VERIF_TIER") == "thorough" else "quick"
        try:
            mod = importlib.import_module("nvs.rules.%s" % pid.lower())
        except ModuleNotFoundError:
            print("no rules for %s" % pid)
            return 2
        return core.run_check(pid, mod, tier=tier, fresh=(tier == "thorough" and "--no-fresh" not in argv))
    print(__doc__)
    return 2


if __name__ == "__main__":
    sys.exit(main(sys.argv[1:]))
