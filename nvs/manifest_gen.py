"""Generate /verif/MANIFEST.json from the per-property tables (python3 -m nvs.manifest_gen)."""
import importlib
import json
import os

VERIF = os.path.dirname(os.path.dirname(os.path.abspath(__file__)))

NOT_APPLICABLE = {
    "C11": "row equality with a reference Cypher evaluator over generated graphs and queries is a function of runtime values; no clause of it is visible in the shape of the code",
    "C12": "update semantics and change counts against a reference model are runtime-value behaviour; no structural clause is a necessary condition I can name without freezing source text",
    "C27": "order and equality preservation of the key encoding quantifies over all integers, floats and strings; only tag distinctness is structural and it is too weak to claim the property through",
}

TECHNIQUE = {}
LEVEL_TEXT = {}


def main():
    props = [json.loads(l) for l in open(os.path.join(VERIF, "properties.jsonl"))]
    checks = []
    na = []
    claimed = []
    for p in props:
        pid = p["id"]
        try:
            mod = importlib.import_module("nvs.rules.%s" % pid.lower())
        except ModuleNotFoundError:
            mod = None
        if mod is None:
            reason = NOT_APPLICABLE.get(pid, "static check for this property not built yet in this round (see DESIGN.md §3)")
            na.append({"property_id": pid, "reason": reason})
            continue
        claimed.append(pid)
        checks.append({
            "property_id": pid,
            "quick_cmd": "./nvs.sh check %s" % pid,
            "thorough_cmd": "./nvs.sh check %s --thorough" % pid,
            "evidence_file": "/verif/evidence/%s.json" % pid,
            "replay_cmd_template": "cat {path}",
            "engine": "nvs",
            "level_claimed": {
                "category": "other",
                "text": "static analysis of every MIR body of the workspace: " + getattr(mod, "EXPLANATION", ""),
                "design_ref": "DESIGN.md §3 " + pid,
            },
            "level_note": "trusted base: rustc nightly MIR construction and trait resolution, the nvs dominator/reachability/dataflow code, and the frozen anchor tables in nvs/model.py and nvs/rules (reviewed by reading); decides the named structural clauses (necessary conditions), not the behaviour",
            "technique": getattr(mod, "TECHNIQUE", "static analysis: custom MIR rules (call graph + CFG dominance/reachability) via a rustc_private fact extractor"),
        })
    manifest = {
        "version": 1,
        "setup_cmd": "./setup.sh",
        "hooks": {
            "guard": "luqing_studio_nervusdb_verif",
            "enable": "no hooks are needed: the checks read /repo's sources through a RUSTC_WORKSPACE_WRAPPER driver; nothing in /repo is instrumented",
            "baseline_off_cmd": "cd /repo && cargo test --workspace --no-fail-fast --offline",
            "source_commits": [],
            "add_only": True,
        },
        "engines": [
            {"name": "nvs-facts", "path": "/verif/nvs-facts", "serves_properties": claimed,
             "kind_free_text": "rustc_private driver dumping resolved MIR, ADTs, impls and constants of every workspace crate as JSON facts"},
            {"name": "nvs", "path": "/verif/nvs", "serves_properties": claimed,
             "kind_free_text": "python rule engine: call graph, dominators, success-path reachability, lock-set and written-but-unsynced summaries, provenance, table agreement"},
        ],
        "checks": checks,
        "not_applicable": na,
        "notes": "Static analysis only. Each check decides named structural clauses of its property (DESIGN.md §3); genuine defects found on the pinned tree are listed in known_findings.jsonl or repaired by fix: commits.",
    }
    with open(os.path.join(VERIF, "MANIFEST.json"), "w") as fh:
        json.dump(manifest, fh, indent=1)
    print("claimed", len(claimed), "n/a", len(na))


if __name__ == "__main__":
    main()
