"""ERRFLOW: error discipline over `Result` values in MIR.

Reported constructs (each with a stable key component):
  drop        a call's Result is never used (`let _ = f()` / `f();`)
  ok          `.ok()` turns the error into None
  unwrap_or   `.unwrap_or(..)`, `.unwrap_or_default()`
  closure     `.unwrap_or_else(|_| ..)`, `.or_else(|_| ..)`, `.map_err(|_| ..)` is NOT reported (conversion), only
              or_else / unwrap_or_else whose closure ignores the error
  match       `if let Ok(..)` / `match` whose Err arm neither reads the payload nor leaves with an error
"""
from . import paths
from .facts import op_local

RES = "core::result::Result<"


def is_result_ty(ty, err_substr=None):
    if not ty.startswith(RES):
        return False
    if err_substr is None:
        return True
    return any(s in ty for s in err_substr)


def _err_type_of(ty):
    # crude: last top-level generic argument
    depth = 0
    last = 0
    inner = ty[len(RES):-1] if ty.endswith(">") else ty[len(RES):]
    for i, ch in enumerate(inner):
        if ch in "<([":
            depth += 1
        elif ch in ">)]":
            depth -= 1
        elif ch == "," and depth == 0:
            last = i + 1
    return inner[last:].strip()


def closure_ignores_arg(facts, body, op):
    """op is a closure value passed to a combinator: True when the closure body never reads its argument"""
    l = op_local(op)
    if l is None:
        return None
    o = body.origin(l)
    cid = None
    if o and o[0] == "agg" and o[1][1] == "closure":
        cid = o[1][2]
    elif o and o[0] == "const" and o[1].get("fn"):
        return False  # a named function: assume it handles the error
    else:
        ty = body.local_ty(l)
        if "{closure" in ty:
            # zero-capture closures appear as constants; find by type string in closures of the root fn
            for cb in facts.closures_of(body.root or body.id):
                if cb.id.split("::")[-1] in ty or True:
                    pass
        return None
    cb = facts.bodies.get(cid)
    if cb is None or cb.argc < 2:
        return None
    uses = cb.uses().get(2, [])
    return len([u for u in uses if u[2] != "drop"]) == 0


def scan(facts, body, err_substr=None, include_expansions=False):
    """yield dicts {kind, call, key, detail} for every discarded error in `body`"""
    out = []
    uses = body.uses()
    for c in body.calls():
        if c.expn == "m" and not include_expansions:
            continue
        if c.declared in (paths.FROM_RESIDUAL, paths.TRY_BRANCH):
            continue
        dl = paths.op_place_local(c.dest)
        dty = body.local_ty(c.dest[0]) if c.dest else ""
        name = c.name
        short = name.split("::")[-1]
        # --- combinators on an existing Result
        if c.args:
            a0 = op_local(c.args[0])
            a0ty = body.local_ty(a0) if a0 is not None else ""
            if is_result_ty(a0ty, err_substr) and name.startswith("core::result::Result::<T, E>::"):
                if short == "ok":
                    out.append({"kind": "ok", "call": c, "ety": _err_type_of(a0ty)})
                    continue
                if short in ("unwrap_or", "unwrap_or_default"):
                    out.append({"kind": "unwrap_or", "call": c, "ety": _err_type_of(a0ty)})
                    continue
                if short in ("unwrap_or_else", "or_else") and len(c.args) > 1:
                    ign = closure_ignores_arg(facts, body, c.args[1])
                    if ign is not False:
                        out.append({"kind": short + "(|_|)", "call": c, "ety": _err_type_of(a0ty), "closure_ignores_error": ign})
                    continue
        # --- dropped results
        if dl is not None and dl != 0 and is_result_ty(dty, err_substr) and c.target is not None:
            us = [u for u in uses.get(dl, []) if u[2] not in ("drop",)]
            if not us:
                out.append({"kind": "drop", "call": c, "ety": _err_type_of(dty)})
                continue
    # --- matches whose Err arm discards the payload and continues
    fb = paths.fail_blocks(body)
    for bi, blk in enumerate(body.blocks):
        if blk["c"]:
            continue
        t = blk["t"]
        if t[0] != "switch":
            continue
        for st in blk["s"]:
            if st[0] == "a" and st[2][0] == "discr" and op_local(t[1]) == st[1][0]:
                rl = st[2][1][0]
                proj = st[2][1][1]
                inner_opt = False
                if proj:
                    # `Some(Ok(..))` / `Some(Err(..))` patterns: discriminant of ((opt as Some).0) where opt: Option<Result<..>>
                    oty = body.local_ty(rl)
                    if (len(proj) == 2 and isinstance(proj[0], list) and proj[0][0] == "d" and proj[0][1] == "Some"
                            and isinstance(proj[1], list) and proj[1][0] == "f" and oty.startswith("core::option::Option<" + RES)):
                        inner_opt = True
                        rty = oty[len("core::option::Option<"):-1]
                    else:
                        continue
                else:
                    rty = body.local_ty(rl)
                if not is_result_ty(rty, err_substr):
                    continue
                if st[4] == "d":
                    continue  # `?` desugaring
                err_t = None
                for v, tb in t[2]:
                    if v == 1:
                        err_t = tb
                if err_t is None:
                    err_t = t[3]
                    if body.term(err_t)[0] == "unreach":
                        continue
                # payload read anywhere?
                payload_read = False
                for l2, us in uses.items():
                    pass
                for b2 in body.blocks:
                    for s2 in b2["s"]:
                        if s2[0] == "a":
                            for pl in _places_of_rvalue(s2[2]):
                                if pl[0] == rl and any(isinstance(p, list) and p[0] == "d" and p[1] == "Err" for p in pl[1]):
                                    payload_read = True
                                if pl[0] == rl and not inner_opt and any(isinstance(p, list) and p[0] == "d" and p[2] == 1 for p in pl[1]):
                                    payload_read = True
                                if pl[0] == rl and inner_opt and not pl[1] and s2[2][0] == "use" and s2[2][1][0] == "m":
                                    payload_read = True  # the whole Option<Result> is moved on (e.g. returned)
                    t2 = b2["t"]
                    if t2[0] == "call":
                        for a in t2[2]:
                            if a[0] in ("c", "m") and a[1][0] == rl and any(isinstance(p, list) and p[0] == "d" and (p[1] == "Err" or (p[2] == 1 and not inner_opt)) for p in a[1][1]):
                                payload_read = True
                            if a[0] == "m" and a[1][0] == rl and inner_opt and not a[1][1]:
                                payload_read = True
                if payload_read:
                    continue
                # does the Err arm leave with an error on all paths?
                seen = body.reachable([err_t], avoid=fb)
                continues = any(r in seen for r in body.return_blocks()) or True
                leaves_err = not any(r in seen for r in body.return_blocks())
                if leaves_err:
                    continue
                # find the call that produced the result for keying
                o = body.origin(rl)
                src = o[1] if o and o[0] == "call" else None
                out.append({"kind": "match-discards-err", "call": src, "bb": bi, "line": t[5], "ety": _err_type_of(rty)})
    return out


def _places_of_rvalue(rv):
    k = rv[0]
    if k in ("ref", "rawptr"):
        return [rv[2] if k == "ref" else rv[1]]
    if k == "discr":
        return []
    from .facts import rvalue_operands
    return [op[1] for op in rvalue_operands(rv) if op[0] in ("c", "m")]


def key_of(item):
    c = item.get("call")
    if c is not None:
        from .mirutil import site_key
        return "%s:%s" % (item["kind"], site_key(c))
    return "%s:bb-line-free" % item["kind"]
