"""Repository model: the frozen anchor tables the rules are instantiated from
(confirmed by reading /repo at the pinned commit; DESIGN.md §1)."""
from . import dirty, paths
from .mirutil import recv_field

ST = "nervusdb_storage::"
ENGINE = ST + "engine::GraphEngine"
WTXN = ST + "engine::WriteTxn"

WAL_APPEND = ST + "wal::Wal::append"
WAL_FSYNC = ST + "wal::Wal::fsync"
WAL_REWRITE = ST + "wal::Wal::rewrite_as_snapshot"
WAL_OPEN = ST + "wal::Wal::open"
WALRECORD = ST + "wal::WalRecord"

PAGER = ST + "pager::Pager"
WRITE_PAGE = PAGER + "::write_page"
WRITE_PAGE_RAW = ST + "pager::write_page_raw"
READ_PAGE_RAW = ST + "pager::read_page_raw"
ALLOCATE_PAGE = PAGER + "::allocate_page"
ENSURE_ALLOCATED = PAGER + "::ensure_allocated"
PAGER_SYNC = PAGER + "::sync"
FLUSH_META = PAGER + "::flush_meta_and_bitmap"
FREE_PAGE = PAGER + "::free_page"

COMMIT = WTXN + "::commit"
COMPACT = ENGINE + "::compact"
CHECKPOINT_ON_CLOSE = ENGINE + "::checkpoint_on_close"
GET_OR_CREATE_LABEL = ENGINE + "::get_or_create_label"
BULK_INIT_WAL = ST + "bulkload::BulkLoader::initialize_wal"
BULK_COMMIT = ST + "bulkload::BulkLoader::commit"
ENGINE_OPEN = ENGINE + "::open"
BEGIN_READ = ENGINE + "::begin_read"
BEGIN_WRITE = ENGINE + "::begin_write"
PUBLISH_RUN = ENGINE + "::publish_run"
UPDATE_NODE_LABELS = ENGINE + "::update_published_node_labels"

FILE_SYNC = ("std::fs::File::sync_data", "std::fs::File::sync_all")
FILE_SET_LEN = "std::fs::File::set_len"
FS_RENAME = "std::fs::rename"
FS_REMOVE = "std::fs::remove_file"
FS_COPY = "std::fs::copy"

# the functions allowed to append to the log (DESIGN C01 clause 4)
WAL_WRITERS = [COMMIT, GET_OR_CREATE_LABEL, COMPACT, BULK_INIT_WAL]
WAL_REWRITERS = [CHECKPOINT_ON_CLOSE]

PUBLISHED_FIELDS = ("published_runs", "published_segments", "published_labels", "published_node_labels")
ROOT_ATOMICS = ("properties_root", "stats_root", "checkpoint_txid", "manifest_epoch")

IDMAP_APPLY = [
    ST + "idmap::IdMap::apply_create_node",
    ST + "idmap::IdMap::apply_create_node_multi_label",
    ST + "idmap::IdMap::apply_add_label",
    ST + "idmap::IdMap::apply_remove_label",
]



def is_mutex_lock(name):
    return name.endswith("Mutex::<T>::lock")


def is_rw_read(name):
    return name.endswith("RwLock::<T>::read")


def is_rw_write(name):
    return name.endswith("RwLock::<T>::write")


def is_atomic_store(name):
    return "::atomic::Atomic" in name and name.endswith(("::store", "::swap", "::compare_exchange", "::compare_exchange_weak", "::fetch_max", "::fetch_min", "::fetch_update"))


def is_atomic_load(name):
    return "::atomic::Atomic" in name and name.endswith("::load")


def publication_sites(body):
    """call sites of `body` that make state visible to readers (DESIGN §1 publication points)"""
    out = []
    for c in body.calls():
        n = c.name
        if n in (PUBLISH_RUN, UPDATE_NODE_LABELS) or n in IDMAP_APPLY:
            out.append((c, n.split("::")[-1]))
        elif is_rw_write(n):
            f = recv_field(body, c, 0)
            if f and f[0] in PUBLISHED_FIELDS:
                out.append((c, "write(%s)" % f[0]))
        elif is_atomic_store(n):
            f = recv_field(body, c, 0)
            if f and f[0] in ROOT_ATOMICS:
                out.append((c, "store(%s)" % f[0]))
    return out


class PageDirty(dirty.Dirty):
    """DIRTY specialised to Pager.file: direct File::{sync_*,set_len} calls count only when
    the receiver is the `file` field of Pager."""

    def __init__(self, facts):
        self.pager_sync_sites = set()
        self.pager_setlen_sites = set()
        for b in facts.bodies.values():
            if not b.id.startswith(PAGER):
                continue
            for c in b.calls():
                if c.name in FILE_SYNC or c.name == FILE_SET_LEN:
                    f = recv_field(b, c, 0)
                    if f and f[0] == "file" and f[1] == PAGER:
                        (self.pager_sync_sites if c.name in FILE_SYNC else self.pager_setlen_sites).add((b.id, c.bb))
        super().__init__(facts, {WRITE_PAGE_RAW}, set(), reach_prims=set(FILE_SYNC) | {FILE_SET_LEN, WRITE_PAGE_RAW})

    def is_M_site(self, call):
        if (call.body.id, call.bb) in self.pager_sync_sites:
            return True
        return super().is_M_site(call)

    def is_D_site(self, call):
        if (call.body.id, call.bb) in self.pager_setlen_sites:
            return True
        if call.name == WRITE_PAGE_RAW:
            # only writes to Pager.file (write_vacuum_copy writes another file)
            f = recv_field(call.body, call, 0)
            return bool(f and f[0] == "file" and f[1] == PAGER)
        return super().is_D_site(call)


def wal_append_variant(body, call):
    v = paths.agg_variant_args(body, call, 1)
    if v and v[0] == WALRECORD:
        return v[1]
    return None
