"""TABLES: extraction of tag tables from encoder / decoder bodies and agreement checks."""
from .facts import op_local, op_const


def dominated_region(body, head, switch_bb=None):
    """blocks of a match arm: reachable from the arm's target without passing the match's merge point
    (the immediate post-dominator of the switch); or-pattern arms share their common blocks."""
    if switch_bb is None:
        return {x for x in range(len(body.blocks)) if body.dominates(head, x)}
    ip = body.ipdom().get(switch_bb)
    avoid = [ip] if ip is not None and ip < len(body.blocks) else []
    avoid.append(switch_bb)
    # a match inside a loop: arms end where the next iteration begins
    from .evalguard import _loop_header
    h = _loop_header(body, switch_bb)
    if h is not None:
        avoid.append(h)
    seen = body.reachable([head], avoid=avoid)
    return {x for x in seen if not body.is_cleanup(x)}


def place_type(facts, body, pl):
    """type string of a place with field projections (uses ADT facts for field types)"""
    ty = body.local_ty(pl[0])
    for p in pl[1]:
        if isinstance(p, list) and p[0] == "f" and facts is not None:
            a = facts.adts.get(p[3]) or facts.adts.get(p[3].rsplit("::", 1)[0])
            if a:
                for v in a["variants"]:
                    for fname, fty, _vis in v["fields"]:
                        if fname == p[2]:
                            ty = fty
    return ty


def enum_switch(body, adt, facts=None):
    """the widest switch on the discriminant of a local of type `adt` (by reference or value).
    returns (bb, {variant_index: target}, otherwise)"""
    best = None
    for bi, blk in enumerate(body.blocks):
        t = blk["t"]
        if t[0] != "switch":
            continue
        for st in blk["s"]:
            if st[0] == "a" and st[2][0] == "discr" and op_local(t[1]) == st[1][0]:
                ty = place_type(facts, body, st[2][1]) if st[2][1][1] else body.local_ty(st[2][1][0])
                base_ty = ty.replace("&'{erased} ", "&").lstrip("&").strip()
                if base_ty.startswith("mut "):
                    base_ty = base_ty[4:]
                if base_ty == adt or base_ty.startswith(adt + "<"):
                    if best is None or len(t[2]) > len(best[1]):
                        best = (bi, {v: tb for v, tb in t[2]}, t[3])
    return best


def int_switch(body, min_arms=4, ty="u8"):
    """the widest switch on an integer local of type `ty`: (bb, {value: target}, otherwise)"""
    best = None
    for bi, blk in enumerate(body.blocks):
        t = blk["t"]
        if t[0] != "switch" or t[4] != ty:
            continue
        if len(t[2]) >= min_arms and (best is None or len(t[2]) > len(best[1])):
            best = (bi, {v: tb for v, tb in t[2]}, t[3])
    return best


def arm_consts_to_ret(body, head, sw=None):
    """integer constants assigned to _0 in the region dominated by `head`"""
    out = set()
    for x in dominated_region(body, head, sw):
        for st in body.blocks[x]["s"]:
            if st[0] == "a" and st[1][0] == 0 and not st[1][1] and st[2][0] == "use" and st[2][1][0] == "k":
                v = st[2][1][1].get("v")
                if v is not None:
                    out.add(v)
    return out


def arm_first_byte_arrays(body, head, sw=None):
    """constants K of `[K]` single-element u8 array aggregates in the region dominated by head"""
    out = set()
    for x in dominated_region(body, head, sw):
        for st in body.blocks[x]["s"]:
            if st[0] == "a" and st[2][0] == "agg" and st[2][1] == "array" and len(st[2][4]) == 1:
                k = op_const(st[2][4][0])
                if k and k.get("v") is not None and k.get("ty") == "u8":
                    out.add(k["v"])
    return out


def arm_variants_built(body, head, adt, sw=None):
    out = set()
    for x in dominated_region(body, head, sw):
        for st in body.blocks[x]["s"]:
            if st[0] == "a" and st[2][0] == "agg" and st[2][1] == "adt" and st[2][2] == adt:
                out.add(st[2][3])
            if st[0] == "a" and st[2][0] == "use" and st[2][1][0] == "k":
                # unit variants appear as constants: `const PropertyValue::Null`
                d = st[2][1][1].get("d", "")
                if adt.split("::")[-1] + "::" in d and st[2][1][1].get("ty") == adt:
                    out.add(d.split("::")[-1].split(" ")[0].strip("()"))
    return out


def arm_int_codec_calls(body, head, suffixes, helper_map=None, sw=None):
    """multiset (as sorted list) of integer widths written/read in the arm region: calls `<int>::to_le_bytes` etc."""
    out = []
    for x in sorted(dominated_region(body, head, sw)):
        t = body.blocks[x]["t"]
        if t[0] == "call":
            n = t[1].get("r") or t[1].get("d") or ""
            for suf in suffixes:
                if n.endswith(suf):
                    # core::num::<impl u64>::to_le_bytes
                    ty = n.split("impl ")[-1].split(">")[0] if "impl " in n else "?"
                    out.append(ty)
            if helper_map and n in helper_map:
                out.append(helper_map[n])
    return sorted(out)
