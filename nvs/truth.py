"""TRUTH — exhaustive abstract evaluation of a match over three-valued operands.

The logical connectives are written as a `match` over (Value, Value) (or a single Value) whose arms only test the
*variant* of each operand and the bool payload of a Value::Bool.  Such code touches its inputs through finitely many
comparisons, so its behaviour on the abstract domain {true, false, null, other} is decided by walking the MIR decision tree
once per abstract input — no concrete execution, no solver: the walk only follows `discriminant` reads, `switchInt`s on
those or on a Bool payload, gotos and drops, and stops at the first assignment of the result place.

eval_match(body, start_bb, inputs, assume) -> 'T' | 'F' | 'N' | ('other', text)
raises Undecided when the tree tests something else (a call, an unknown local): the rule then fails closed.
"""
from .facts import op_local

BOOL_DISCR = None  # filled by caller via set_value_adt


class Undecided(Exception):
    pass


def _place_key(pl):
    """base identity of a place: (local, tuple-field index or None) — the operand slot being inspected; a deref of the slot
    (operands passed as `&Value`) is the same slot"""
    l, proj = pl[0], pl[1]
    idx = None
    rest = list(proj)
    if rest and isinstance(rest[0], list) and rest[0][0] == "f" and rest[0][3] == "(tuple)":
        idx = rest[0][1]
        rest = rest[1:]
    while rest and rest[0] == "*":
        rest = rest[1:]
    return (l, idx), rest


def eval_match(body, start, slots, assume, discr_of, result_local=0, max_steps=400, stop_at_call=False, trace=None):
    """slots: {(local, tuple idx|None): name}; assume: {name: 'T'|'F'|'N'|'O'}; discr_of: {'Bool': d, 'Null': d, 'other': d}"""
    env = {}  # local -> ('discr', int) | ('bool', bool)

    def abstract(key):
        name = slots.get(key)
        if name is None:
            raise Undecided("reads a place that is not one of the operands: %s" % (key,))
        return assume[name]

    def discr_val(a):
        if a in ("T", "F"):
            return discr_of["Bool"]
        if a == "N":
            return discr_of["Null"]
        if a in discr_of:
            return discr_of[a]  # a variant name
        return discr_of["other"]

    def resolve(pl):
        key, rest = _place_key(pl)
        if key not in slots and key[1] is None and env.get(key[0], (None,))[0] == "slot":
            key = env[key[0]][1]  # a copy of the operand reference (`_34 = copy (_3.0)`)
        return key, rest

    def read_place(pl):
        key, rest = resolve(pl)
        if not rest:
            if key in slots:
                return ("slot", key)
            if key[1] is None and key[0] in env:
                return env[key[0]]
            raise Undecided("whole-operand read")
        # (slot as Bool).0
        if len(rest) == 2 and isinstance(rest[0], list) and rest[0][0] == "d" and rest[0][1] == "Bool" and isinstance(rest[1], list) and rest[1][0] == "f":
            a = abstract(key)
            if a not in ("T", "F"):
                raise Undecided("reads the Bool payload of an operand assumed %s" % a)
            return ("bool", a == "T")
        raise Undecided("unsupported projection %s" % rest)

    def read_op(op):
        if op[0] == "k":
            v = op[1].get("v")
            if op[1].get("ty") == "bool":
                return ("bool", bool(v))
            return ("int", v)
        if op[0] in ("c", "m"):
            pl = op[1]
            if not pl[1]:
                if pl[0] in env:
                    return env[pl[0]]
                if (pl[0], None) in slots:
                    return ("slot", (pl[0], None))
                raise Undecided("reads local _%d with no abstract value" % pl[0])
            return read_place(pl)
        raise Undecided("operand")

    bb = start
    for _ in range(max_steps):
        blk = body.blocks[bb]
        if trace is not None:
            trace.append(bb)
        for st in blk["s"]:
            if st[0] != "a":
                continue
            dst, rv = st[1], st[2]
            if dst[0] == result_local and not dst[1]:
                if rv[0] == "agg" and rv[1] == "adt" and rv[2].endswith("core_types::Value"):
                    if rv[3] == "Null":
                        return "N"
                    if rv[3] == "Bool":
                        v = read_op(rv[4][0])
                        if v[0] != "bool":
                            raise Undecided("Bool payload not a bool")
                        return "T" if v[1] else "F"
                    return ("other", rv[3])
                if rv[0] == "agg" and rv[1] == "adt":
                    return ("adt", rv[2].split("::")[-1] + "::" + str(rv[3]))
                if rv[0] == "use":
                    v = read_op(rv[1])
                    if v[0] == "bool":
                        return "T" if v[1] else "F"
                    if v[0] == "int":
                        return ("int", v[1])
                raise Undecided("result assigned from %s" % rv[0])
            if dst[1]:
                continue
            try:
                if rv[0] == "discr":
                    key, rest = resolve(rv[1])
                    if rest:
                        raise Undecided("discriminant of a projected place")
                    env[dst[0]] = ("int", discr_val(abstract(key)))
                elif rv[0] == "use":
                    env[dst[0]] = read_op(rv[1])
                elif rv[0] == "un" and rv[1] == "Not":
                    v = read_op(rv[2])
                    if v[0] == "bool":
                        env[dst[0]] = ("bool", not v[1])
                elif rv[0] == "bin" and rv[1] in ("BitXor", "BitAnd", "BitOr", "Eq", "Ne"):
                    a, b_ = read_op(rv[2]), read_op(rv[3])
                    if a[0] == "bool" and b_[0] == "bool":
                        f = {"BitXor": lambda x, y: x ^ y, "BitAnd": lambda x, y: x and y, "BitOr": lambda x, y: x or y,
                             "Eq": lambda x, y: x == y, "Ne": lambda x, y: x != y}[rv[1]]
                        env[dst[0]] = ("bool", bool(f(a[1], b_[1])))
            except Undecided:
                # a statement that moves operands around (drop flags, moves into the tuple) is irrelevant unless read later
                env.pop(dst[0], None)
        t = blk["t"]
        if t[0] == "goto":
            bb = t[1]
        elif t[0] == "drop":
            bb = t[2]
        elif t[0] == "switch":
            v = read_op(t[1])
            if v[0] == "slot":
                raise Undecided("switch on a whole operand")
            val = int(v[1]) if v[0] == "bool" else v[1]
            nxt = t[3]
            for c, tb in t[2]:
                if c == val:
                    nxt = tb
            bb = nxt
        elif t[0] == "call" and stop_at_call:
            return ("call", t[1].get("r") or t[1].get("d") or "?")
        else:
            raise Undecided("decision tree reaches a `%s` terminator in bb%d before producing the result" % (t[0], bb))
    raise Undecided("too many steps")


def operator_arm(body, adt_suffix, variant_discr):
    """start block of the arm for `variant_discr` of the switch on `<expr>.operator` (field of the AST node `adt_suffix`)"""
    for bi, blk in enumerate(body.blocks):
        t = blk["t"]
        if t[0] != "switch":
            continue
        l = op_local(t[1])
        sd = body.single_def(l) if l is not None else None
        if not (sd and sd[2] == "assign" and sd[3][2][0] == "discr"):
            continue
        proj = sd[3][2][1][1]
        if proj and isinstance(proj[-1], list) and proj[-1][0] == "f" and proj[-1][2] == "operator" and str(proj[-1][3]).endswith(adt_suffix):
            for c, tb in t[2]:
                if c == variant_discr:
                    return tb
            return t[3]
    return None


def tuple_local(body, start):
    for st in body.blocks[start]["s"]:
        if st[0] == "a" and st[2][0] == "agg" and st[2][1] == "tuple" and not st[1][1]:
            return st[1][0]
    return None


def scrutinee_local(body, start):
    """local whose discriminant the arm's first block reads (single-operand match)"""
    for st in body.blocks[start]["s"]:
        if st[0] == "a" and st[2][0] == "discr" and not st[2][1][1]:
            return st[2][1][0]
    return None
