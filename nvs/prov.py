"""PROV: flow-insensitive (per body) provenance tags over MIR locals, with
parameter tags resolved through callers on demand.

tags(local) = union over all definitions of the local.  Sources are supplied by
callbacks; calls propagate the tags of their arguments to their destination and
to locals they receive by `&mut` (conservative may-analysis).
"""
from .facts import op_const, op_local, rvalue_operands

ARITH_OPS = {"Add", "Sub", "Mul", "Div", "Rem", "Shl", "Shr", "AddWithOverflow", "SubWithOverflow", "MulWithOverflow",
             "AddUnchecked", "SubUnchecked", "MulUnchecked", "BitOr", "BitAnd", "BitXor"}


class Taint:
    def __init__(self, body, call_tag=None, field_tag=None, binop_tag=None, const_tag=None, param_tag=True,
                 call_passthrough=None, cast_tag=None):
        """call_tag(call)->iterable of tags for the call's result (and None for 'no opinion');
        field_tag(field, adt)->tags for a read of that field; binop_tag(op, ty)->tags;
        call_passthrough(call)->bool: do argument tags flow to the result (default True)."""
        self.body = body
        self.call_tag = call_tag
        self.field_tag = field_tag
        self.binop_tag = binop_tag
        self.const_tag = const_tag
        self.cast_tag = cast_tag
        self.call_passthrough = call_passthrough
        self.tags = {}
        if param_tag:
            for i in range(1, body.argc + 1):
                self.tags[i] = {"param:%d" % i}
        self._solve()

    def of_local(self, l):
        return self.tags.get(l, set())

    def of_place(self, pl):
        t = set(self.of_local(pl[0]))
        if self.field_tag:
            for p in pl[1]:
                if isinstance(p, list) and p[0] == "f":
                    ft = self.field_tag(p[2], p[3])
                    if ft:
                        t |= set(ft)
                elif isinstance(p, list) and p[0] == "i":
                    pass
        return t

    def of_operand(self, op):
        if op[0] in ("c", "m"):
            return self.of_place(op[1])
        if op[0] == "k" and self.const_tag:
            ct = self.const_tag(op[1])
            if ct:
                return set(ct)
        return set()

    def _add(self, l, tags):
        if not tags:
            return False
        cur = self.tags.setdefault(l, set())
        n = len(cur)
        cur |= tags
        return len(cur) != n

    def _solve(self):
        b = self.body
        changed = True
        rounds = 0
        while changed and rounds < 50:
            changed = False
            rounds += 1
            for bi, blk in enumerate(b.blocks):
                if blk["c"]:
                    continue
                for st in blk["s"]:
                    if st[0] != "a":
                        continue
                    rv = st[2]
                    k = rv[0]
                    t = set()
                    if k in ("ref", "rawptr"):
                        t |= self.of_place(rv[2] if k == "ref" else rv[1])
                    elif k == "discr":
                        t |= self.of_place(rv[1])
                    else:
                        for op in rvalue_operands(rv):
                            t |= self.of_operand(op)
                        if k == "bin" and self.binop_tag:
                            bt = self.binop_tag(rv[1], rv[4])
                            if bt:
                                t |= set(bt)
                        if k == "cast" and self.cast_tag:
                            ct = self.cast_tag(rv[1], rv[3], rv[4])
                            if ct:
                                t |= set(ct)
                    if self._add(st[1][0], t):
                        changed = True
                    # writing through a reference local `(*_x) = v`: taint what _x points to as well
                    if st[1][1] and st[1][1][0] == "*":
                        o = b.origin(st[1][0])
                        if o and o[0] == "place":
                            if self._add(o[1][0], t):
                                changed = True
                term = blk["t"]
                if term[0] == "call":
                    c = b.call_at(bi)
                    if c is None:
                        continue
                    t = set()
                    ct = self.call_tag(c) if self.call_tag else None
                    if ct:
                        t |= set(ct)
                    passthrough = True if self.call_passthrough is None else self.call_passthrough(c)
                    argt = set()
                    for a in c.args:
                        argt |= self.of_operand(a)
                    if passthrough:
                        t |= argt
                    if self._add(c.dest[0], t):
                        changed = True
                    # &mut arguments may be written by the callee
                    if passthrough and (argt or ct):
                        for a in c.args:
                            l = op_local(a)
                            if l is None:
                                continue
                            ty = b.local_ty(l)
                            if ty.startswith("&") and "mut " in ty[:12]:
                                o = b.origin(l)
                                if o and o[0] == "place" and not o[1][1]:
                                    if self._add(o[1][0], argt | (set(ct) if ct else set())):
                                        changed = True
                                elif o is None or o[0] in ("rv",):
                                    pass
                                # reborrow chains resolved by origin() already


def param_tags_via_callers(facts, body, param, analyse, depth=3, _seen=None):
    """Resolve the tags a parameter may carry by analysing every call site of `body`.
    analyse(caller_body) -> Taint.  Returns set of tags (with 'param:*' expanded up to depth)."""
    _seen = _seen or set()
    key = (body.id, param)
    if key in _seen or depth < 0:
        return {"unknown-caller"}
    _seen.add(key)
    out = set()
    callers = facts.callers().get(body.id, ())
    if not callers:
        return {"entry-param"}
    for cid in sorted(callers):
        cb = facts.bodies.get(cid)
        if cb is None:
            continue
        t = analyse(cb)
        for c in cb.calls():
            if body.id not in facts.call_targets(c):
                continue
            if param - 1 >= len(c.args):
                continue
            tags = t.of_operand(c.args[param - 1])
            for tg in tags:
                if tg.startswith("param:"):
                    out |= param_tags_via_callers(facts, cb, int(tg.split(":")[1]), analyse, depth - 1, _seen)
                else:
                    out.add(tg)
            if not tags:
                out.add("untagged")
    return out
