"""DIRTY: interprocedural "written but not yet synced" summaries.

For a set of write primitives W and sync primitives S (function ids):
  M(F)  must-sync : every success path through F passes a call that must-syncs
  D(F)  may-end-dirty : some success path of F ends after a dirtying call with no
        must-sync call after it.
A call site is an M-site when *all* its possible targets are M, a D-site when
*any* target is D.  Closures passed as arguments are treated as called.
M is a least fixpoint from S; D is a least fixpoint from W given M.
"""
from . import paths
from .facts import op_const, op_local


class Dirty:
    def __init__(self, facts, write_prims, sync_prims, reach_prims=None):
        self.facts = facts
        self.W = set(write_prims)
        self.S = set(sync_prims)
        self.M = set(self.S)
        self.D = set(self.W)
        self._targets = {}
        reach = paths.Reach(facts, reach_prims or (self.W | self.S))
        self.cands = [i for i in reach.reaching if i in facts.bodies]
        self._fail = {}
        self._fix_M()
        self._fix_D()

    # ------------------------------------------------------------------
    def targets(self, call):
        key = (call.body.id, call.bb)
        t = self._targets.get(key)
        if t is None:
            t = list(self.facts.call_targets(call))
            for a in call.args:
                k = op_const(a)
                if k and k.get("fn"):
                    t.append(k["fn"])
            for cb in paths.closure_bodies_passed(self.facts, call):
                t.append(cb.id)
            self._targets[key] = t
        return t

    def is_M_site(self, call):
        if call.name in self.S or call.declared in self.S:
            return True
        t = [x for x in self.facts.call_targets(call)]
        return bool(t) and all(x in self.M for x in t)

    def is_D_site(self, call):
        if call.name in self.W or call.declared in self.W:
            return True
        return any(x in self.D for x in self.targets(call))

    def fail(self, body):
        f = self._fail.get(body.id)
        if f is None:
            f = paths.fail_blocks(body)
            self._fail[body.id] = f
        return f

    def _must(self, body):
        msites = {c.bb for c in body.calls() if self.is_M_site(c)}
        if not msites:
            return False
        seen = body.reachable([0], avoid=msites | self.fail(body))
        if 0 in msites:
            return True
        return not any(b in seen for b in body.return_blocks())

    def _fix_M(self):
        changed = True
        while changed:
            changed = False
            for i in self.cands:
                if i in self.M:
                    continue
                if self._must(self.facts.bodies[i]):
                    self.M.add(i)
                    changed = True

    def dirty_sites_at_exit(self, body):
        """D-sites from which a success return is reachable without a later M-site"""
        out = []
        msites = {c.bb for c in body.calls() if self.is_M_site(c)}
        fb = self.fail(body)
        rets = set(body.return_blocks())
        for c in body.calls():
            if not self.is_D_site(c):
                continue
            if c.target is None:
                continue
            starts = [c.target] if c.target not in (msites | fb) else []
            seen = body.reachable(starts, avoid=msites | fb) if starts else set()
            if seen & rets:
                out.append(c)
        return out

    def _fix_D(self):
        changed = True
        while changed:
            changed = False
            for i in self.cands:
                if i in self.D:
                    continue
                if self.dirty_sites_at_exit(self.facts.bodies[i]):
                    self.D.add(i)
                    changed = True

    # ------------------------------------------------------------------
    def dirty_before(self, body, at_blocks):
        """D-sites that can reach one of `at_blocks` on a success path with no M-site in between.
        (The D-site may itself be an M-site that ends dirty: sync-then-write.)"""
        msites = {c.bb for c in body.calls() if self.is_M_site(c)}
        fb = self.fail(body)
        out = []
        at = set(at_blocks)
        for c in body.calls():
            if not self.is_D_site(c) or c.target is None:
                continue
            if c.bb in at:
                continue
            avoid = (msites | fb) - at
            if c.target in avoid:
                continue
            seen = body.reachable([c.target], avoid=avoid)
            if seen & at:
                out.append(c)
        return out

    def explain(self, fn_id, depth=6):
        """chain of calls showing why fn ends dirty"""
        chain = []
        cur = fn_id
        for _ in range(depth):
            if cur in self.W:
                chain.append(cur)
                break
            b = self.facts.bodies.get(cur)
            if b is None:
                chain.append(cur)
                break
            ds = self.dirty_sites_at_exit(b)
            if not ds:
                chain.append(cur)
                break
            c = ds[-1]
            chain.append("%s @%s" % (cur, c.loc()))
            nxt = None
            for t in self.targets(c):
                if t in self.D:
                    nxt = t
                    break
            if nxt is None:
                break
            cur = nxt
        return chain
