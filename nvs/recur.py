"""RECUR: recursion cycles and depth-guard idioms."""
from . import paths
from .facts import op_local, op_const


def sccs(nodes, succ):
    """Tarjan; returns list of SCCs (lists), only non-trivial ones (size>1 or self loop)."""
    index = {}
    low = {}
    on = set()
    stack = []
    out = []
    counter = [0]
    for root in nodes:
        if root in index:
            continue
        work = [(root, iter(succ(root)))]
        index[root] = low[root] = counter[0]
        counter[0] += 1
        stack.append(root)
        on.add(root)
        while work:
            v, it = work[-1]
            adv = False
            for w in it:
                if w not in index:
                    index[w] = low[w] = counter[0]
                    counter[0] += 1
                    stack.append(w)
                    on.add(w)
                    work.append((w, iter(succ(w))))
                    adv = True
                    break
                elif w in on:
                    low[v] = min(low[v], index[w])
            if adv:
                continue
            work.pop()
            if work:
                u = work[-1][0]
                low[u] = min(low[u], low[v])
            if low[v] == index[v]:
                comp = []
                while True:
                    w = stack.pop()
                    on.discard(w)
                    comp.append(w)
                    if w == v:
                        break
                if len(comp) > 1 or v in set(succ(v)):
                    out.append(sorted(comp))
    return out


CMP = {"Gt", "Ge", "Lt", "Le"}


def field_counter_guard(body, facts=None, rec_targets=None):
    """idiom (i): a field of `self` is incremented and decremented in this function and compared against a bound,
    with an error exit reachable from the comparison. Returns field name or None."""
    inc, dec, cmpf = set(), set(), set()
    for blk in body.blocks:
        if blk["c"]:
            continue
        for st in blk["s"]:
            if st[0] != "a":
                continue
            rv = st[2]
            if rv[0] == "bin":
                op = rv[1]
                for o in (rv[2], rv[3]):
                    if o[0] in ("c", "m"):
                        fs = [p[2] for p in o[1][1] if isinstance(p, list) and p[0] == "f"]
                        l = op_local(o)
                        srcf = fs[-1] if fs else _field_of_local(body, l)
                        if srcf:
                            if op.startswith("Add"):
                                inc.add(srcf)
                            elif op.startswith("Sub"):
                                dec.add(srcf)
                            elif op in CMP:
                                cmpf.add(srcf)
        t = blk["t"]
        if t[0] == "call":
            n = t[1].get("d", "")
            if n.endswith("saturating_add") or n.endswith("checked_add") or n.endswith("wrapping_add"):
                f = _field_of_operand(body, t[2][0]) if t[2] else None
                if f:
                    inc.add(f)
            if n.endswith("saturating_sub") or n.endswith("checked_sub") or n.endswith("wrapping_sub"):
                f = _field_of_operand(body, t[2][0]) if t[2] else None
                if f:
                    dec.add(f)
    g = inc & dec & cmpf
    if not (g and paths.fail_blocks(body)):
        return None
    # the counter must stay raised across the recursive descent: some call is reachable from an increment without
    # passing a decrement, and a decrement is reachable after that call
    inc_b, dec_b = _blocks_touching(body, sorted(g)[0])
    calls = [c for c in body.calls() if c.target is not None and (rec_targets is None or any(t in rec_targets for t in _targets(facts, c)))]
    for ib in inc_b:
        seen = body.reachable([ib], avoid=[d for d in dec_b if d != ib])
        for c in calls:
            if c.bb in seen and c.bb not in dec_b:
                after = body.reachable([c.target])
                if any(d in after for d in dec_b):
                    return sorted(g)[0]
    return None


def _targets(facts, c):
    return facts.call_targets(c) if facts is not None else [c.name]


def _blocks_touching(body, field):
    """(blocks that add to the field, blocks that subtract from it)"""
    inc_b, dec_b = set(), set()
    for bi, blk in enumerate(body.blocks):
        if blk["c"]:
            continue
        for st in blk["s"]:
            if st[0] == "a" and st[2][0] == "bin":
                op = st[2][1]
                for o in (st[2][2], st[2][3]):
                    if o[0] in ("c", "m"):
                        fs = [p[2] for p in o[1][1] if isinstance(p, list) and p[0] == "f"]
                        srcf = fs[-1] if fs else _field_of_local(body, op_local(o))
                        if srcf == field:
                            if op.startswith("Add"):
                                inc_b.add(bi)
                            elif op.startswith("Sub"):
                                dec_b.add(bi)
        t = blk["t"]
        if t[0] == "call" and t[2]:
            n = t[1].get("d", "")
            if _field_of_operand(body, t[2][0]) == field:
                if n.endswith(("saturating_add", "checked_add", "wrapping_add")):
                    inc_b.add(bi)
                if n.endswith(("saturating_sub", "checked_sub", "wrapping_sub")):
                    dec_b.add(bi)
    return inc_b, dec_b


def _field_of_operand(body, op):
    if op[0] in ("c", "m"):
        fs = [p[2] for p in op[1][1] if isinstance(p, list) and p[0] == "f"]
        if fs:
            return fs[-1]
        return _field_of_local(body, op[1][0])
    return None


def _field_of_local(body, l):
    if l is None:
        return None
    o = body.origin(l)
    if o and o[0] == "place":
        fs = [p[2] for p in o[1][1] if isinstance(p, list) and p[0] == "f"]
        return fs[-1] if fs else None
    return None


def depth_param_guard(facts, body):
    """idiom (ii): an integer parameter is compared against a bound with an error exit, and every recursive call passes
    `param + k` (k>0) in that position. Returns the parameter index or None."""
    for p in range(1, body.argc + 1):
        ty = body.local_ty(p)
        if ty not in ("usize", "u32", "u64", "u16", "u8", "i32", "i64"):
            continue
        compared = False
        for blk in body.blocks:
            for st in blk["s"]:
                if st[0] == "a" and st[2][0] == "bin" and st[2][1] in CMP | {"Eq"}:
                    for o in (st[2][2], st[2][3]):
                        l = op_local(o)
                        if l == p or (l is not None and _copy_of(body, l) == p):
                            compared = True
        if not compared or not paths.fail_blocks(body):
            continue
        ok = True
        nrec = 0
        for c in body.calls():
            if body.id in facts.call_targets(c):
                nrec += 1
                if p - 1 >= len(c.args):
                    ok = False
                    continue
                l = op_local(c.args[p - 1])
                if l is None or not _is_param_plus(body, l, p):
                    ok = False
        if ok and nrec:
            return p
    return None


def _copy_of(body, l):
    sd = body.single_def(l)
    if sd and sd[2] == "assign" and sd[3][2][0] == "use":
        return op_local(sd[3][2][1])
    return None


def _is_param_plus(body, l, p, depth=5):
    for _ in range(depth):
        sd = body.single_def(l)
        if not sd:
            return False
        bi, si, kind, st = sd
        if kind == "call":
            c = body.call_at(bi)
            if c and (c.name.endswith("checked_add") or c.name.endswith("saturating_add")) and c.args:
                l0 = op_local(c.args[0])
                return l0 == p or _copy_of(body, l0) == p
            return False
        rv = st[2]
        if rv[0] == "bin" and rv[1].startswith("Add"):
            l0 = op_local(rv[2])
            return l0 == p or (l0 is not None and _copy_of(body, l0) == p)
        if rv[0] == "use":
            pl = rv[1][1] if rv[1][0] in ("c", "m") else None
            if pl is None:
                return False
            l = pl[0]  # e.g. `(_5.0)` of a checked-add pair
            continue
        return False
    return False
