"""WITNESS: run the compile-fail doctests (and their compiling twins) of /verif/witness against /repo's current sources."""
import os
import re
import shutil
import subprocess

from . import extract

WDIR = os.path.join(extract.VERIF, "witness")


def run(names):
    """names: list of witness struct names. returns {name: (n_ok, n_failed, detail)}"""
    shutil.copyfile(os.path.join(extract.REPO, "Cargo.lock"), os.path.join(WDIR, "Cargo.lock"))
    env = dict(os.environ, CARGO_TARGET_DIR=os.path.join(extract.CACHE, "witness-target"), CARGO_NET_OFFLINE="true")
    env.pop("RUSTC_WORKSPACE_WRAPPER", None)
    env.pop("RUSTFLAGS", None)
    r = subprocess.run(["cargo", "+nightly", "test", "--doc", "--offline"], cwd=WDIR, env=env, stdout=subprocess.PIPE, stderr=subprocess.STDOUT, text=True)
    out = {}
    for n in names:
        ok = len(re.findall(r"test src/lib\.rs - %s \(line \d+\)[^\n]*\.\.\. ok" % re.escape(n), r.stdout))
        bad = len(re.findall(r"test src/lib\.rs - %s \(line \d+\)[^\n]*\.\.\. FAILED" % re.escape(n), r.stdout))
        out[n] = (ok, bad, "" if (ok >= 2 and bad == 0) else r.stdout[-1500:])
    return out
