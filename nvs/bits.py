"""BITS — a bit-width bound domain for signed integer arithmetic.

bits(body, operand, ty) returns B such that the operand's value is known to fit a signed B-bit integer
(-2^(B-1) <= v < 2^(B-1)).  The bound comes from the *shape* of the definition only: constants, widening
casts / `From` conversions from narrower types, getters whose return type is narrow, `% const`, `rem_euclid(const)`,
and sums / products of such values.  It never looks at branch conditions, so it is path-insensitive and sound:
a value it cannot bound gets the full width of its type.

op_safe(...) says whether a raw `+ - *` / unary minus on a signed type can overflow given those bounds.
"""
import re

from .facts import op_local

_W = {"i8": 8, "i16": 16, "i32": 32, "i64": 64, "i128": 128, "isize": 64,
      "u8": 9, "u16": 17, "u32": 33, "u64": 65, "u128": 129, "usize": 65, "bool": 2, "char": 22}
_NUM = re.compile(r"^(-?[0-9_]+)(?:_?[iu](?:8|16|32|64|128|size))?$")


def width(ty):
    """signed bits needed for any value of integer type `ty` (unsigned N -> N+1)"""
    return _W.get((ty or "").strip(), 129)


def const_bits(k):
    v = k.get("v")
    if v is None:
        m = _NUM.match((k.get("d") or "").strip())
        if not m:
            return width(k.get("ty"))
        v = int(m.group(1).replace("_", ""))
    if isinstance(v, bool):
        return 2
    if not isinstance(v, int):
        return width(k.get("ty"))
    # rustc prints scalar ints as unsigned bit patterns for some types; reinterpret when the type is signed
    ty = k.get("ty") or ""
    if ty in ("i8", "i16", "i32", "i64", "i128", "isize") and v >= 0:
        w = width(ty)
        if v >= 1 << (w - 1):
            v -= 1 << w
    b = 1
    while not (-(1 << (b - 1)) <= v < (1 << (b - 1))):
        b += 1
    return b


def bits(body, op, ty, depth=12, _seen=None):
    """signed-bit bound of operand `op` whose static type is `ty`"""
    W = width(ty)
    if depth <= 0:
        return W
    if op[0] == "k":
        return min(W, const_bits(op[1]))
    if op[0] not in ("c", "m"):
        return W
    pl = op[1]
    l, proj = pl[0], pl[1]
    if proj:
        # (_t.0) of a checked-arithmetic tuple
        if len(proj) == 1 and isinstance(proj[0], list) and proj[0][0] == "f" and proj[0][1] == 0:
            sd = body.single_def(l)
            if sd and sd[2] == "assign" and sd[3][2][0] == "bin" and sd[3][2][1].endswith("WithOverflow"):
                return min(W, _rv_bits(body, sd[3][2], depth - 1, _seen))
        return W
    return local_bits(body, l, depth, _seen)


def local_bits(body, l, depth=12, _seen=None):
    ty = body.local_ty(l)
    W = width(ty)
    _seen = _seen or set()
    if l in _seen or depth <= 0:
        return W
    _seen = _seen | {l}
    sd = body.single_def(l)
    if not sd:
        return W
    if sd[2] == "call":
        c = body.call_at(sd[0])
        return min(W, _call_bits(body, c, depth - 1, _seen))
    if sd[2] != "assign":
        return W
    return min(W, _rv_bits(body, sd[3][2], depth - 1, _seen))


def _rv_bits(body, rv, depth, seen):
    k = rv[0]
    if k == "use":
        return bits(body, rv[1], _op_ty(body, rv[1]), depth, seen)
    if k == "cast":
        kind, src, fr, to = rv[1], rv[2], rv[3], rv[4]
        if kind == "IntToInt":
            sb = min(bits(body, src, fr, depth, seen), width(fr))
            wt = width(to)
            # value preserved iff it fits the target; an unsigned target also needs a non-negative source, which we do not know:
            # fall back to the target width unless the source is unsigned or the target is signed and wide enough
            if to.startswith("i") and sb <= wt:
                return sb
            if to.startswith("u") and fr.startswith("u") and sb <= wt:
                return sb
            return wt
        return width(to)
    if k == "bin":
        op, a, b, ty = rv[1], rv[2], rv[3], rv[4]
        W = width(ty)
        ba = bits(body, a, ty, depth, seen)
        bb = bits(body, b, ty, depth, seen)
        base = op.replace("WithOverflow", "")
        if base in ("Add", "Sub"):
            return min(W, max(ba, bb) + 1)
        if base == "Mul":
            return min(W, ba + bb)
        if base == "Div":
            # dividing by a constant c >= 2^k removes k bits
            if b[0] == "k":
                cb = const_bits(b[1])
                v = b[1].get("v")
                if isinstance(v, int) and not isinstance(v, bool) and v > 0 and cb >= 2:
                    return min(W, max(2, ba - (cb - 2)))
            return min(W, ba + 1)
        if base == "Rem":
            return min(W, ba, bb)
        if base == "BitAnd" and ty.startswith("u"):
            return min(W, ba, bb)
        if base == "Shr" and ty.startswith("u"):
            return min(W, ba)
        return W
    if k == "un":
        if rv[1] == "Neg":
            return min(width(rv[3]), bits(body, rv[2], rv[3], depth, seen) + 1)
        return width(rv[3])
    return 129


def _op_ty(body, op):
    if op[0] == "k":
        return op[1].get("ty")
    if op[0] in ("c", "m") and not op[1][1]:
        return body.local_ty(op[1][0])
    return None


def _call_bits(body, c, depth, seen):
    name = c.name
    short = name.split("::")[-1]
    dl = c.dest[0] if c.dest else None
    W = width(body.local_ty(dl)) if dl is not None else 129

    def arg(i):
        if i >= len(c.args):
            return W
        return bits(body, c.args[i], _op_ty(body, c.args[i]), depth, seen)

    if short == "from" and "core::convert::num::<impl core::convert::From<" in name:
        return min(W, arg(0))
    if short in ("rem_euclid",) and len(c.args) > 1:
        return min(W, arg(1))
    if short in ("abs", "unsigned_abs", "signum"):
        return min(W, arg(0) + 1)
    if short in ("min", "max") and "core::cmp::Ord" in name and len(c.args) == 2:
        return min(W, max(arg(0), arg(1)))
    if short == "clamp" and len(c.args) == 3:
        return min(W, max(arg(1), arg(2)))
    if short in ("div_euclid",):
        return min(W, arg(0) + 1)
    return W


def op_safe(body, rv):
    """(safe, needed_bits, operand bits) for a raw signed Add/Sub/Mul/Neg rvalue"""
    if rv[0] == "un":
        ty = rv[3]
        a = bits(body, rv[2], ty)
        need = a + 1
        return need <= width(ty), need, (a,)
    op, a, b, ty = rv[1], rv[2], rv[3], rv[4]
    ba = bits(body, a, ty)
    bb = bits(body, b, ty)
    base = op.replace("WithOverflow", "")
    need = ba + bb if base == "Mul" else max(ba, bb) + 1
    return need <= width(ty), need, (ba, bb)
