"""LOCKS: lock acquisitions, guard lifetimes, held sets, lock-order graph.

Lock class = the lock's full type (`Mutex<Wal>`, `RwLock<Pager>` ...) — every
lock in the workspace has a distinct inner type, and Arc clones of a lock held
by snapshots fall into the same class.  The (ADT, field) of the receiver is
kept as a label.
"""
import re

from . import model as M
from .facts import op_local
from .mirutil import recv_field

UNWRAP_LIKE = ("::unwrap", "::expect", "::unwrap_or_else", "::map_err")


def lock_mode(name):
    if M.is_mutex_lock(name):
        return "lock"
    if M.is_rw_read(name):
        return "read"
    if M.is_rw_write(name):
        return "write"
    if name.endswith("Mutex::<T>::try_lock") or name.endswith("RwLock::<T>::try_read") or name.endswith("RwLock::<T>::try_write"):
        return "try"
    return None


_TY_RE = re.compile(r"std::sync::(?:poison::(?:mutex|rwlock)::)?(Mutex|RwLock)<(.*)>$")


def lock_class(body, call):
    """type-based class of the lock being acquired at `call`"""
    l = op_local(call.args[0]) if call.args else None
    ty = body.local_ty(l) if l is not None else ""
    ty = ty.lstrip("&").replace("'{erased} ", "").strip()
    if ty.startswith("mut "):
        ty = ty[4:]
    m = _TY_RE.search(ty)
    if m:
        inner = m.group(2)
        inner = re.sub(r"[A-Za-z_0-9]+::", "", inner)  # drop paths
        return "%s<%s>" % (m.group(1), inner)
    return ty


class Acq:
    __slots__ = ("body", "call", "mode", "cls", "label", "guards", "start", "releases", "region", "escapes")

    def __repr__(self):
        return "<acq %s %s @%s>" % (self.mode, self.cls, self.call.loc())


def _follow_guard(body, call):
    """Find the guard local(s): result of lock() passed through unwrap/expect and plain moves.
    Returns (set of locals, block where guard becomes live, escapes: True if moved into an aggregate/return)."""
    cur = op_local_place(call.dest)
    blk = call.target
    aliases = set()
    if cur is None or blk is None:
        return aliases, blk, False
    # through unwrap-like calls
    for _ in range(4):
        t = body.term(blk)
        if t[0] == "call" and t[2] and op_local(t[2][0]) == cur and any(t[1].get("d", "").endswith(s) for s in UNWRAP_LIKE):
            nxt = op_local_place(t[3])
            if nxt is None:
                # guard written into a projected place (struct field) -> escapes
                return aliases | {t[3][0]}, t[4], True
            cur = nxt
            blk = t[4]
            break
        elif t[0] == "goto":
            blk = t[1]
        else:
            break
    aliases.add(cur)
    escapes = False
    # plain moves / moves into aggregates
    changed = True
    while changed:
        changed = False
        for bi, b in enumerate(body.blocks):
            for st in b["s"]:
                if st[0] != "a":
                    continue
                rv = st[2]
                if rv[0] == "use" and op_local(rv[1]) in aliases and rv[1][0] == "m":
                    if not st[1][1]:
                        if st[1][0] not in aliases:
                            aliases.add(st[1][0])
                            changed = True
                    else:
                        escapes = True
                elif rv[0] == "agg":
                    for o in rv[4]:
                        if o[0] == "m" and op_local(o) in aliases:
                            escapes = True
                            if st[1][0] == 0 or not st[1][1]:
                                if st[1][0] not in aliases:
                                    aliases.add(st[1][0])
                                    changed = True
    return aliases, blk, escapes


def op_local_place(pl):
    if pl is not None and not pl[1]:
        return pl[0]
    return None


class BodyLocks:
    """Acquisitions and held regions of one body."""

    def __init__(self, body):
        self.body = body
        self.acqs = []
        for c in body.calls():
            mode = lock_mode(c.name)
            if mode is None or mode == "try":
                continue
            a = Acq()
            a.body = body
            a.call = c
            a.mode = mode
            a.cls = lock_class(body, c)
            a.label = recv_field(body, c, 0)
            a.guards, a.start, a.escapes = _follow_guard(body, c)
            rel = set()
            for bi, blk in enumerate(body.blocks):
                if blk["c"]:
                    continue
                t = blk["t"]
                if t[0] == "drop" and t[1][0] in a.guards and not t[1][1]:
                    rel.add(bi)
                elif t[0] == "call":
                    # guard moved into a callee (drop(guard), mem::drop)
                    for arg in t[2]:
                        if arg[0] == "m" and op_local(arg) in a.guards:
                            rel.add(bi)
            a.releases = rel
            if a.start is None:
                a.region = set()
            else:
                # held from `start` until (and including) a release block
                seen = set()
                work = [a.start]
                while work:
                    x = work.pop()
                    if x in seen:
                        continue
                    seen.add(x)
                    if x in rel:
                        continue
                    for s in body.succs(x):
                        if s not in seen:
                            work.append(s)
                a.region = seen
            self.acqs.append(a)

    def held_at(self, bb):
        """acquisitions that may be held when block bb's terminator executes"""
        return [a for a in self.acqs if bb in a.region and a.call.bb != bb]

    def must_hold(self, a, bb):
        """acquisition `a` is held on every path reaching bb"""
        b = self.body
        if bb not in a.region or a.start is None:
            return False
        if not b.dominates(a.start, bb):
            return False
        # not reachable from a release successor without re-passing the acquisition
        for r in a.releases:
            for s in b.succs(r):
                if bb in b.reachable([s], avoid=[a.call.bb]):
                    if r == bb:
                        continue
                    return False
        return True


class LockGraph:
    """Whole-program acquisition summaries and the lock-order graph."""

    def __init__(self, facts, entry_held=None):
        self.facts = facts
        self.bl = {}
        self.entry_held = entry_held or {}  # body id -> [(cls, mode, label)]
        self.direct = {}  # body id -> set of (cls, mode)
        for i, b in facts.bodies.items():
            if not i.startswith(("nervusdb", "<nervusdb")):
                continue
            if any(lock_mode(c.name) for c in b.calls()):
                self.bl[i] = BodyLocks(b)
                self.direct[i] = {(a.cls, a.mode) for a in self.bl[i].acqs}
        self._acq_star = {}
        self._compute_star()
        self.edges = []  # (held_cls, held_mode, acq_cls, acq_mode, body id, loc, via)
        self._build_edges()

    def locks_of(self, body_id):
        return self.bl.get(body_id)

    def _compute_star(self):
        F = self.facts
        star = {i: set(s) for i, s in self.direct.items()}
        ids = [i for i in F.bodies if i.startswith(("nervusdb", "<nervusdb"))]
        changed = True
        while changed:
            changed = False
            for i in ids:
                cur = star.get(i, set())
                n = len(cur)
                for y in F.callees(i):
                    s = star.get(y)
                    if s:
                        cur = cur | s
                if len(cur) != n:
                    star[i] = cur
                    changed = True
        self._acq_star = star

    def acq_star(self, body_id):
        return self._acq_star.get(body_id, set())

    def _site_targets(self, call):
        F = self.facts
        t = list(F.call_targets(call))
        from . import paths
        for cb in paths.closure_bodies_passed(F, call):
            t.append(cb.id)
        return t

    def _build_edges(self):
        F = self.facts
        for i, b in F.bodies.items():
            if not i.startswith(("nervusdb", "<nervusdb")):
                continue
            bl = self.bl.get(i)
            eh = self.entry_held.get(i) or (self.entry_held.get(b.root) if b.root else None) or []
            if bl is None and not eh:
                continue
            for c in b.calls():
                held = [(a.cls, a.mode, a.label) for a in (bl.held_at(c.bb) if bl else [])]
                held += list(eh)
                if not held:
                    continue
                mode = lock_mode(c.name)
                acquired = set()
                via = None
                if mode and mode != "try":
                    acquired.add((lock_class(b, c), mode))
                    via = "direct"
                else:
                    for t in self._site_targets(c):
                        s = self._acq_star.get(t)
                        if s:
                            acquired |= s
                            via = t
                for (hc, hm, hl) in held:
                    for (ac, am) in acquired:
                        self.edges.append((hc, hm, ac, am, i, c.loc(), via))

    def order_pairs(self):
        """distinct (held_cls -> acq_cls) with example sites"""
        out = {}
        for (hc, hm, ac, am, i, loc, via) in self.edges:
            out.setdefault((hc, ac), []).append((hm, am, i, loc, via))
        return out

    def cycles(self):
        """simple cycles in the class graph (excluding self-loops), as lists of classes"""
        g = {}
        for (hc, ac) in self.order_pairs():
            if hc != ac:
                g.setdefault(hc, set()).add(ac)
        cycles = []
        seen_c = set()

        def dfs(start, cur, path, visited):
            for nx in sorted(g.get(cur, ())):
                if nx == start:
                    cyc = path[:]
                    k = min(range(len(cyc)), key=lambda j: cyc[j])
                    norm = tuple(cyc[k:] + cyc[:k])
                    if norm not in seen_c:
                        seen_c.add(norm)
                        cycles.append(list(norm))
                elif nx not in visited and nx > start:
                    dfs(start, nx, path + [nx], visited | {nx})

        for s in sorted(g):
            dfs(s, s, [s], {s})
        return cycles
