"""PATH / LAYER helpers: primitive reachability through the call graph, success
returns, ordering and dominance queries on one body's CFG."""
from .facts import op_const, op_local, rvalue_operands

FROM_RESIDUAL = "core::ops::try_trait::FromResidual::from_residual"
TRY_BRANCH = "core::ops::try_trait::Try::branch"


class Reach:
    """Set of bodies whose call closure reaches one of `prims` (ids). prims may be
    ids that have no body (std functions)."""

    def __init__(self, facts, prims, stop=()):
        self.facts = facts
        self.prims = set(prims)
        self.stop = set(stop)
        # reverse closure
        callers = facts.callers()
        seen = set(self.prims)
        work = list(self.prims)
        while work:
            x = work.pop()
            for y in callers.get(x, ()):
                if y not in seen and y not in self.stop:
                    seen.add(y)
                    work.append(y)
        self.reaching = seen

    def call_reaches(self, call):
        """does this call site (its targets, or closures / fn items passed to it) reach a primitive?"""
        for t in self.facts.call_targets(call):
            if t in self.reaching:
                return True
        if call.name in self.prims or call.declared in self.prims:
            return True
        for a in call.args:
            k = op_const(a)
            if k and k.get("fn") and k["fn"] in self.reaching:
                return True
            l = op_local(a)
            if l is not None:
                ty = call.body.local_ty(l)
                # closure value: type string names the closure def path
                if "{closure" in ty:
                    for cb in self.facts.closures_of(call.body.root or call.body.id):
                        if cb.id in self.reaching and cb.id.split("::")[-1] in ty and _closure_ty_matches(ty, cb.id):
                            return True
        return False

    def sites(self, body):
        return [c for c in body.calls() if self.call_reaches(c)]

    def path_from(self, call):
        for t in self.facts.call_targets(call):
            if t in self.prims:
                return [t]
            if t in self.reaching:
                p = self.facts.reaches(t, self.prims)
                if p:
                    return p
        return [call.name]


def _closure_ty_matches(ty, cid):
    # type strings look like `{closure@nervusdb-storage/src/engine.rs:332:40: 332:43}`; ids like `..::compact::{closure#0}`
    return True


def closure_bodies_passed(facts, call):
    """closure bodies (of the same root fn) whose value is passed as an argument at this call"""
    out = []
    body = call.body
    root = body.root or body.id
    cands = facts.closures_of(root)
    if not cands:
        return out
    for a in call.args:
        l = op_local(a)
        if l is None:
            continue
        # find aggregate creating the closure assigned to l
        for (bi, si, kind, st) in body.defs().get(l, []):
            if kind == "assign" and st[2][0] == "agg" and st[2][1] == "closure":
                cb = facts.bodies.get(st[2][2])
                if cb:
                    out.append(cb)
    return out


def fail_blocks(body):
    """blocks that lie on an error exit: `?` residual conversion, or `_0 = Err(..)`."""
    out = set()
    for i, blk in enumerate(body.blocks):
        if blk["c"]:
            continue
        t = blk["t"]
        if t[0] == "call" and (t[1].get("d") == FROM_RESIDUAL):
            out.add(i)
        for st in blk["s"]:
            if st[0] == "a" and st[1][0] == 0 and not st[1][1]:
                rv = st[2]
                if rv[0] == "agg" and rv[1] == "adt" and rv[2] == "core::result::Result" and rv[3] == "Err":
                    out.add(i)
    return out


def success_returns_reachable(body, start_blocks, avoid=()):
    """return blocks reachable from start_blocks on success paths that avoid `avoid` blocks"""
    fb = fail_blocks(body)
    seen = body.reachable(start_blocks, avoid=set(avoid) | fb)
    return [b for b in body.return_blocks() if b in seen]


def ok_arm(body, call):
    """Block that starts the Ok/Continue arm of a fallible call `x = f(..)` followed by `?` or a match.
    Returns None if the result is not branched on (e.g. `let _ =`)."""
    d = op_place_local(call.dest)
    if d is None or call.target is None:
        return None
    cur_local = d
    blk = call.target
    for _ in range(6):
        t = body.term(blk)
        # direct discriminant switch on the result
        sw = _discr_switch(body, blk, cur_local)
        if sw is not None:
            return sw
        if t[0] == "call" and t[1].get("d") == TRY_BRANCH and t[2] and op_local(t[2][0]) == cur_local:
            cur_local = op_place_local(t[3])
            blk = t[4]
            continue
        if t[0] == "call" and t[1].get("d", "").endswith("::map_err") and t[2] and op_local(t[2][0]) == cur_local:
            cur_local = op_place_local(t[3])
            blk = t[4]
            continue
        # simple moves `_b = move _a`
        moved = False
        for st in body.blocks[blk]["s"]:
            if st[0] == "a" and st[2][0] == "use" and op_local(st[2][1]) == cur_local and not st[1][1]:
                cur_local = st[1][0]
                moved = True
        if t[0] == "goto":
            blk = t[1]
            continue
        if not moved:
            return None
    return None


def _discr_switch(body, blk, local):
    """if block `blk` does `_x = discriminant(local); switchInt(_x)` return the target of value 0"""
    dl = None
    for st in body.blocks[blk]["s"]:
        if st[0] == "a" and st[2][0] == "discr" and st[2][1][0] == local and not st[2][1][1]:
            dl = st[1][0]
    t = body.term(blk)
    if dl is not None and t[0] == "switch" and op_local(t[1]) == dl:
        for v, tb in t[2]:
            if v == 0:
                return tb
        return t[3]
    return None


def op_place_local(pl):
    if pl and not pl[1]:
        return pl[0]
    return None


def always_between(body, from_blocks, to_blocks, via_blocks, success_only=True):
    """True iff every (success) path from any from_block to any to_block passes a via_block.
    Paths start *after* the from block's terminator and end *before* executing the to block."""
    avoid = set(via_blocks)
    if success_only:
        avoid |= fail_blocks(body)
    starts = []
    for f in from_blocks:
        for s in body.succs(f):
            if s not in avoid:
                starts.append(s)
    seen = body.reachable(starts, avoid=avoid)
    seen |= set(starts)
    return not (seen & set(to_blocks)), sorted(seen & set(to_blocks))


def callee_name_matches(call, names):
    return call.name in names or call.declared in names


def agg_variant_args(body, call, argi):
    """If argument `argi` of call is (a reference to) a freshly built enum value, return (adt, variant)."""
    if argi >= len(call.args):
        return None
    l = op_local(call.args[argi])
    if l is None:
        return None
    o = body.origin(l)
    if o and o[0] == "agg" and o[1][1] == "adt":
        return (o[1][2], o[1][3])
    return None
