"""MUST-GUARD: an operator that receives user expressions and runs the runtime-compatibility pre-pass somewhere must run
it on every path that can yield rows (only error exits may bypass it)."""
from . import evalguard, paths
from .facts import op_local

EXPR = "nervusdb_query::ast::Expression"


def has_guard(F, b, seen=None):
    seen = seen if seen is not None else set()
    if b.id in seen:
        return False
    seen.add(b.id)
    if any(evalguard.is_guard(c) for c in b.calls()):
        return True
    for cb in F.closures_of(b.root or b.id):
        if cb.parent == b.id and has_guard(F, cb, seen):
            return True
    return False


def guard_sites(F, b):
    gs = set()
    for c in b.calls():
        if evalguard.is_guard(c):
            gs.add(c.bb)
    kids = {cb.id for cb in F.closures_of(b.root or b.id) if cb.parent == b.id and has_guard(F, cb)}
    for bi, blk in enumerate(b.blocks):
        for st in blk["s"]:
            if st[0] == "a" and st[2][0] == "agg" and st[2][1] == "closure" and st[2][2] in kids:
                gs.add(bi)
    out = set(gs)
    for g in gs:
        h = evalguard._loop_header(b, g)
        if h is not None:
            out.add(h)
            # enclosing loops too
            for hh in range(len(b.blocks)):
                if hh != h and any(b.dominates(hh, p) for p in b.preds(hh)) and h in evalguard._loop_blocks(b, hh):
                    out.add(hh)
    return out


def error_once_blocks(b):
    errs = set()
    for c in b.calls():
        if c.name.endswith("iter::sources::once::once") and c.args:
            l = op_local(c.args[0])
            o = b.origin(l) if l is not None else None
            if o and o[0] == "agg" and o[1][3] == "Err":
                errs.add(c.bb)
    return errs


def operators(F, prefix="nervusdb_query::executor"):
    """root functions that take user expressions directly and contain the pre-pass"""
    out = []
    for i, b in sorted(F.bodies.items()):
        if not i.startswith(prefix) or b.kind == "closure" or "::tests::" in i:
            continue
        if (b.root or b.id) in evalguard.PREPASS_SELF:
            continue
        takes_expr = any(EXPR in b.local_ty(k) for k in range(1, b.argc + 1))
        # plan dispatchers (they take a `&Plan` and route to one operator per arm) are judged through the operators they call
        dispatcher = any("plan_types::Plan" in b.local_ty(k) and "Expression" not in b.local_ty(k) for k in range(1, b.argc + 1)) and \
            b.id.endswith(("execute_merge_with_rows_inner", "execute_write_with_rows", "execute_write", "execute_plan"))
        if takes_expr and not dispatcher and has_guard(F, b):
            out.append(b)
    return out


def unguarded_returns(F, b):
    gs = guard_sites(F, b)
    avoid = gs | error_once_blocks(b) | paths.fail_blocks(b)
    if 0 in gs:
        return []
    seen = b.reachable([0], avoid=avoid)
    return [r for r in b.return_blocks() if r in seen]
