"""EVALGUARD: the repository's pairing idiom — runtime type errors and the range()/collection limit are raised only by the
pre-pass `ensure_runtime_expression_compatible`; every evaluation of a user expression in executor::* must be preceded by it."""
from .facts import op_local

EVALS = ("evaluate_expression_value", "evaluate_expression_bool")
GUARDS = ("ensure_runtime_expression_compatible", "validate_aggregate_runtime_expressions",
          # wrappers that run the pre-pass over the same (rows, items) and propagate its error before anything else happens
          "execute_set", "execute_set_from_maps")
AGG_ROOT = "nervusdb_query::executor::projection_sort::execute_aggregate"
AGG_VALIDATE = "validate_aggregate_runtime_expressions"
PREPASS_SELF = ("nervusdb_query::executor::plan_mid::ensure_runtime_function_call_compatible",
                "nervusdb_query::executor::plan_mid::ensure_runtime_expression_compatible")


def is_eval(c):
    return c.name.split("::")[-1] in EVALS and "nervusdb_query::evaluator" in c.name


def is_guard(c):
    return c.name.split("::")[-1] in GUARDS


def closure_creation_block(parent, child_id):
    for bi, blk in enumerate(parent.blocks):
        for st in blk["s"]:
            if st[0] == "a" and st[2][0] == "agg" and st[2][1] == "closure" and st[2][2] == child_id:
                return bi
    return None


def guarded(facts, body, bb, depth=3, _seen=None):
    """is block `bb` of `body` preceded by the pre-pass on every path (through enclosing closures / callers)?"""
    _seen = _seen if _seen is not None else {}
    key = (body.id, bb)
    if key in _seen:
        return _seen[key]
    _seen[key] = False  # cycle guard
    r = _guarded(facts, body, bb, depth, _seen)
    _seen[key] = r
    return r


def _guarded(facts, body, bb, depth, _seen):
    for c in body.calls():
        if is_guard(c) and body.dominates(c.bb, bb) and c.bb != bb:
            return True
    # idiom: a loop that runs the pre-pass over every item, followed by the evaluation of the same items — valid only while the row
    # the items are evaluated on is the row the pre-pass saw: if the evaluating loop also mutates that row (SET overlays the assigned value
    # so that later items read it), a later item is evaluated on a state the pre-pass never checked
    for c in body.calls():
        if is_guard(c) and c.bb != bb:
            hdr = _loop_header(body, c.bb)
            if hdr is not None and body.dominates(hdr, bb) and bb not in _loop_blocks(body, hdr):
                if not _row_mutated_in_eval_loop(body, bb):
                    return True
    # idiom: aggregate folds evaluate, in phase 2, exactly the rows that phase 1 validated before storing them
    if body.id == AGG_ROOT:
        vs = [c for c in body.calls() if c.name.split("::")[-1] == AGG_VALIDATE]
        pushes = [c for c in body.calls() if c.name.endswith("Vec::<T, A>::push")]
        if vs and pushes and all(any(body.dominates(v.bb, p.bb) for v in vs) for p in pushes):
            return True
    if body.kind == "closure" and body.parent:
        p = facts.bodies.get(body.parent)
        if p is not None:
            cb = closure_creation_block(p, body.id)
            if cb is not None and guarded(facts, p, cb, depth, _seen):
                return True
    elif depth > 0:
        callers = [x for x in facts.callers().get(body.id, ()) if x.startswith("nervusdb_query::executor")]
        sites = []
        for cid in callers:
            cbody = facts.bodies[cid]
            for c in cbody.calls():
                if body.id in facts.call_targets(c):
                    sites.append((cbody, c.bb))
        if sites and all(guarded(facts, cbody, b2, depth - 1, _seen) for cbody, b2 in sites):
            return True
    return False


def _row_mutated_in_eval_loop(body, bb):
    from .mirutil import peel_refs
    ev = [c for c in body.calls() if c.bb == bb and is_eval(c)]
    if not ev or len(ev[0].args) < 2:
        return False
    rl = op_local(ev[0].args[1])
    root = peel_refs(body, rl) if rl is not None else None
    hdr = _loop_header(body, bb)
    if root is None or hdr is None:
        return False
    loop = _loop_blocks(body, hdr)
    for c in body.calls():
        if c.bb not in loop or is_eval(c) or is_guard(c):
            continue
        for a in c.args:
            l = op_local(a)
            if l is None:
                continue
            if body.local_ty(l).startswith("&mut") and peel_refs(body, l) == root:
                return True
    return False


def scan(facts, prefix="nervusdb_query::executor"):
    """[(body, call, guarded)] for every evaluation site under prefix"""
    out = []
    for i, b in sorted(facts.bodies.items()):
        if not i.startswith(prefix) or "::tests::" in i:
            continue
        root = b.root or b.id
        if root in PREPASS_SELF:
            continue
        for c in b.calls():
            if is_eval(c):
                out.append((b, c, guarded(facts, b, c.bb)))
    return out


def _loop_blocks(body, hdr):
    """blocks of the natural loop(s) headed by hdr"""
    out = {hdr}
    for p in body.preds(hdr):
        if body.dominates(hdr, p):
            # back edge p -> hdr
            work = [p]
            while work:
                x = work.pop()
                if x in out:
                    continue
                out.add(x)
                work.extend(body.preds(x))
    return out


def _loop_header(body, bb):
    """innermost loop header whose loop contains bb"""
    best = None
    for h in range(len(body.blocks)):
        if any(body.dominates(h, p) for p in body.preds(h)) and body.dominates(h, bb):
            if bb in _loop_blocks(body, h):
                if best is None or body.dominates(best, h):
                    best = h
    return best
