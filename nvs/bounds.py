"""BOUNDS: forward abstract interpretation of decoder bodies over MIR.

Domain: every integer local holds a linear form over symbols (symbols are created where a value is read from
the input or produced by an opaque call, and at control-flow joins where the incoming forms differ); the state
carries a set of facts `G >= 0` (G linear).  All symbols are unsigned quantities (lengths, offsets, counts),
hence >= 0.  Slices are represented by the linear form of their length.

Obligations: every range / element index into a tracked slice (`s[a..b]`, `s[a..]`, `s[..b]`, `s[i]`) and,
for contract functions, `consumed <= len(input)` at each `Ok((value, consumed))` return.  An obligation H >= 0
is discharged when H is a non-negative combination of facts, symbols and a non-negative constant (exact
rational arithmetic, greedy elimination with backtracking).  Sound, incomplete, no solver.

Joins: a local whose incoming forms differ gets a join symbol; each predecessor's facts are re-expressed over
the join symbols (sigma == incoming form on that edge, so G + k*(sigma - form) is equivalent to G for any k;
k is chosen to eliminate a characteristic symbol of the form, or from a small candidate set when the form is a
constant) and the translated sets are intersected.  Facts only disappear, so the iteration terminates.
Counted `for _ in a..b` loops are handled by modelling Range::next on its two outcomes.
"""
from fractions import Fraction

from .facts import op_const, op_local

INT_TYS = ("usize", "u8", "u16", "u32", "u64", "u128")
LEN_FN = "core::slice::<impl [T]>::len"
IS_EMPTY_FN = "core::slice::<impl [T]>::is_empty"
INDEX_FNS = ("core::slice::index::<impl core::ops::index::Index<I> for [T]>::index",
             "core::slice::index::<impl core::ops::index::IndexMut<I> for [T]>::index_mut",
             "core::array::<impl core::ops::index::Index<I> for [T; N]>::index",
             "core::array::<impl core::ops::index::IndexMut<I> for [T; N]>::index_mut")
RANGE_ADTS = {"core::ops::range::Range": "range", "core::ops::range::RangeFrom": "from", "core::ops::range::RangeTo": "to"}
TRY_BRANCH = "core::ops::try_trait::Try::branch"
MAX_FACTS = 1500


class Lin:
    __slots__ = ("c", "t")

    def __init__(self, c=0, t=None):
        self.c = c
        self.t = {k: v for k, v in (t or {}).items() if v != 0}

    def key(self):
        return (self.c, tuple(sorted(self.t.items())))

    def __eq__(self, o):
        return isinstance(o, Lin) and self.c == o.c and self.t == o.t

    def __repr__(self):
        return "Lin%r" % (self.key(),)

    def rename(self, m):
        if not any(s in m for s in self.t):
            return self
        t = {}
        for s, v in self.t.items():
            s2 = m.get(s, s)
            t[s2] = t.get(s2, 0) + v
        return Lin(self.c, t)

    def __hash__(self):
        return hash(self.key())

    def add(self, o, k=1):
        t = dict(self.t)
        for s, v in o.t.items():
            t[s] = t.get(s, 0) + k * v
        return Lin(self.c + k * o.c, t)

    def scale(self, k):
        return Lin(self.c * k, {s: v * k for s, v in self.t.items()})

    def is_const(self):
        return not self.t

    def nonneg(self):
        return self.c >= 0 and all(v >= 0 for v in self.t.values())

    def show(self, names):
        parts = []
        for s, v in sorted(self.t.items()):
            n = names.get(s, "s%d" % s)
            parts.append(("%s" % n) if v == 1 else ("-%s" % n if v == -1 else "%s*%s" % (v, n)))
        if self.c or not parts:
            parts.append(str(self.c))
        return " + ".join(parts).replace("+ -", "- ")


def sym(s):
    return Lin(0, {s: 1})


_PROVE_CACHE = {}


def prove(H, facts, depth=None):
    """H >= 0 follows from the facts (each G >= 0) and non-negativity of all symbols iff there are multipliers
    mu_i >= 0 with H - sum mu_i*G_i having only non-negative coefficients (Farkas).  Cheap syntactic paths first,
    then an exact fraction-free phase-1 simplex (Bland's rule) restricted to the facts connected to H's symbols."""
    if H.nonneg():
        return True
    facts = [g for g in facts if g.t]
    hk = H.key()
    for g in facts:
        # H - G non-negative: one fact suffices
        ok = H.c - g.c >= 0
        if ok:
            for s, v in g.t.items():
                if H.t.get(s, 0) - v < 0:
                    ok = False
                    break
            if ok:
                for s, v in H.t.items():
                    if s not in g.t and v < 0:
                        ok = False
                        break
        if ok:
            return True
    rel = set(H.t)
    chosen = []
    pool = list(facts)
    while True:
        rest = []
        grew = False
        for g in pool:
            if any(s in rel for s in g.t):
                chosen.append(g)
                rel |= set(g.t)
                grew = True
            else:
                rest.append(g)
        pool = rest
        if not grew:
            break
    if not chosen:
        return False
    ck = (hk, frozenset(g.key() for g in chosen))
    r = _PROVE_CACHE.get(ck)
    if r is not None:
        return r
    chosen = sorted(chosen, key=lambda g: (len(g.t), g.key()))[:160]
    rows = sorted(rel) + [None]
    m = len(rows)
    n = len(chosen)
    A = [[(g.t.get(r, 0) if r is not None else g.c) for g in chosen] for r in rows]
    bvec = [(H.t.get(r, 0) if r is not None else H.c) for r in rows]
    r = _feasible(A, bvec, m, n)
    if len(_PROVE_CACHE) < 200000:
        _PROVE_CACHE[ck] = r
    return r


def _feasible(A, b, m, n):
    """exists x >= 0 with A x <= b ?  Integer (fraction-free) phase-1 simplex with Bland's rule."""
    art_rows = [i for i in range(m) if b[i] < 0]
    if not art_rows:
        return True
    na = len(art_rows)
    ncols = n + m + na
    T = []
    basis = []
    for i in range(m):
        row = list(A[i]) + [0] * m + [0] * na
        row[n + i] = 1
        rhs = b[i]
        if rhs < 0:
            row = [-v for v in row]
            rhs = -rhs
            k = art_rows.index(i)
            row[n + m + k] = 1
            basis.append(n + m + k)
        else:
            basis.append(n + i)
        T.append(row + [rhs])
    cost = [0] * (ncols + 1)
    for i in art_rows:
        ri = T[i]
        for j in range(ncols + 1):
            cost[j] -= ri[j]
    for k in range(na):
        cost[n + m + k] = 0
    D = 1  # common denominator of the tableau (all entries are integers, true value = entry / D)
    for _ in range(4000):
        ent = None
        for j in range(ncols):
            if cost[j] < 0:
                ent = j
                break
        if ent is None:
            break
        lv = None
        bn = bd = None
        for i in range(m):
            a = T[i][ent]
            if a > 0:
                # ratio T[i][rhs] / a ; compare by cross-multiplication
                num = T[i][ncols]
                if lv is None or num * bd < bn * a or (num * bd == bn * a and basis[i] < basis[lv]):
                    lv, bn, bd = i, num, a
        if lv is None:
            break
        piv = T[lv][ent]
        prow = T[lv]
        for i in range(m):
            if i != lv:
                f = T[i][ent]
                ri = T[i]
                if f != 0:
                    T[i] = [(piv * v - f * w) // D for v, w in zip(ri, prow)]
                else:
                    T[i] = [(piv * v) // D for v in ri]
        f = cost[ent]
        cost = [(piv * v - f * w) // D for v, w in zip(cost, prow)]
        D = piv
        basis[lv] = ent
    return cost[ncols] == 0


class Oblig:
    def __init__(self, kind, bb, line, desc, H, ordinal):
        self.kind = kind
        self.bb = bb
        self.line = line
        self.desc = desc
        self.H = H
        self.ordinal = ordinal
        self.ok = None
        self.facts_shown = []


class Analyzer:
    def __init__(self, facts, body, slice_params=None, contract_fns=(), check_return_contract=False, stride_consts=(1, 2, 4, 8, 16)):
        self.F = facts
        self.b = body
        self.names = {}
        self._symkeys = {}
        self.contract_fns = set(contract_fns)
        self.check_return_contract = check_return_contract
        self.stride_consts = tuple(stride_consts)
        self.phi = {}  # bb -> set of (local, component)
        self.obligs = {}
        self._cand = {}
        self.converged = True
        self.param_len = {}
        self.entry_env = {}
        for i in range(1, body.argc + 1):
            ty = body.local_ty(i)
            if ty.startswith("&") and ("[u8]" in ty or "[u8;" in ty):
                import re as _re
                m = _re.search(r"\[u8; (\d+)\]", ty)
                s = self.newsym(("len", i), "len(%s)" % (body.local_name(i) or "_%d" % i))
                self.param_len[i] = s
                if m:
                    # fixed-size array: the length is the constant N
                    self.entry_env[i] = ("slice", Lin(int(m.group(1))))
                else:
                    self.entry_env[i] = ("slice", sym(s))
            elif ty in INT_TYS:
                s = self.newsym(("param", i), body.local_name(i) or "_%d" % i)
                self.entry_env[i] = ("lin", sym(s))
        self.input_len = sym(self.param_len[min(self.param_len)]) if self.param_len else None
        self.stride_set = self._collect_consts()

    # ------------------------------------------------------------------ symbols
    def newsym(self, key, name):
        if key not in self._symkeys:
            sid = len(self._symkeys)
            self._symkeys[key] = sid
            self.names[sid] = name
        return self._symkeys[key]

    def _collect_consts(self):
        out = {1}
        for blk in self.b.blocks:
            for st in blk["s"]:
                if st[0] == "a" and st[2][0] == "bin" and st[2][1].startswith(("Add", "Mul")):
                    for o in (st[2][2], st[2][3]):
                        k = op_const(o)
                        if k and isinstance(k.get("v"), int) and 0 < k["v"] <= 64:
                            out.add(k["v"])
        return sorted(out)

    # ------------------------------------------------------------------ values
    def val_of_place(self, env, pl, bb, si):
        base = env.get(pl[0])
        projs = pl[1]
        if not projs:
            return base
        # strip leading derefs
        rest = [p for p in projs]
        while rest and rest[0] == "*":
            rest = rest[1:]
        if not rest:
            return base
        if base is None:
            return None
        k = base[0]
        if k == "pair" and isinstance(rest[0], list) and rest[0][0] == "f" and rest[0][1] == 0 and len(rest) == 1:
            return ("lin", base[1])
        if k == "tuple" and isinstance(rest[0], list) and rest[0][0] == "f" and len(rest) == 1:
            i = rest[0][1]
            return base[1][i] if i < len(base[1]) else None
        if k == "next":
            # ((opt as Some).0)
            if any(isinstance(p, list) and p[0] == "d" and p[1] == "Some" for p in rest):
                return ("lin", base[2])
            return None
        if k == "contract":
            return ("contract", base[1], base[2])
        if k == "range" and isinstance(rest[0], list) and rest[0][0] == "f" and len(rest) == 1:
            nm = rest[0][2]
            if nm == "start" and base[2] is not None:
                return ("lin", base[2])
            if nm == "end" and base[3] is not None:
                return ("lin", base[3])
        return None

    def lin_of_operand(self, env, op, bb, si, want_int=True):
        if op[0] == "k":
            v = op[1].get("v")
            if isinstance(v, int):
                return Lin(v)
            return None
        if op[0] in ("c", "m"):
            v = self.val_of_place(env, op[1], bb, si)
            if v is not None and v[0] == "lin":
                return v[1]
            if v is not None and v[0] == "contract":
                # the `consumed` component of a contract result: fresh symbol bounded by the argument slice
                s = self.newsym(("consumed", v[2]), "consumed@bb%d" % v[2])
                self._pending_facts.append(v[1].add(sym(s), -1))
                return sym(s)
        return None

    def val_of_operand(self, env, op, bb, si):
        if op[0] == "k":
            v = op[1].get("v")
            if isinstance(v, int):
                return ("lin", Lin(v))
            return None
        if op[0] in ("c", "m"):
            return self.val_of_place(env, op[1], bb, si)
        return None

    def fresh_int(self, key, name):
        return ("lin", sym(self.newsym(key, name)))

    # ------------------------------------------------------------------ transfer
    def oblige(self, kind, bb, line, desc, H, facts, ordinal_key):
        key = (kind, bb, ordinal_key)
        o = self.obligs.get(key)
        if o is None:
            o = Oblig(kind, bb, line, desc, H, ordinal_key)
            self.obligs[key] = o
        o.H = H
        o.ok = H is not None and prove(H, list(facts))
        return o.ok

    def transfer_block(self, bb, env, facts):
        """returns list of (succ, env, facts)"""
        b = self.b
        env = dict(env)
        facts = set(facts)
        blk = b.blocks[bb]
        self._pending_facts = []
        for si, st in enumerate(blk["s"]):
            if st[0] != "a":
                continue
            pl, rv = st[1], st[2]
            if pl[1]:
                # write through projection: forget the base unless it's a field of a tracked tuple (rare)
                if pl[1] != ["*"]:
                    continue
                continue
            dst = pl[0]
            val = None
            k = rv[0]
            if k == "use":
                val = self.val_of_operand(env, rv[1], bb, si)
                if val is not None and val[0] == "contract" and b.local_ty(dst) in INT_TYS:
                    val = ("lin", self.lin_of_operand(env, rv[1], bb, si))
            elif k == "ref":
                rpl = rv[2]
                if all(p == "*" for p in rpl[1]):
                    base = env.get(rpl[0])
                    if base is not None and base[0] in ("slice",):
                        val = base
                    else:
                        val = ("ref", rpl[0]) if not rpl[1] else base
                else:
                    val = None
            elif k == "cast":
                if rv[1] == "IntToInt":
                    l = self.lin_of_operand(env, rv[2], bb, si)
                    wide = {"u8": 8, "u16": 16, "u32": 32, "u64": 64, "usize": 64, "u128": 128}
                    if l is not None and wide.get(rv[4], 0) >= wide.get(rv[3], 999):
                        val = ("lin", l)
                elif rv[1].startswith("Coerce") or rv[1] in ("PtrToPtr",):
                    val = self.val_of_operand(env, rv[2], bb, si)
            elif k == "un":
                if rv[1] == "PtrMetadata":
                    v = self.val_of_operand(env, rv[2], bb, si)
                    if v is not None and v[0] == "slice":
                        val = ("lin", v[1])
                elif rv[1] == "Not":
                    v = self.val_of_operand(env, rv[2], bb, si)
                    if v is not None and v[0] == "cond":
                        val = ("cond", v[1], v[2], v[3], not v[4])
            elif k == "bin":
                op = rv[1]
                la = self.lin_of_operand(env, rv[2], bb, si)
                lb = self.lin_of_operand(env, rv[3], bb, si)
                if op in ("Add", "AddUnchecked") and la is not None and lb is not None:
                    val = ("lin", la.add(lb))
                elif op == "AddWithOverflow" and la is not None and lb is not None:
                    val = ("pair", la.add(lb))
                elif op in ("Sub", "SubUnchecked") and la is not None and lb is not None:
                    val = ("lin", la.add(lb, -1))
                elif op == "SubWithOverflow" and la is not None and lb is not None:
                    val = ("pair", la.add(lb, -1))
                elif op in ("Mul", "MulUnchecked", "MulWithOverflow") and la is not None and lb is not None and (la.is_const() or lb.is_const()):
                    r = lb.scale(la.c) if la.is_const() else la.scale(lb.c)
                    val = ("pair", r) if op == "MulWithOverflow" else ("lin", r)
                elif op in ("Lt", "Le", "Gt", "Ge", "Eq", "Ne") and la is not None and lb is not None:
                    val = ("cond", op, la, lb, False)
            elif k == "agg":
                if rv[1] == "adt" and rv[2] in RANGE_ADTS:
                    kind = RANGE_ADTS[rv[2]]
                    ops = dict(zip(rv[5], rv[4]))
                    s_ = self.lin_of_operand(env, ops["start"], bb, si) if "start" in ops else None
                    e_ = self.lin_of_operand(env, ops["end"], bb, si) if "end" in ops else None
                    val = ("range", kind, s_, e_)
                    if kind == "range" and s_ is not None and e_ is not None and prove(e_.add(s_, -1), list(facts)):
                        # start <= end holds initially; recorded so that the loop join can keep it as an invariant
                        facts.add(e_.add(s_, -1))
                elif rv[1] == "tuple":
                    val = ("tuple", [self.val_of_operand(env, o, bb, si) for o in rv[4]])
                elif rv[1] == "adt" and rv[2] == "core::result::Result" and rv[3] == "Ok" and dst == 0 and self.check_return_contract:
                    v = self.val_of_operand(env, rv[4][0], bb, si) if rv[4] else None
                    if v is not None and v[0] == "tuple" and len(v[1]) == 2:
                        n = v[1][1]
                        H = self.input_len.add(n[1], -1) if (n is not None and n[0] == "lin") else None
                        self.oblige("contract", bb, st[3], "returned `consumed` <= len(input)", H, facts | set(self._pending_facts), ("ret", si))
            elif k == "discr":
                v = self.val_of_place(env, rv[1], bb, si) if rv[1][1] else env.get(rv[1][0])
                if v is not None and v[0] in ("next", "contract"):
                    val = ("discr", v)
            if val is None and b.local_ty(dst) in INT_TYS and k not in ("discr",):
                val = self.fresh_int(("stmt", bb, si), "v%d@bb%d" % (dst, bb))
            env[dst] = val
        for g in self._pending_facts:
            facts.add(g)
        self._pending_facts = []
        return self.transfer_term(bb, env, facts)

    def transfer_term(self, bb, env, facts):
        b = self.b
        t = b.blocks[bb]["t"]
        k = t[0]
        out = []
        if k == "goto":
            return [(t[1], env, facts)]
        if k == "drop":
            return [(t[2], env, facts)]
        if k == "assert":
            nxt = t[5]
            if t[3] == "bounds" and len(t[4]) == 2:
                ll = self.lin_of_operand(env, t[4][0], bb, -1)
                li = self.lin_of_operand(env, t[4][1], bb, -1)
                H = ll.add(li, -1).add(Lin(1), -1) if (ll is not None and li is not None) else None
                self.oblige("index", bb, t[7], "element index < len", H, facts, "assert")
                if H is not None:
                    facts = set(facts)
                    facts.add(H)
            return [(nxt, env, facts)]
        if k == "switch":
            l = op_local(t[1])
            v = env.get(l) if l is not None else None
            targets = [(val, tb) for val, tb in t[2]] + [(None, t[3])]
            for val, tb in targets:
                e2, f2 = env, facts
                if v is not None and v[0] == "cond":
                    truth = (val is None) if val != 0 else False
                    if val is not None and val != 0:
                        truth = True
                    if v[4]:
                        truth = not truth
                    f2 = set(facts)
                    for g in self.cond_facts(v[1], v[2], v[3], truth):
                        f2.add(g)
                elif v is not None and v[0] == "discr" and v[1][0] == "next":
                    nx = v[1]
                    rl, st_, en_ = nx[1], nx[2], nx[3]
                    f2 = set(facts)
                    e2 = dict(env)
                    is_some = (val == 1) or (val is None and 1 not in [x for x, _ in t[2]])
                    if is_some:
                        f2.add(en_.add(st_, -1).add(Lin(1), -1))
                        e2[rl] = ("range", "range", st_.add(Lin(1)), en_)
                    else:
                        f2.add(st_.add(en_, -1))
                out.append((tb, e2, f2))
            return out
        if k == "call":
            return self.transfer_call(bb, env, facts, t)
        return []

    def cond_facts(self, op, a, b_, truth):
        d = a.add(b_, -1)  # a - b
        e = b_.add(a, -1)  # b - a
        one = Lin(1)
        if op == "Lt":
            return [e.add(one, -1)] if truth else [d]
        if op == "Le":
            return [e] if truth else [d.add(one, -1)]
        if op == "Gt":
            return [d.add(one, -1)] if truth else [e]
        if op == "Ge":
            return [d] if truth else [e.add(one, -1)]
        if op == "Eq":
            if truth:
                return [d, e]
            return [a.add(one, -1)] if (b_.is_const() and b_.c == 0) else []
        if op == "Ne":
            if not truth:
                return [d, e]
            return [a.add(one, -1)] if (b_.is_const() and b_.c == 0) else []
        return []

    def slice_len(self, env, op, bb):
        v = self.val_of_operand(env, op, bb, -1)
        if v is not None and v[0] == "slice":
            return v[1]
        return None

    def transfer_call(self, bb, env, facts, t):
        b = self.b
        c = b.call_at(bb)
        env = dict(env)
        facts = set(facts)
        name = c.name
        decl = c.declared
        dst = c.dest[0] if not c.dest[1] else None
        val = None
        self._pending_facts = []
        if name == LEN_FN and c.args:
            ln = self.slice_len(env, c.args[0], bb)
            if ln is not None:
                val = ("lin", ln)
        elif name == IS_EMPTY_FN and c.args:
            ln = self.slice_len(env, c.args[0], bb)
            if ln is not None:
                val = ("cond", "Eq", ln, Lin(0), False)
        elif name in INDEX_FNS or decl in ("core::ops::index::Index::index", "core::ops::index::IndexMut::index_mut"):
            ln = self.slice_len(env, c.args[0], bb) if c.args else None
            rv = self.val_of_operand(env, c.args[1], bb, -1) if len(c.args) > 1 else None
            if ln is not None and rv is not None and rv[0] == "range":
                kind, s_, e_ = rv[1], rv[2], rv[3]
                if kind == "range" and s_ is not None and e_ is not None:
                    ok1 = self.oblige("slice", bb, c.line, "s[a..b]: b <= len", ln.add(e_, -1), facts, "end")
                    self.oblige("slice", bb, c.line, "s[a..b]: a <= b", e_.add(s_, -1), facts, "order")
                    facts.add(ln.add(e_, -1))
                    val = ("slice", e_.add(s_, -1))
                elif kind == "from" and s_ is not None:
                    self.oblige("slice", bb, c.line, "s[a..]: a <= len", ln.add(s_, -1), facts, "start")
                    facts.add(ln.add(s_, -1))
                    val = ("slice", ln.add(s_, -1))
                elif kind == "to" and e_ is not None:
                    self.oblige("slice", bb, c.line, "s[..b]: b <= len", ln.add(e_, -1), facts, "end")
                    facts.add(ln.add(e_, -1))
                    val = ("slice", e_)
                else:
                    self.oblige("slice", bb, c.line, "slice with untracked bound", None, facts, "unknown")
            elif ln is not None:
                self.oblige("slice", bb, c.line, "slice with untracked range", None, facts, "unknown")
        elif name.endswith("::from_le_bytes") or name.endswith("::from_be_bytes"):
            val = self.fresh_int(("call", bb), "read@%d" % c.line)
        elif decl == "core::iter::traits::collect::IntoIterator::into_iter" and c.args:
            v = self.val_of_operand(env, c.args[0], bb, -1)
            if v is not None and v[0] == "range":
                val = v
        elif decl == "core::iter::traits::iterator::Iterator::next" and c.args:
            v = self.val_of_operand(env, c.args[0], bb, -1)
            rl = None
            if v is not None and v[0] == "ref":
                rl = v[1]
                v = env.get(rl)
            if v is not None and v[0] == "range" and v[1] == "range" and v[2] is not None and v[3] is not None and rl is not None:
                val = ("next", rl, v[2], v[3])
        elif decl == TRY_BRANCH and c.args:
            v = self.val_of_operand(env, c.args[0], bb, -1)
            if v is not None and v[0] == "contract":
                val = v
        elif name in self.contract_fns and c.args:
            ln = self.slice_len(env, c.args[0], bb)
            if ln is not None:
                val = ("contract", ln, bb)
        elif decl in ("core::cmp::Ord::min", "core::cmp::min") and len(c.args) == 2:
            la = self.lin_of_operand(env, c.args[0], bb, -1)
            lb = self.lin_of_operand(env, c.args[1], bb, -1)
            m = self.newsym(("call", bb), "min@%d" % c.line)
            if la is not None:
                facts.add(la.add(sym(m), -1))
            if lb is not None:
                facts.add(lb.add(sym(m), -1))
            val = ("lin", sym(m))
        if val is None and dst is not None and b.local_ty(dst) in INT_TYS:
            val = self.fresh_int(("call", bb), "call@%d" % c.line)
        for g in self._pending_facts:
            facts.add(g)
        self._pending_facts = []
        if dst is not None:
            env[dst] = val
        # a call taking `&mut local` may change a tracked integer: forget it
        for a in c.args:
            l = op_local(a)
            if l is None:
                continue
            v = env.get(l)
            if v is not None and v[0] == "ref" and b.local_ty(l).startswith("&") and "mut " in b.local_ty(l)[:8]:
                tgt = v[1]
                tv = env.get(tgt)
                if tv is not None and tv[0] == "lin":
                    env[tgt] = self.fresh_int(("clobber", bb, tgt), "clobbered%d@bb%d" % (tgt, bb))
        if c.target is None:
            return []
        return [(c.target, env, facts)]

    # ------------------------------------------------------------------ joins
    @staticmethod
    def comps(v):
        """decompose a value into comparable linear components"""
        if v is None:
            return None
        if v[0] == "lin":
            return ("lin", [v[1]])
        if v[0] == "slice":
            return ("slice", [v[1]])
        if v[0] == "range" and v[1] == "range" and v[2] is not None and v[3] is not None:
            return ("range", [v[2], v[3]])
        return ("other", v)

    def join(self, bb, incoming):
        """incoming: list of (pred, env, facts).  returns (env, facts).

        Facts at a join are found Houdini-style: a pool of candidate facts is generated once per set of join symbols
        (all incoming facts, their re-expressions over the join symbols, and the linear induction relations between
        join symbols that advance by constants), every candidate that cannot be proved on each incoming edge (with the
        join symbols replaced by that edge's forms) is dropped, and the survivors are assumed at the join.  Back-edge
        facts were computed under a superset of the current assumptions, so repeating until nothing is dropped yields
        an inductive set."""
        b = self.b
        if len(incoming) == 1:
            return dict(incoming[0][1]), set(incoming[0][2])
        mine = {sid: self.newsym(("prev",) + key[1:], "prev:" + self.names[sid]) for key, sid in list(self._symkeys.items()) if key[0] == "phi" and key[1] == bb}
        edges = []
        for (p, e, fs) in incoming:
            back = b.dominates(bb, p)
            if back and mine:
                e = {l: self._rename_val(v, mine) for l, v in e.items()}
                fs = {g.rename(mine) for g in fs}
            edges.append((p, e, fs, back))
        locals_ = set()
        for _, e, _, _ in edges:
            locals_ |= set(e)
        env = {}
        subst = [dict() for _ in edges]  # per edge: sigma -> incoming form
        for l in sorted(locals_):
            vals = [e.get(l) for _, e, _, _ in edges]
            if any(v is None for v in vals):
                env[l] = None
                continue
            cs = [self.comps(v) for v in vals]
            kinds = {c[0] for c in cs}
            if len(kinds) != 1 or "other" in kinds:
                env[l] = vals[0] if all(repr(v) == repr(vals[0]) for v in vals) else None
                continue
            kind = cs[0][0]
            n = len(cs[0][1])
            newc = []
            for ci in range(n):
                forms = [c[1][ci] for c in cs]
                if all(f == forms[0] for f in forms):
                    newc.append(forms[0])
                else:
                    s = self.newsym(("phi", bb, l, ci), "%s%s@bb%d" % (b.local_name(l) or "_%d" % l, "" if n == 1 else ".%d" % ci, bb))
                    for pi, f in enumerate(forms):
                        subst[pi][s] = f
                    newc.append(sym(s))
            env[l] = ("lin", newc[0]) if kind == "lin" else (("slice", newc[0]) if kind == "slice" else ("range", "range", newc[0], newc[1]))
        sig = frozenset(subst[0])
        fullsig = (sig, tuple(tuple(sorted((s, f.key()) for s, f in m.items())) for m in subst))
        if not sig:
            keysets = [{g.key(): g for g in fs} for _, _, fs, _ in edges]
            keys = set(keysets[0])
            for ks in keysets[1:]:
                keys &= set(ks)
            out = {keysets[0][k] for k in keys}
            return env, out

        def subst_in(c, pi):
            m = subst[pi]
            if not any(s in m for s in c.t):
                return c
            r = Lin(c.c, {s: v for s, v in c.t.items() if s not in m})
            for s, v in c.t.items():
                if s in m:
                    r = r.add(m[s], v)
            return r

        st = self._cand.get(bb)
        if st is None or (st[0] != fullsig and st[2] < 5):
            pool = {}
            for pi, (p, e, fs, back) in enumerate(edges):
                for G in fs:
                    if G.nonneg():
                        continue
                    pool[G.key()] = G
                    full = G
                    for s, form in subst[pi].items():
                        g2 = None
                        if form.is_const():
                            # sigma == c on this edge: G - (sigma - c) is the useful (upper-bound) re-expression
                            if G.c >= form.c and form.c >= 0:
                                g2 = G.add(sym(s), -1).add(Lin(form.c), 1)
                        else:
                            for chs, cv in sorted(form.t.items()):
                                gv = G.t.get(chs, 0)
                                if gv != 0 and gv % cv == 0:
                                    k = gv // cv
                                    g2 = G.add(form, -k).add(sym(s), k)
                                    break
                        if g2 is not None and not g2.nonneg():
                            pool[g2.key()] = g2
                            # compound: apply to the running fully-translated form as well
                            if form.is_const():
                                if full.c >= form.c:
                                    full = full.add(sym(s), -1).add(Lin(form.c), 1)
                            else:
                                for chs, cv in sorted(form.t.items()):
                                    gv = full.t.get(chs, 0)
                                    if gv != 0 and gv % cv == 0:
                                        k = gv // cv
                                        full = full.add(form, -k).add(sym(s), k)
                                        break
                    if not full.nonneg():
                        pool[full.key()] = full
            # linear induction relations between join symbols with constant strides
            entry_i = [i for i, ed in enumerate(edges) if not ed[3]]
            back_i = [i for i, ed in enumerate(edges) if ed[3]]
            if len(entry_i) == 1 and back_i:
                ei, bi_ = entry_i[0], back_i[0]
                strides = {}
                for s in sig:
                    f0, f1 = subst[ei][s], subst[bi_][s]
                    prev = mine.get(s)
                    if prev is not None:
                        d = f1.add(sym(prev), -1)
                        if d.is_const() and d.c != 0:
                            strides[s] = (f0, d.c)
                ss = sorted(strides)
                for i in range(len(ss)):
                    for j in range(i + 1, len(ss)):
                        x, y = ss[i], ss[j]
                        (x0, dx), (y0, dy) = strides[x], strides[y]
                        rel = sym(x).add(x0, -1).scale(dy).add(sym(y).add(y0, -1).scale(dx), -1)
                        pool[rel.key()] = rel
                        neg = rel.scale(-1)
                        pool[neg.key()] = neg
            cand = {}
            for k, c in pool.items():
                if all(prove(subst_in(c, i), list(edges[i][2])) for i in range(len(edges)) if not edges[i][3]):
                    cand[k] = c
            st = [fullsig, cand, (st[2] + 1) if st is not None else 1]
            self._cand[bb] = st
            # assume the base-checked candidates; the back edges are checked on the next visit, after the loop body
            # has been re-evaluated under these assumptions (Houdini)
            return env, set(cand.values())
        cand = st[1]
        keep = {}
        for k, c in cand.items():
            if all(prove(subst_in(c, i), list(edges[i][2])) for i in range(len(edges))):
                keep[k] = c
        st[1] = keep
        return env, set(keep.values())

    def _rename_val(self, v, m):
        if v is None:
            return None
        k = v[0]
        if k in ("lin", "slice", "pair"):
            return (k, v[1].rename(m))
        if k == "range":
            return ("range", v[1], v[2].rename(m) if v[2] is not None else None, v[3].rename(m) if v[3] is not None else None)
        if k == "cond":
            return ("cond", v[1], v[2].rename(m), v[3].rename(m), v[4])
        if k == "tuple":
            return ("tuple", [self._rename_val(x, m) for x in v[1]])
        if k == "next":
            return ("next", v[1], v[2].rename(m), v[3].rename(m))
        if k == "contract":
            return ("contract", v[1].rename(m), v[2])
        if k == "discr":
            return ("discr", self._rename_val(v[1], m))
        return v

    def const_ks(self):
        ks = {0}
        for d in self.stride_set:
            ks.add(d)
            ks.add(-d)
        return sorted(ks)

    # ------------------------------------------------------------------ driver
    def run(self, max_rounds=60):
        b = self.b
        n = len(b.blocks)
        out_edges = {}  # (pred, succ) -> (env, facts)
        state_in = {}
        work = [0]
        state_in[0] = (dict(self.entry_env), set())
        rounds = 0
        visits = {}
        inq = {0}
        while work:
            bb = work.pop(0)
            inq.discard(bb)
            rounds += 1
            visits[bb] = visits.get(bb, 0) + 1
            if visits[bb] > max_rounds:
                self.converged = False
                continue
            if bb != 0:
                inc = [(p,) + tuple(out_edges[(p, bb)][:2]) for p in b.preds(bb) if (p, bb) in out_edges]
                if not inc:
                    continue
                env, facts = self.join(bb, inc)
                old = state_in.get(bb)
                sig = (repr(sorted((k, repr(v)) for k, v in env.items() if v is not None)), frozenset(g.key() for g in facts))
                if old is not None and old[2] == sig:
                    continue
                state_in[bb] = (env, facts, sig)
            else:
                env, facts = state_in[0][0], state_in[0][1]
            if b.is_cleanup(bb):
                continue
            for (succ, e2, f2) in self.transfer_block(bb, env, facts):
                if b.is_cleanup(succ):
                    continue
                key = (bb, succ)
                prev = out_edges.get(key)
                # several edges to the same successor from one switch: join them as separate predecessors is not
                # possible with a dict keyed by (pred, succ); intersect facts and drop differing env entries
                if prev is not None and prev[2] == visits[bb]:
                    pe, pf = prev[0], prev[1]
                    e2 = {l: (v if repr(pe.get(l)) == repr(v) else None) for l, v in e2.items()}
                    f2 = {g for g in f2 if g.key() in {x.key() for x in pf}}
                out_edges[key] = (e2, f2, visits[bb])
                if succ not in inq:
                    work.append(succ)
                    inq.add(succ)
        return list(self.obligs.values())


def analyse(facts, fn_id, contract_fns=(), check_return_contract=False):
    b = facts.bodies[fn_id]
    a = Analyzer(facts, b, contract_fns=contract_fns, check_return_contract=check_return_contract)
    obs = a.run()
    return a, obs
