"""Check runner: loads facts, runs a property's rules, prints the verdict lines,
writes the evidence file and replay artefacts."""
import json
import os
import sys
import time

from . import extract
from .facts import Facts

VERIF = extract.VERIF
KNOWN = os.path.join(VERIF, "known_findings.jsonl")
EVID = os.environ.get("NVS_EVIDENCE") or os.path.join(VERIF, "evidence")  # the override is for selftest runs on a scratch copy


class AnchorLost(Exception):
    pass


class Ctx:
    """Handed to each rule module. Collects instances, obligations and findings."""

    def __init__(self, pid, facts, tier):
        self.pid = pid
        self.facts = facts
        self.tier = tier
        self.findings = []  # dicts: key, rule, msg, where, detail
        self.instances = {}  # rule -> list of str (what was enumerated)
        self.obligations = 0
        self.discharged = 0
        self.notes = []
        self.samples = []
        self.rules = {}  # rule id -> text
        self.analysed_fns = set()
        self.floors = []  # (rule, what, got, floor)
        self.observations = []

    # -------------------------------------------------------------- anchors
    def body(self, id_):
        b = self.facts.bodies.get(id_)
        if b is None:
            raise AnchorLost("anchor function not found: %s" % id_)
        self.analysed_fns.add(id_)
        return b

    def adt(self, id_):
        a = self.facts.adts.get(id_)
        if a is None:
            raise AnchorLost("anchor type not found: %s" % id_)
        return a

    def rule(self, rid, text):
        self.rules[rid] = text
        self.instances.setdefault(rid, [])

    def instance(self, rid, what):
        self.instances.setdefault(rid, []).append(what)

    def floor(self, rid, what, got, floor):
        self.floors.append((rid, what, got, floor))

    def oblige(self, ok, rid, key, msg, where="", detail=None, sample=None):
        """One obligation of rule `rid`. ok=True discharges it; ok=False records a finding."""
        self.obligations += 1
        if sample is not None and len(self.samples) < 12:
            self.samples.append(sample)
        if ok:
            self.discharged += 1
            return True
        self.finding(rid, key, msg, where, detail, _count=False)
        return False

    def finding(self, rid, key, msg, where="", detail=None, _count=True):
        if _count:
            self.obligations += 1
        full = "%s:%s" % (rid, key)
        for f in self.findings:
            if f["key"] == full:
                return
        self.findings.append({"key": full, "rule": rid, "msg": msg, "where": where, "detail": detail or {}})

    def observe(self, text):
        self.observations.append(text)

    def note(self, text):
        self.notes.append(text)


def load_known():
    known = {}
    fixed = []
    if os.path.exists(KNOWN):
        with open(KNOWN) as fh:
            for line in fh:
                line = line.strip()
                if not line or line.startswith("#"):
                    continue
                if line.startswith("fixed:"):
                    fixed.append(line)
                    continue
                rec = json.loads(line)
                known.setdefault(rec["property"], {})[rec["key"]] = rec
    return known, fixed


def run_check(pid, module, tier="quick", fresh=False):
    t0 = time.time()
    seed = int(os.environ.get("VERIF_SEED", "0") or 0)
    os.makedirs(EVID, exist_ok=True)
    os.makedirs(os.path.join(EVID, "replay"), exist_ok=True)
    facts_dir, info = extract.ensure_facts(fresh=fresh)
    facts = Facts(facts_dir)
    ctx = Ctx(pid, facts, tier)
    fatal = None
    try:
        module.run(ctx)
        if tier == "thorough":
            if hasattr(module, "thorough"):
                module.thorough(ctx)
            wn = getattr(module, "WITNESSES", None)
            if wn:
                from . import witness
                ctx.rule(pid + ".W", "compile-fail witnesses (with compiling twins) for the type-level part of the property")
                for name, (ok, bad, detail) in witness.run(wn).items():
                    ctx.instance(pid + ".W", "witness %s: %d doctests ok, %d failed" % (name, ok, bad))
                    ctx.oblige(ok >= 2 and bad == 0, pid + ".W", "witness:" + name,
                               "a program that violates the typestate now compiles (or the witness's twin stopped compiling): " + detail[-300:], "witness/src/lib.rs")
    except AnchorLost as e:
        fatal = "ANCHOR-LOST: %s" % e
    # floors: fail closed
    floor_fail = []
    for rid, what, got, floor in ctx.floors:
        if got < floor:
            floor_fail.append("%s: %s matched %d < floor %d" % (rid, what, got, floor))
    known, _fixed = load_known()
    kn = known.get(pid, {})
    violations = []
    known_hit = []
    for f in ctx.findings:
        if f["key"] in kn:
            known_hit.append(f)
        else:
            violations.append(f)
    stale = [k for k in kn if k not in {f["key"] for f in ctx.findings}]
    out = []
    out.append("[nvs] property %s tier=%s tree=%s facts=%s (%d bodies)" % (
        pid, tier, info["tree_hash"], "cached" if info["cached"] else "extracted in %.1fs" % info["extract_s"], len(facts.bodies)))
    for rid, text in ctx.rules.items():
        out.append("[nvs]   rule %s: %d instances — %s" % (rid, len(ctx.instances.get(rid, [])), text))
    out.append("[nvs]   obligations=%d discharged=%d findings=%d (known=%d new=%d)" % (
        ctx.obligations, ctx.discharged, len(ctx.findings), len(known_hit), len(violations)))
    for o in ctx.observations:
        out.append("[nvs]   observation: %s" % o)
    for f in known_hit:
        out.append("KNOWN-FINDING: property=%s %s — %s [%s]" % (pid, f["key"], f["msg"], f["where"]))
    for k in stale:
        out.append("[nvs]   note: listed finding no longer reported (repaired or moved): %s" % k)
    nviol = 0
    replay_paths = []

    def emit_violation(kind, payload):
        nonlocal nviol
        nviol += 1
        path = os.path.join(EVID, "replay", "%s-%d.json" % (pid, nviol))
        with open(path, "w") as fh:
            json.dump(payload, fh, indent=1, sort_keys=True)
        replay_paths.append(path)
        out.append("VIOLATION property=%s replay=%s" % (pid, path))
        out.append("[nvs]   %s: %s" % (kind, payload.get("msg") or payload.get("error")))
        if payload.get("key"):
            out.append("[nvs]     key %s" % payload["key"])
        if payload.get("where"):
            out.append("[nvs]     at %s" % payload["where"])

    if fatal:
        emit_violation("fatal", {"error": fatal, "property": pid, "explain": "./nvs.sh check %s" % pid})
    for ff in floor_fail:
        emit_violation("floor", {"error": "FLOOR: " + ff, "property": pid, "explain": "./nvs.sh check %s" % pid})
    for f in violations:
        payload = dict(f)
        payload["property"] = pid
        payload["rule_text"] = ctx.rules.get(f["rule"], "")
        payload["explain"] = "./nvs.sh check %s" % pid
        emit_violation("violation", payload)
    wall = time.time() - t0
    explanation = getattr(module, "EXPLANATION", "")
    samples = ctx.samples[:12] or [{"note": "no sample recorded"}]
    evidence = {
        "property_id": pid,
        "tier": tier,
        "seed": seed,
        "level": "other",
        "coverage": {
            "explanation": explanation,
            "rule": "static rules over MIR facts of /repo's working tree; every instance listed is one enumerated construct (function, call site, path, lock edge, table row); an obligation is one instance-level requirement of a rule",
            "rules": ctx.rules,
            "instances": {k: v[:400] for k, v in ctx.instances.items()},
            "instance_counts": {k: len(v) for k, v in ctx.instances.items()},
            "obligations": ctx.obligations,
            "discharged": ctx.discharged,
            "evaluations": max(ctx.obligations, 1),
            "distinct_nontrivial": len({i for v in ctx.instances.values() for i in v}),
            "functions_analysed": sorted(ctx.analysed_fns)[:400],
            "functions_analysed_count": len(ctx.analysed_fns),
            "bodies_in_program": len(facts.bodies),
            "crates": ["%s/%s" % (c["pkg"], c["krate"]) for c in facts.crates],
            "samples": samples,
            "findings": [{"key": f["key"], "msg": f["msg"], "where": f["where"], "known": f["key"] in kn} for f in ctx.findings],
            "observations": ctx.observations,
            "floors": [{"rule": r, "what": w, "got": g, "floor": fl} for r, w, g, fl in ctx.floors],
            "tree_hash": info["tree_hash"],
            "source_files_hashed": info["source_files_hashed"],
            "facts_cached": info["cached"],
            "checker_cmd": "./nvs.sh check %s%s" % (pid, " --thorough" if tier == "thorough" else ""),
            "trusted_base": ["rustc nightly MIR construction and trait resolution", "nvs dominator/reachability code", "frozen anchor tables in nvs/rules (reviewed by reading)"],
            "exhaustive": True,
            "notes": ctx.notes,
        },
        "assumptions": getattr(module, "ASSUMPTIONS", []) + [
            "decides the structural clauses named in 'rules' — necessary conditions of the property, not the behaviour itself",
            "analysed configuration: cfg(unix, not(test)), dev profile, nightly MIR at mir-opt-level=0",
        ],
        "wall_s": round(wall, 3),
        "violations": nviol,
    }
    with open(os.path.join(EVID, "%s.json" % pid), "w") as fh:
        json.dump(evidence, fh, indent=1, sort_keys=True)
    print("\n".join(out))
    sys.stdout.flush()
    return 1 if nviol else 0
