"""SIBLINGS: feature-set agreement of declared mirror implementations."""
import re
from .facts import rvalue_operands

NOISE = ("core::ops::try_trait", "core::ops::deref", "core::clone::Clone", "core::convert", "core::iter::traits::collect::IntoIterator")
CMP_OPS = {"Eq", "Ne", "Lt", "Le", "Gt", "Ge"}


def features(facts, body, rename, depth=0, with_closures=True):
    """set of features of one body (plus its closures): callees, fields read/written, comparison kinds"""
    bodies = [body]
    if with_closures:
        bodies += facts.closures_of(body.id)
    feats = set()

    def rn(s):
        for a, b in rename:
            s = s.replace(a, b)
        return s

    for b in bodies:
        for c in b.calls():
            n = c.name or c.declared
            if not n or n.startswith(NOISE):
                continue
            n = re.sub(r"\{closure#\d+\}", "{closure}", n)
            feats.add(("call", rn(n)))
        for blk in b.blocks:
            if blk["c"]:
                continue
            for st in blk["s"]:
                if st[0] != "a":
                    continue
                places = [st[1]]
                rv = st[2]
                if rv[0] in ("ref", "rawptr"):
                    places.append(rv[2] if rv[0] == "ref" else rv[1])
                elif rv[0] == "discr":
                    places.append(rv[1])
                else:
                    for op in rvalue_operands(rv):
                        if op[0] in ("c", "m"):
                            places.append(op[1])
                if rv[0] == "bin" and rv[1] in CMP_OPS:
                    feats.add(("cmp", rv[1], rv[4]))
                for pl in places:
                    for p in pl[1]:
                        if isinstance(p, list) and p[0] == "f" and not p[3].startswith(("(tuple)", "core::", "alloc::", "std::")) and "{closure" not in p[3]:
                            feats.add(("field", rn(p[2]), rn(p[3])))
            t = blk["t"]
            if t[0] == "call":
                for a in t[2]:
                    if a[0] in ("c", "m"):
                        for p in a[1][1]:
                            if isinstance(p, list) and p[0] == "f" and not p[3].startswith(("(tuple)", "core::", "alloc::", "std::")) and "{closure" not in p[3]:
                                feats.add(("field", rn(p[2]), rn(p[3])))
    return feats


def compare(facts, a, b, rename):
    fa = features(facts, a, rename)
    fb = features(facts, b, rename)
    return sorted(fa - fb), sorted(fb - fa), len(fa | fb)
