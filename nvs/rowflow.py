"""Row-iterator error flow: adaptors applied to iterators whose Item is Result<Row, Error>."""
from .facts import op_local, op_const

ROW = "core::result::Result<nervusdb_query::executor::core_types::Row"
ITER = "core::iter::traits::iterator::Iterator::"
POSITIONAL = ("skip", "step_by", "nth", "last", "flatten", "skip_while", "min", "max")
PREDICATE = ("filter", "take_while", "skip_while")
MAPPING = ("filter_map", "flat_map", "map_while", "find_map")


def row_iter_types(facts):
    return [im["self"].split("<")[0] for im in facts.impls
            if im["trait"] == "core::iter::traits::iterator::Iterator" and any(ROW in t[1] for t in im.get("types", []))]


def is_row_iter_ty(ty, its):
    return any(x in ty for x in its) or ("Item = " + ROW) in ty


def adaptor_sites(facts, prefix):
    its = row_iter_types(facts)
    out = []
    for i, b in sorted(facts.bodies.items()):
        if not i.startswith(prefix) or "::tests::" in i:
            continue
        for c in b.calls():
            if c.declared.startswith(ITER) and c.args:
                l = op_local(c.args[0])
                ty = b.local_ty(l) if l is not None else ""
                if is_row_iter_ty(ty, its):
                    out.append((b, c, c.declared[len(ITER):]))
    return out, its


def closure_of_arg(facts, body, op):
    l = op_local(op)
    if l is None:
        return None
    o = body.origin(l)
    if o and o[0] == "agg" and o[1][1] == "closure":
        return facts.bodies.get(o[1][2])
    return None


def err_arm(cb, by_ref):
    """(switch block, err target) of the match on the closure's Result argument (local 2), or None"""
    for bi, blk in enumerate(cb.blocks):
        t = blk["t"]
        if t[0] != "switch":
            continue
        for st in blk["s"]:
            if st[0] == "a" and st[2][0] == "discr" and op_local(t[1]) == st[1][0]:
                pl = st[2][1]
                base = pl[0]
                # the scrutinee is the argument itself, a deref of it, or a copy of it
                root = base
                for _ in range(4):
                    if root == 2:
                        break
                    o = cb.origin(root)
                    if o and o[0] == "place":
                        root = o[1][0]
                    elif o and o[0] == "arg":
                        root = o[1]
                    else:
                        break
                if root != 2:
                    continue
                if ROW not in cb.local_ty(base).replace("&", "").strip() and ROW not in cb.local_ty(2):
                    continue
                et = None
                for v, tb in t[2]:
                    if v == 1:
                        et = tb
                if et is None:
                    et = t[3]
                return (bi, et, base)
    return None


def predicate_keeps_err(cb):
    """True / False / None(unknown): does a bool-returning closure return true on the Err arm of its Result argument?"""
    ea = err_arm(cb, True)
    if ea is None:
        return None
    bi, et, base = ea
    seen = cb.reachable([et])
    vals = set()
    for b in seen:
        for st in cb.blocks[b]["s"]:
            if st[0] == "a" and st[1][0] == 0 and not st[1][1]:
                rv = st[2]
                if rv[0] == "use" and rv[1][0] == "k":
                    vals.add(rv[1][1].get("v"))
                else:
                    vals.add("dyn")
    if vals == {1}:
        return True
    if 0 in vals:
        return False
    return None


def mapping_uses_err(cb):
    """does a by-value Result closure read the Err payload on its Err arm (so the error can be forwarded)?"""
    ea = err_arm(cb, False)
    if ea is None:
        return None
    bi, et, base = ea
    for blk in cb.blocks:
        for st in blk["s"]:
            if st[0] == "a":
                rv = st[2]
                pls = []
                if rv[0] in ("ref", "rawptr"):
                    pls.append(rv[2] if rv[0] == "ref" else rv[1])
                else:
                    from .facts import rvalue_operands
                    pls += [op[1] for op in rvalue_operands(rv) if op[0] in ("c", "m")]
                for pl in pls:
                    if pl[0] == base and any(isinstance(p, list) and p[0] == "d" and p[2] == 1 for p in pl[1]):
                        return True
    return False
