"""C01 — Acknowledged commits survive crashes (structural necessary conditions)."""
from .. import model as M
from .. import paths
from ..mirutil import recv_field, site_key, place_path
from ..facts import op_local

EXPLANATION = (
    "Decides five structural clauses, each a necessary condition of C01: (1) every path from a WAL append/rewrite to a "
    "success return passes Wal::fsync; (2) publication points are dominated by the Ok arm of that fsync; (3) no page-file "
    "write may reach the Checkpoint/ManifestSwitch record (or the close-time rewrite) without a Pager sync in between "
    "(interprocedural written-but-unsynced summaries); (4) only the frozen writer set appends to / rewrites / renames the log; "
    "(5) the append offset derives from the end of valid data. "
    "It does not decide that replay reconstructs the right state."
    " Added in the build round: C01.7 log scanners reset their pending buffer at BeginTx; C01.8 write-then-rename — every rename in Wal::rewrite_as_snapshot is dominated by the Ok arm of a sync of the completely written replacement log."
    " C01.10 (shared with C15.5): every index-root update in commit is followed by IndexCatalog::flush before CommitTx — the catalog page is the only durable copy of the roots, so an acknowledged indexed write is otherwise unreachable through the index after a crash."
)
ASSUMPTIONS = [
    "a must-sync call site is one whose every resolved target syncs Pager.file on all of its success paths",
    "errors swallowed by a caller (`let _ =`) are handled by the C08 rules, not here",
]

SEEK = "std::io::Seek::seek"


def run(ctx):
    from .c15 import root_flush_rule
    ctx.rule("C01.10", "index roots moved by a commit are on the catalog page before the CommitTx record (the catalog page is their only durable copy; shared with C15.5)")
    root_flush_rule(ctx, "C01.10")
    F = ctx.facts
    from .c02 import scanner_rule
    ctx.rule("C01.7", "log scanners discard the records of an unfinished transaction when the next BeginTx arrives (else a crash inside a commit poisons the next acknowledged commit)")
    scanner_rule(ctx, "C01.7")
    ctx.rule("C01.1", "every path from Wal::append / rewrite_as_snapshot to a success return passes through Wal::fsync")
    ctx.rule("C01.2", "every publication point in commit/compact/get_or_create_label is dominated by the Ok arm of the WAL fsync")
    ctx.rule("C01.3", "no page-file write reaches the Checkpoint/ManifestSwitch append (or rewrite_as_snapshot) without a Pager sync in between")
    ctx.rule("C01.4", "only the frozen writer set calls Wal::append / rewrite_as_snapshot; only wal.rs and vacuum.rs rename files")
    ctx.rule("C01.8", "write-then-rename: the replacement log written by rewrite_as_snapshot is fsynced (Ok arm) before any rename puts it in place of the log")
    ctx.rule("C01.5", "Wal::append writes at an offset derived from the end of the last valid record (not raw end-of-file)")

    # ---- clause 4: LAYER ------------------------------------------------
    callers = F.callers()
    app_callers = sorted(x for x in callers.get(M.WAL_APPEND, ()) if not x.startswith("nervusdb_v2_crash_test"))
    for x in app_callers:
        ctx.instance("C01.4", "append caller " + x)
        root = F.bodies[x].root or x
        ctx.oblige(root in M.WAL_WRITERS, "C01.4", "append-caller:" + root,
                   "Wal::append called from a function outside the frozen writer set", F.bodies[x].file)
    rw_callers = sorted(callers.get(M.WAL_REWRITE, ()))
    for x in rw_callers:
        ctx.instance("C01.4", "rewrite caller " + x)
        ctx.oblige((F.bodies[x].root or x) in M.WAL_REWRITERS, "C01.4", "rewrite-caller:" + x,
                   "rewrite_as_snapshot called outside checkpoint_on_close", F.bodies[x].file)
    ctx.floor("C01.4", "append callers", len(app_callers), 4)
    for prim, allowed in ((M.FS_RENAME, ("nervusdb_storage::wal::", "nervusdb_storage::vacuum::")),
                          (M.FS_REMOVE, ("nervusdb_storage::wal::", "nervusdb_storage::vacuum::", "nervusdb_storage::backup::"))):
        for x in sorted(callers.get(prim, ())):
            if not x.startswith("nervusdb_storage::"):
                continue
            ctx.instance("C01.4", "%s caller %s" % (prim, x))
            ctx.oblige(x.startswith(allowed), "C01.4", "%s-caller:%s" % (prim.split("::")[-1], x),
                       "%s called from a module that does not own database files" % prim, F.bodies[x].file)
    # set_len of anything in wal.rs would be a truncation of the log: only allowed inside wal.rs
    for x in sorted(callers.get(M.FILE_SET_LEN, ())):
        if x.startswith("nervusdb_storage::") and not x.startswith(("nervusdb_storage::pager::", "nervusdb_storage::wal::")):
            ctx.oblige(False, "C01.4", "set_len-caller:" + x, "File::set_len outside pager.rs / wal.rs", F.bodies[x].file)

    # ---- clause 1: sync before ack --------------------------------------
    for fn in M.WAL_WRITERS + M.WAL_REWRITERS:
        b = ctx.body(fn)
        appends = [c for c in b.calls() if c.name in (M.WAL_APPEND, M.WAL_REWRITE)]
        fsyncs = [c.bb for c in b.calls() if c.name == M.WAL_FSYNC]
        ctx.floor("C01.1", "append sites in " + fn, len(appends), 1)
        for c in appends:
            v = M.wal_append_variant(b, c) or c.name.split("::")[-1]
            ctx.instance("C01.1", "%s: append(%s) #%d" % (fn, v, c.ordinal))
            rets = paths.success_returns_reachable(b, [c.target] if c.target is not None else [], avoid=fsyncs)
            ctx.oblige(not rets, "C01.1", "%s:append(%s)#%d" % (fn, v, c.ordinal),
                       "a success return is reachable after this WAL write without passing Wal::fsync", c.loc(),
                       sample={"fn": fn, "site": c.loc(), "record": v, "fsync_blocks": fsyncs, "unsynced_returns": rets})

    # ---- clause 2: ack after durable ------------------------------------
    for fn in (M.COMMIT, M.COMPACT, M.GET_OR_CREATE_LABEL):
        b = ctx.body(fn)
        fs = [c for c in b.calls() if c.name == M.WAL_FSYNC]
        pubs = M.publication_sites(b)
        ctx.floor("C01.2", "publication sites in " + fn, len(pubs), {M.COMMIT: 5, M.COMPACT: 7, M.GET_OR_CREATE_LABEL: 1}[fn])
        oks = [paths.ok_arm(b, c) for c in fs]
        for c, what in pubs:
            ctx.instance("C01.2", "%s: %s #%d" % (fn, what, c.ordinal))
            ok = any(o is not None and b.dominates(o, c.bb) for o in oks)
            ctx.oblige(ok, "C01.2", "%s:%s#%d" % (fn, what, c.ordinal),
                       "publication point not dominated by the success arm of Wal::fsync", c.loc(),
                       sample={"fn": fn, "publication": what, "site": c.loc(), "fsync_ok_arm_blocks": oks})

    # ---- clause 3: checkpoint covers only synced pages --------------------
    PD = M.PageDirty(F)
    ctx.note("must-sync functions (page file): %d; may-end-dirty functions: %d" % (len(PD.M), len(PD.D)))
    for fn in (M.COMPACT, M.CHECKPOINT_ON_CLOSE):
        b = ctx.body(fn)
        sinks = []
        for c in b.calls():
            if c.name == M.WAL_REWRITE:
                sinks.append((c, "rewrite_as_snapshot"))
            elif c.name == M.WAL_APPEND and M.wal_append_variant(b, c) in ("Checkpoint", "ManifestSwitch"):
                sinks.append((c, "append(%s)" % M.wal_append_variant(b, c)))
        ctx.floor("C01.3", "checkpoint sinks in " + fn, len(sinks), 1)
        dsites = [c for c in b.calls() if PD.is_D_site(c)]
        msites = [c for c in b.calls() if PD.is_M_site(c)]
        for c in dsites:
            ctx.instance("C01.3", "%s: page-writing call %s" % (fn, site_key(c)))
        for c in msites:
            ctx.instance("C01.3", "%s: must-sync call %s" % (fn, site_key(c)))
        # the page file can already be dirty when the function is entered (a commit returns with node-table pages
        # written and not synced): every path from entry to a sink must pass a must-sync call
        if M.COMMIT in PD.D:
            mblocks = {c.bb for c in msites}
            seen = b.reachable([0], avoid=mblocks | PD.fail(b))
            for c, what in sinks:
                ctx.instance("C01.3", "%s: entry (pages dirty from earlier commits) -> %s" % (fn, what))
                ctx.oblige(c.bb not in seen or 0 in mblocks, "C01.3", "%s:entry-dirty->%s" % (fn, what),
                           "pages written by earlier commits (node table, index pages) can still be unsynced when this record lets recovery "
                           "skip the WAL that could rebuild them: no Pager sync on some path from the function's entry", c.loc())
        bad = PD.dirty_before(b, [c.bb for c, _ in sinks])
        badset = {c.bb for c in bad}
        for c in dsites:
            ctx.oblige(c.bb not in badset, "C01.3", "%s:%s" % (fn, site_key(c)),
                       "pages written by this call can still be unsynced when the checkpoint record is logged "
                       "(recovery will skip the WAL that could rebuild them)", c.loc(),
                       detail={"why_dirty": PD.explain(F.call_targets(c)[0]) if F.call_targets(c) else []},
                       sample={"fn": fn, "write_site": c.loc(), "callee": c.name, "sinks": [s for _, s in sinks]})
    ctx.floor("C01.3", "page-writing calls in compact", len([c for c in ctx.body(M.COMPACT).calls() if PD.is_D_site(c)]), 5)

    # ---- clause 5: append position ---------------------------------------
    b = ctx.body(M.WAL_APPEND)
    seeks = [c for c in b.calls() if c.declared == SEEK or c.name.endswith("::seek")]
    ctx.oblige(bool(seeks), "C01.5", "Wal::append:no-positioning",
               "Wal::append does not position the file cursor itself (no seek): after a torn tail was truncated on open the cursor is still past the new "
               "end of file, so acknowledged commits are written behind a hole and lost on the next reopen", b.file)
    # accepted idiom (a): the log is truncated to its valid length on open, inside wal.rs
    open_reach = F.reach([M.ENGINE_OPEN])
    trunc = [x for x in open_reach if x.startswith("nervusdb_storage::wal::") and any(c.name == M.FILE_SET_LEN for c in F.bodies[x].calls())] if True else []
    for c in seeks:
        ctx.instance("C01.5", "Wal::append seek #%d" % c.ordinal)
        l = op_local(c.args[1]) if len(c.args) > 1 else None
        o = b.origin(l) if l is not None else None
        from_end = bool(o and o[0] == "agg" and o[1][3] == "End")
        derived = False
        if o and o[0] == "agg" and o[1][3] == "Start" and o[1][4]:
            sl = op_local(o[1][4][0])
            if sl is not None:
                base, fields = place_path(b, sl)
                derived = any(adt == "nervusdb_storage::wal::Wal" for _, adt in fields)
        ok = bool(trunc) or derived or not from_end
        ctx.oblige(ok, "C01.5", "Wal::append:seek-from-end",
                   "append position is raw end-of-file: after a torn tail, later commits land behind garbage and are unreadable on reopen",
                   c.loc(), sample={"seek_arg": o[1][3] if o and o[0] == "agg" else str(o), "truncate_on_open_fns": trunc})

    # ---- clause 6 (observation only): rename durability ------------------
    # A missing directory fsync only matters under power loss; the property speaks of process death,
    # which cannot undo a rename.  Listed as an observation, never as a finding.
    for x in sorted(callers.get(M.FS_RENAME, ())):
        if not x.startswith("nervusdb_storage::"):
            continue
        b = ctx.body(x)
        syncs = [c.bb for c in b.calls() if c.name in M.FILE_SYNC]
        for c in b.calls_named(M.FS_RENAME):
            after = b.reachable([c.target]) if c.target is not None else set()
            if not [s for s in syncs if s in after and s != c.bb]:
                ctx.observe("%s: fs::rename at %s is not followed by a directory fsync (power-loss durability only)" % (x, c.loc()))


    # ---- clause 8: sync before rename -------------------------------------------------------------
    # After the rename the directory entry of the log names the new file; if its bytes were never fsynced, a power cut leaves an
    # empty or partial log where the only copy of the manifest / checkpoint of every compacted transaction used to be.  The caller's
    # later Wal::fsync comes after the rename and cannot close that window.
    rw = ctx.body(M.WAL_REWRITE)
    renames = [c for c in rw.calls() if c.name == M.FS_RENAME]
    syncs = [c for c in rw.calls() if c.name in M.FILE_SYNC]
    writes = [c for c in rw.calls() if c.name.endswith("::write_all") or c.name.endswith("rewrite_as_snapshot::append_to")]
    ctx.floor("C01.8", "rename sites in rewrite_as_snapshot", len(renames), 1)
    ctx.floor("C01.8", "writes of the replacement log", len(writes), 1)
    for k, r in enumerate(sorted(renames, key=lambda c: (c.line, c.bb))):
        ok = False
        for s in syncs:
            arm = paths.ok_arm(rw, s)
            if arm is not None and rw.dominates(arm, r.bb):
                # the sync must come after the last write: no write reachable from the sync before the rename
                late = [w for w in writes if w.bb in rw.reachable([arm], avoid=[r.bb])]
                if not late:
                    ok = True
        ctx.instance("C01.8", "rewrite_as_snapshot: rename#%d dominated by Ok(sync) of the completely written replacement=%s" % (k, ok))
        ctx.oblige(ok, "C01.8", "rewrite_as_snapshot:rename#%d-before-sync" % k,
                   "the replacement log is renamed over the log before its contents are fsynced: a power cut after the rename leaves an empty log, "
                   "and with it every compacted (acknowledged) transaction is gone", r.loc())

    # ---- clause 9: a maintenance writer cannot overwrite an acknowledged commit ----------------------------------------
    # compact() / checkpoint_on_close() compute the checkpoint and the new published state from the run list; read before the writer
    # mutex is held, a commit acknowledged in between is dropped from memory and covered by a checkpoint that does not contain it.
    from .c09 import writer_rmw_rule
    writer_rmw_rule(ctx, "C01.9")
