"""C09 — Concurrent auto-commit writes lose no updates (PATH dominance)."""
EXPLANATION = (
    "Decides: in every function of the workspace that obtains both a database snapshot and a write transaction from a shared Db handle and "
    "hands both to the statement executor, the call that takes the writer lock (Db::begin_write) dominates the call that takes the snapshot "
    "(Db::snapshot); otherwise two concurrent auto-commit statements can both read the pre-state and the second overwrites the first. "
    "A Db opened inside the same function is an unshared handle (named exception). Statement-level serialisability is not decided."
)

SNAPSHOT = ("nervusdb::Db::snapshot", "nervusdb_storage::engine::GraphEngine::begin_read")
BEGIN_WRITE = ("nervusdb::Db::begin_write", "nervusdb_storage::engine::GraphEngine::begin_write")
DB_OPEN = ("nervusdb::Db::open", "nervusdb::Db::open_paths")
EXEC = ("execute_mixed", "execute_write", "execute_write_with_rows", "execute_streaming")

WITNESSES = ["TransactionBorrowsHandle"]


def run(ctx):
    F = ctx.facts
    ctx.rule("C09.1", "Db::begin_write dominates Db::snapshot wherever both feed one statement execution on a shared handle")
    n = 0
    for i, b in sorted(F.bodies.items()):
        if not i.startswith(("nervusdb", "<nervusdb")) or i.startswith(("nervusdb_storage", "nervusdb_query", "<nervusdb_storage", "<nervusdb_query", "nervusdb_v2_crash_test", "ndb_import")):
            continue
        snaps = [c for c in b.calls() if c.name in SNAPSHOT or (c.name.endswith("::snapshot") and "GraphStore" in c.declared)]
        begins = [c for c in b.calls() if c.name in BEGIN_WRITE]
        if not snaps or not begins:
            continue
        execs = [c for c in b.calls() if c.name.split("::")[-1] in EXEC]
        if not execs:
            continue
        n += 1
        opened_here = any(c.name in DB_OPEN for c in b.calls())
        ctx.analysed_fns.add(i)
        for s in snaps:
            ctx.instance("C09.1", "%s: snapshot#%d vs begin_write (db opened here=%s)" % (i, s.ordinal, opened_here))
            ok = opened_here or any(b.dominates(bw.bb, s.bb) and bw.bb != s.bb for bw in begins)
            ctx.oblige(ok, "C09.1", "%s:snapshot#%d-before-begin_write" % (i, s.ordinal),
                       "the read snapshot is taken before the writer lock: two concurrent auto-commit statements both read the old value and one "
                       "update is lost", s.loc(), sample={"fn": i, "snapshot": s.loc(), "begin_write": [x.loc() for x in begins]})
    ctx.floor("C09.1", "functions pairing snapshot and begin_write", n, 2)
    ctx.body("nervusdb_capi::execute_write_count")
