"""C09 — Concurrent auto-commit writes lose no updates (PATH dominance)."""
EXPLANATION = (
    "Decides: in every function of the workspace that obtains both a database snapshot and a write transaction from a shared Db handle and "
    "hands both to the statement executor, the call that takes the writer lock (Db::begin_write) dominates the call that takes the snapshot "
    "(Db::snapshot); otherwise two concurrent auto-commit statements can both read the pre-state and the second overwrites the first. "
    "A Db opened inside the same function is an unshared handle (named exception). Statement-level serialisability is not decided."
    " C09.3: every engine-state lock taken by a function that acquires the writer mutex (compact, checkpoint_on_close, begin_write) is taken while the mutex is held, so a writer's read-modify-write cannot interleave with another writer."
    " C09.4: WriteTxn::commit keeps the writer guard until its last log write and publication."
)

SNAPSHOT = ("nervusdb::Db::snapshot", "nervusdb_storage::engine::GraphEngine::begin_read")
BEGIN_WRITE = ("nervusdb::Db::begin_write", "nervusdb_storage::engine::GraphEngine::begin_write")
DB_OPEN = ("nervusdb::Db::open", "nervusdb::Db::open_paths")
EXEC = ("execute_mixed", "execute_write", "execute_write_with_rows", "execute_streaming")

WITNESSES = ["TransactionBorrowsHandle"]


def run(ctx):
    F = ctx.facts
    ctx.rule("C09.1", "Db::begin_write dominates Db::snapshot wherever both feed one statement execution on a shared handle")
    ctx.rule("C09.2", "begin_write takes the writer mutex and hands its guard to the transaction; compaction and close-time checkpoint hold it across their log writes")
    n = 0
    for i, b in sorted(F.bodies.items()):
        if not i.startswith(("nervusdb", "<nervusdb")) or i.startswith(("nervusdb_storage", "nervusdb_query", "<nervusdb_storage", "<nervusdb_query", "nervusdb_v2_crash_test", "ndb_import")):
            continue
        snaps = [c for c in b.calls() if c.name in SNAPSHOT or (c.name.endswith("::snapshot") and "GraphStore" in c.declared)]
        begins = [c for c in b.calls() if c.name in BEGIN_WRITE]
        if not snaps or not begins:
            continue
        execs = [c for c in b.calls() if c.name.split("::")[-1] in EXEC]
        if not execs:
            continue
        n += 1
        opened_here = any(c.name in DB_OPEN for c in b.calls())
        ctx.analysed_fns.add(i)
        for s in snaps:
            ctx.instance("C09.1", "%s: snapshot#%d vs begin_write (db opened here=%s)" % (i, s.ordinal, opened_here))
            ok = opened_here or any(b.dominates(bw.bb, s.bb) and bw.bb != s.bb for bw in begins)
            ctx.oblige(ok, "C09.1", "%s:snapshot#%d-before-begin_write" % (i, s.ordinal),
                       "the read snapshot is taken before the writer lock: two concurrent auto-commit statements both read the old value and one "
                       "update is lost", s.loc(), sample={"fn": i, "snapshot": s.loc(), "begin_write": [x.loc() for x in begins]})
    ctx.floor("C09.1", "functions pairing snapshot and begin_write", n, 2)
    ctx.body("nervusdb_capi::execute_write_count")

    from .. import locks
    from .. import model as M
    bw = ctx.body(M.BEGIN_WRITE)
    bl = locks.BodyLocks(bw)
    wl = [a for a in bl.acqs if a.cls == "Mutex<()>" and a.mode == "lock"]
    ctx.instance("C09.2", "begin_write: writer-mutex acquisitions=%d, guard moved into the returned transaction=%s" % (len(wl), [a.escapes for a in wl]))
    ctx.oblige(bool(wl) and any(a.escapes for a in wl), "C09.2", "begin_write:writer-lock-not-held-by-transaction",
               "begin_write does not acquire the writer mutex (blocking `lock`) or does not store its guard in the transaction: two write "
               "transactions can be open at once", bw.file)
    for fn in (M.COMPACT, M.CHECKPOINT_ON_CLOSE):
        b = ctx.body(fn)
        fl = locks.BodyLocks(b)
        acqs = [a for a in fl.acqs if a.cls == "Mutex<()>" and a.mode == "lock"]
        sinks = [c for c in b.calls() if c.name in (M.WAL_APPEND, M.WAL_REWRITE)] + [c for c, _ in M.publication_sites(b)]
        held = all(any(fl.must_hold(a, c.bb) for a in acqs) for c in sinks)
        ctx.instance("C09.2", "%s: writer mutex held across %d log writes / publications=%s" % (fn.split("::")[-1], len(sinks), held))
        ctx.oblige(bool(acqs) and held, "C09.2", fn + ":not-under-writer-lock",
                   "maintenance writes the log / republishes state without holding the writer mutex: it can interleave with an open write transaction", b.file)

    writer_rmw_rule(ctx, "C09.3")
    guard_held_rule(ctx, "C09.4")


def writer_rmw_rule(ctx, rid):
    """shared by C09.3 and C10.2"""
    from .. import locks
    F = ctx.facts
    ctx.rule(rid, "a maintenance writer's read-modify-write is atomic: every engine-state lock it takes (published runs / segments, pager, WAL, id map ...) is taken while it holds the writer mutex")
    # ---- clause 3 -----------------------------------------------------------------------------
    # compact() and checkpoint_on_close() compute the new published state from the current one.  If the current state is read
    # before the writer mutex is taken, a transaction that commits in between is published and then overwritten by the stale
    # result (its run disappears; after close the WAL is rewritten without it).
    n3 = 0
    for i, b in sorted(F.bodies.items()):
        if not i.startswith("nervusdb_storage::") or "::tests::" in i:
            continue
        fl = locks.BodyLocks(b)
        w = [a for a in fl.acqs if a.cls == "Mutex<()>" and a.mode == "lock"]
        if not w:
            continue

        def held_at(x, bb):
            if x.escapes:
                # the guard is moved into the returned transaction: held from the acquisition to the end of the function
                return x.start is not None and b.dominates(x.start, bb)
            return fl.must_hold(x, bb)

        k = {}
        for a in fl.acqs:
            if a.cls == "Mutex<()>":
                continue
            n3 += 1
            held = any(held_at(x, a.call.bb) for x in w)
            lab = "%s.%s" % (a.label[0] if a.label else a.cls, a.mode)
            k[lab] = k.get(lab, -1) + 1
            ctx.instance(rid, "%s: %s at %s under the writer mutex=%s" % (i.split("::")[-1], lab, a.call.loc(), held))
            ctx.oblige(held, rid, "%s:%s#%d-outside-writer-lock" % (i, lab, k[lab]),
                       "a writer reads or locks engine state (%s) before it holds the writer mutex: a transaction committing in between is "
                       "overwritten by the result computed from the stale state" % lab, a.call.loc())
    ctx.floor(rid, "engine-state acquisitions inside maintenance writers", n3, 12)


def guard_held_rule(ctx, rid):
    """C09.4: WriteTxn::commit keeps the writer guard until its last log write and publication"""
    from .. import model as M
    F = ctx.facts
    ctx.rule(rid, "WriteTxn::commit holds the writer guard (`_guard`) across every WAL append / fsync and every publication: no drop or move of the guard can be followed by one of them")
    b = ctx.body(M.COMMIT)
    sinks = [c for c in b.calls() if c.name in (M.WAL_APPEND, M.WAL_FSYNC, M.WAL_REWRITE)] + [c for c, _ in M.publication_sites(b)]
    ctx.floor(rid, "log writes and publications in commit", len(sinks), 8)
    releases = []
    for bi, blk in enumerate(b.blocks):
        if blk["c"]:
            continue
        t = blk["t"]
        if t[0] == "drop" and any(isinstance(p, list) and p[0] == "f" and p[2] == "_guard" for p in t[1][1]):
            releases.append((bi, t[2], "drop at end of scope"))
        for st in blk["s"]:
            if st[0] == "a" and st[2][0] == "use" and st[2][1][0] == "m" and any(isinstance(p, list) and p[0] == "f" and p[2] == "_guard" for p in st[2][1][1][1]):
                releases.append((bi, bi, "moved out (e.g. drop(self._guard))"))
        if t[0] == "call":
            for a in t[2]:
                if a[0] == "m" and any(isinstance(p, list) and p[0] == "f" and p[2] == "_guard" for p in a[1][1]):
                    releases.append((bi, t[4], "moved into %s" % (t[1].get("r") or t[1].get("d") or "?").split("::")[-1]))
    ctx.floor(rid, "release points of the writer guard in commit", len(releases), 1)
    k = 0
    for bi, nxt, how in releases:
        after = [s for s in sinks if nxt is not None and s.bb in b.reachable([nxt])]
        ctx.instance(rid, "commit: guard %s in bb%d — log writes / publications still reachable afterwards: %d" % (how, bi, len(after)))
        ctx.oblige(not after, rid, "commit:guard-released-early#%d" % k,
                   "the writer guard is released (%s) while %d log writes / publications of this commit are still to come: the next writer takes its "
                   "snapshot before this commit is published and overwrites it (lost update)" % (how, len(after)), b.file,
                   sample={"after": [s.loc() for s in after[:5]]})
        if after:
            k += 1
