"""C13 — A failed statement has no effect (PATH + ERRFLOW)."""
from .. import errflow
from .. import paths
from ..facts import op_local
from ..mirutil import place_path, site_key

EXPLANATION = (
    "Decides: (1) auto-commit runners — wherever a function begins a write transaction, executes a statement on it and commits, the commit is "
    "dominated by the Ok arm of the execution call; (2) explicit transactions — a function that executes a statement on a transaction it received "
    "from its caller must, on the statement's error path, restore a savepoint / roll back / poison the transaction (enumerated idioms: a call "
    "named *rollback*, *savepoint*, *restore*, *poison*, *abort*, *discard*, or taking the transaction out of its handle); (3) ERRFLOW in the "
    "write executor — no error of a write-capable call is discarded (`.or_else(|_| ..)`, `.ok()`, `let _ =`). Statement semantics are not decided."
    " C13.4: in the DELETE executors the refusing safety check is never reachable from a tombstone call (validate, then mutate)."
    " C13.6 (shared with C22.3): every row-level expression evaluation in the write executors is preceded by the runtime-compatibility pre-pass for that row, so a statement that must fail on a later row does fail instead of committing a partial update."
)

EXEC_NAMES = ("execute_mixed", "execute_write", "execute_write_with_rows")
BEGIN_WRITE = ("nervusdb::Db::begin_write", "nervusdb_storage::engine::GraphEngine::begin_write")
COMMITS = ("nervusdb::WriteTxn::commit", "nervusdb_storage::engine::WriteTxn::commit")
ROLLBACK_WORDS = ("rollback", "savepoint", "restore", "poison", "abort", "discard")
QERR = ("nervusdb_query::error::Error", "nervusdb_storage::error::Error", "nervusdb::error::Error")
WRITE_EXEC_PREFIX = ("nervusdb_query::executor::write_", "nervusdb_query::executor::create_delete_ops", "nervusdb_query::executor::merge_",
                     "nervusdb_query::executor::foreach_ops", "nervusdb_query::executor::txn_engine_impl", "nervusdb_query::query_api::prepared_query_impl")


def is_exec(c):
    return c.name.split("::")[-1] in EXEC_NAMES and "nervusdb_query" in c.name

WITNESSES = ["CommitConsumesTransaction"]


def run(ctx):
    F = ctx.facts
    ctx.rule("C13.1", "auto-commit: commit is dominated by the Ok arm of the statement execution")
    ctx.rule("C13.2", "explicit transaction: the error path of a statement run on a caller-owned transaction rolls back or poisons it")
    ctx.rule("C13.3", "write executor never discards an error of a write-capable call")
    write_eval_guard_rule(ctx)

    n1 = n2 = 0
    for i, b in sorted(F.bodies.items()):
        if not i.startswith(("nervusdb_capi", "nervusdb_cli", "nervusdb_pyo3", "nervusdb::", "<nervusdb::")):
            continue
        execs = [c for c in b.calls() if is_exec(c)]
        if not execs:
            continue
        begins = [c for c in b.calls() if c.name in BEGIN_WRITE]
        commits = [c for c in b.calls() if c.name in COMMITS]
        if begins and commits:
            n1 += 1
            ctx.analysed_fns.add(i)
            for cm in commits:
                oks = [paths.ok_arm(b, e) for e in execs]
                ok = any(o is not None and b.dominates(o, cm.bb) for o in oks)
                ctx.instance("C13.1", "%s: commit#%d after Ok(%s)" % (i, cm.ordinal, [site_key(e) for e in execs]))
                ctx.oblige(ok, "C13.1", "%s:commit#%d-not-guarded-by-ok" % (i, cm.ordinal),
                           "commit is reachable although the statement failed: a failed statement's partial writes are committed", cm.loc(),
                           sample={"fn": i, "commit": cm.loc(), "exec_ok_arms": oks})
        for e in execs:
            # which argument is the transaction?  `&mut WriteTxn` / `&mut dyn WriteableGraph`
            txn_arg = None
            for a in e.args:
                l = op_local(a)
                if l is not None and "WriteTxn" in b.local_ty(l) and "&" in b.local_ty(l)[:8]:
                    txn_arg = l
            if txn_arg is None:
                continue
            base, _fields = place_path(b, txn_arg)
            if base[0] != "arg":
                continue
            n2 += 1
            ctx.analysed_fns.add(i)
            ctx.instance("C13.2", "%s: %s on caller-owned transaction (param %d)" % (i, site_key(e), base[1]))
            # error path: blocks reachable from the exec call through fail blocks; also look one level up in callers
            fb = paths.fail_blocks(b)
            after = b.reachable([e.target]) if e.target is not None else set()
            err_region = set()
            for f in fb:
                if f in after:
                    err_region |= b.reachable([f])
            names = {c.name for c in b.calls() if c.bb in err_region}
            handled = any(any(w in n.lower() for w in ROLLBACK_WORDS) for n in names)
            if not handled:
                for cid in sorted(F.callers().get(i, ())):
                    cb = F.bodies[cid]
                    for c2 in cb.calls():
                        if i in F.call_targets(c2):
                            fb2 = paths.fail_blocks(cb)
                            aft = cb.reachable([c2.target]) if c2.target is not None else set()
                            reg = set()
                            for f in fb2:
                                if f in aft:
                                    reg |= cb.reachable([f])
                            nm = {c.name for c in cb.calls() if c.bb in reg}
                            if any(any(w in n.lower() for w in ROLLBACK_WORDS) for n in nm):
                                handled = True
            ctx.oblige(handled, "C13.2", "%s:%s:error-keeps-partial-writes" % (i, site_key(e)),
                       "a statement that fails inside an explicit transaction leaves its partial writes staged; a later commit of the "
                       "transaction makes the failed statement's effects durable", e.loc(), sample={"fn": i, "exec": e.loc()})
    ctx.floor("C13.1", "auto-commit runners", n1, 2)
    ctx.floor("C13.2", "statement runners on caller-owned transactions", n2, 1)

    scoped = [i for i in sorted(F.bodies) if i.startswith(WRITE_EXEC_PREFIX)]
    ctx.floor("C13.3", "write-executor bodies scanned", len(scoped), 60)
    seen = set()
    nres = 0
    for i in scoped:
        b = F.bodies[i]
        ctx.analysed_fns.add(i)
        nres += len([c for c in b.calls() if errflow.is_result_ty(b.local_ty(c.dest[0]), QERR)])
        for it in errflow.scan(F, b, err_substr=QERR):
            k = "%s:%s" % (i, errflow.key_of(it))
            if k in seen:
                continue
            seen.add(k)
            c = it.get("call")
            # what produced the discarded result?
            src = None
            if c is not None and c.args:
                o = b.origin(op_local(c.args[0])) if op_local(c.args[0]) is not None else None
                if o and o[0] == "call" and o[1] is not None:
                    src = o[1].name
            ctx.oblige(False, "C13.3", k,
                       "the error of `%s` is discarded (%s) and execution continues: writes already staged by the failed sub-plan stay in the transaction"
                       % ((src or (c.name if c else "?")).split("::")[-1], it["kind"]), c.loc() if c else b.file,
                       sample={"fn": i, "kind": it["kind"], "source": src})
    ctx.instance("C13.3", "%d fallible call sites in %d write-executor bodies" % (nres, len(scoped)))
    ctx.obligations += nres
    ctx.discharged += max(nres - len(seen), 0)

    # ---- clause 4: DELETE validates before it mutates ------------------------------------------------------
    # There is no statement-level savepoint: what a statement wrote into the transaction before it failed stays there (C13.2).  DELETE
    # avoids that by checking every target (ensure_non_detach_delete_safety can refuse) before the first tombstone.  If the refusal point
    # is reachable from a tombstone call — e.g. the check moved into the per-node loop — a refused DELETE leaves its earlier targets
    # deleted in an explicit transaction.
    ctx.rule("C13.4", "in the DELETE executors the refusing safety check is never reachable from a tombstone call (validate, then mutate)")
    SAFETY = "nervusdb_query::executor::create_delete_ops::ensure_non_detach_delete_safety"
    n4 = 0
    for i, b in sorted(F.bodies.items()):
        if not i.startswith("nervusdb_query::executor::") or "::tests::" in i:
            continue
        checks = [c for c in b.calls() if c.name == SAFETY]
        if not checks:
            continue
        muts = [c for c in b.calls() if c.declared.startswith("nervusdb_query::executor::WriteableGraph::tombstone_") or c.name.split("::")[-1] in ("tombstone_node", "tombstone_edge")]
        for k, v in enumerate(sorted(checks, key=lambda c: (c.line, c.bb))):
            n4 += 1
            before = [m for m in muts if m.target is not None and v.bb in b.reachable([m.target])]
            ctx.instance("C13.4", "%s: safety check #%d reachable from %d tombstone call(s)" % (i.split("::")[-1], k, len(before)))
            ctx.oblige(not before, "C13.4", "%s:safety-check#%d-after-mutation" % (i, k),
                       "DELETE can refuse (relationships still attached) after it already tombstoned earlier targets: in an explicit transaction the refused "
                       "statement's partial deletes are committed with the next commit", v.loc())
    ctx.floor("C13.4", "safety checks in DELETE executors", n4, 2)

    # ---- clause 5: MERGE evaluates everything that can fail before it creates anything ------------------------------------------
    # A relationship MERGE evaluates the property maps of both endpoints and of the relationship (each can raise a runtime error) and then
    # creates what is missing.  With no statement-level savepoint, an evaluation that happens after a node was created leaves that node staged
    # when it fails; in an explicit transaction the next commit makes it permanent.
    ctx.rule("C13.5", "in the MERGE create executors no property-map evaluation of a row is reachable, within the same row iteration, from a creating call (create node / relationship, set property)")
    EVALP = "merge_eval_props_on_row"
    CREATORS = ("merge_create_node", "create_node", "create_edge", "merge_create_edge", "set_node_property", "set_edge_property")
    n5 = 0
    for i, b in sorted(F.bodies.items()):
        if not i.startswith("nervusdb_query::executor::merge_") or "::tests::" in i or b.root:
            continue
        evs = [c for c in b.calls() if c.name.split("::")[-1] == EVALP]
        cre = [c for c in b.calls() if c.name.split("::")[-1] in CREATORS or c.declared.split("::")[-1] in CREATORS]
        if not evs or not cre:
            continue
        from ..evalguard import _loop_header, _loop_blocks
        for k, e in enumerate(sorted(evs, key=lambda c: (c.line, c.bb))):
            n5 += 1
            # the row loop this evaluation belongs to: the outermost loop containing it (inner loops iterate candidates of the same row)
            hdr = None
            h = _loop_header(b, e.bb)
            while h is not None:
                hdr = h
                outer = None
                for h2 in range(len(b.blocks)):
                    if h2 != h and b.dominates(h2, h) and any(b.dominates(h2, p_) for p_ in b.preds(h2)) and h in _loop_blocks(b, h2):
                        if outer is None or b.dominates(outer, h2):
                            outer = h2
                h = outer
            before = [m for m in cre if m.target is not None and e.bb in b.reachable([m.target], avoid=[hdr] if hdr is not None else [])]
            ctx.instance("C13.5", "%s: property-map evaluation #%d reachable from %d creating call(s) of the same row" % (i.split("::")[-1], k, len(before)))
            ctx.oblige(not before, "C13.5", "%s:eval#%d-after-create" % (i, k),
                       "a property map that can fail at run time is evaluated after %s already created something for the same row: the failed MERGE leaves the "
                       "created node staged in an explicit transaction" % sorted({m.name.split("::")[-1] for m in before}), e.loc())
    ctx.floor("C13.5", "property-map evaluations in MERGE create executors", n5, 3)


WRITE_MODULES = ("create_delete_ops", "write_path", "write_support", "foreach_ops", "write_orchestration", "merge_execution", "merge_helpers",
                 "merge_execute_support", "write_dispatch", "write_forwarders")


def write_eval_guard_rule(ctx, rid="C13.6"):
    """a statement that must fail does fail: write executors evaluate user expressions only behind the per-row runtime-compatibility pre-pass (shared with C22.3)"""
    from .. import evalguard
    from ..mirutil import site_key
    F = ctx.facts
    ctx.rule(rid, "in the write executors every row-level expression evaluation is preceded by the runtime-compatibility pre-pass for that row: otherwise a "
             "type error on a later row evaluates to null, the statement reports success and its partial (and for SET destructive) effect is committed")
    n = 0
    for b, c, g in evalguard.scan(F):
        root = b.root or b.id
        parts = root.split("::")
        if len(parts) < 3 or parts[2] not in WRITE_MODULES:
            continue
        n += 1
        ctx.instance(rid, "%s: %s guarded=%s" % (b.id, site_key(c), g))
        ctx.oblige(g, rid, "%s:%s:unguarded-evaluation" % (b.id, site_key(c)),
                   "a write executor evaluates a user expression for a row without the runtime-compatibility pre-pass for that row: a statement that has to fail "
                   "on that row succeeds with null instead and commits the other rows", c.loc(), sample={"fn": b.id, "site": c.loc()})
    ctx.floor(rid, "evaluation sites in write executors", n, 10)
