"""C30 — Bulk load equals transactional load (TABLES constructor shape + PATH)."""
from .. import model as M
from .. import paths
from .c05 import csr_literals, is_vec_new

EXPLANATION = (
    "Decides the structural clauses shared with the transactional path: (1) every CsrSegment literal built by the bulk loader with no edges still "
    "has sentinel reverse offsets (same rule as C05.3: an empty `in_offsets` makes incoming traversal of node 0 index out of bounds, which the "
    "transactional path can also hit only through this constructor); (2) the WAL bootstrap of the bulk loader is bracketed BeginTx..CommitTx and "
    "fsynced, and the manifest it logs is dominated by successful writes of segments, properties and statistics. Whether the unsynced page file matters "
    "is a power-loss question outside this property (listed as an observation). Content equality with a transactional load is not decided."
    " C30.3: no segment builder iterates a set of edge keys (or dedups the edge vector) into a segment — relationships are a multiset."
    " C30.4: the bulk loader's external -> internal id map is only accessed by key."
    " C30.5: BulkLoader::write_properties never branches on the kind of a property value, so every value it is given reaches the property tree."
)


def run(ctx):
    F = ctx.facts
    ctx.rule("C30.1", "edge-less CsrSegment literals of the bulk loader keep sentinel reverse offsets")
    ctx.rule("C30.2", "bulk WAL bootstrap is bracketed and fsynced; manifest logged only after the page writes succeeded")
    lits = [x for x in csr_literals(F) if x[0].id.startswith("nervusdb_storage::bulkload::")]
    ctx.floor("C30.1", "CsrSegment literals in bulkload.rs", len(lits), 2)
    for b, bi, n, ops, line in lits:
        ctx.analysed_fns.add(b.id)
        e_empty = is_vec_new(b, ops["edges"])
        in_empty = is_vec_new(b, ops["in_offsets"])
        ctx.instance("C30.1", "%s literal#%d edges_empty=%s in_offsets_empty=%s" % (b.id, n, e_empty, in_empty))
        ctx.oblige(not (e_empty and in_empty), "C30.1", "%s:CsrSegment#%d:empty-in_offsets" % (b.id, n),
                   "a bulk load without relationships produces a segment whose `in_offsets` is empty: the first incoming traversal of node 0 "
                   "indexes out of bounds, while the same data loaded through transactions answers the query", "%s:%d" % (b.file, line))
    ib = ctx.body(M.BULK_INIT_WAL)
    apps = [(c, M.wal_append_variant(ib, c)) for c in ib.calls() if c.name == M.WAL_APPEND]
    begins = [c for c, v in apps if v == "BeginTx"]
    commits = [c for c, v in apps if v == "CommitTx"]
    fsyncs = [c.bb for c in ib.calls() if c.name == M.WAL_FSYNC]
    ctx.floor("C30.2", "appends in initialize_wal", len(apps), 4)
    for c, v in apps:
        ctx.instance("C30.2", "initialize_wal: append(%s)#%d" % (v, c.ordinal))
        rets = paths.success_returns_reachable(ib, [c.target], avoid=fsyncs)
        dom = v == "BeginTx" or any(ib.dominates(bg.bb, c.bb) for bg in begins)
        closed = v == "CommitTx" or not paths.success_returns_reachable(ib, [c.target], avoid=[x.bb for x in commits])
        ctx.oblige(not rets and dom and closed, "C30.2", "initialize_wal:append(%s)#%d" % (v, c.ordinal),
                   "bulk WAL bootstrap record not bracketed / not fsynced before success", c.loc())
    cb = ctx.body(M.BULK_COMMIT)
    init = [c for c in cb.calls() if c.name == M.BULK_INIT_WAL]
    writers = [c for c in cb.calls() if c.name.split("::")[-1] in ("write_segments", "write_properties", "write_statistics")]
    ctx.floor("C30.2", "page-writing stages in BulkLoader::commit", len(writers), 3)
    for w in writers:
        ok = paths.ok_arm(cb, w)
        ctx.instance("C30.2", "commit: %s Ok-dominates initialize_wal" % w.name.split("::")[-1])
        ctx.oblige(bool(init) and ok is not None and all(cb.dominates(ok, i.bb) for i in init), "C30.2",
                   "BulkLoader::commit:%s-not-before-manifest" % w.name.split("::")[-1],
                   "the manifest can be logged although %s failed or has not run" % w.name.split("::")[-1], w.loc())
    PD = M.PageDirty(F)
    bad = PD.dirty_before(cb, [c.bb for c in init])
    if bad:
        ctx.observe("BulkLoader::commit logs the manifest with page writes possibly unsynced (%s): power-loss durability only"
                    % [c.name.split("::")[-1] for c in bad])

    # ---- clause 3: relationships are a multiset --------------------------------------------------
    # Parallel relationships (same start, type and end) are distinct relationships.  The transactional path accumulates a run's edges
    # in a Vec; a segment builder that routes them through a *set* keyed by (src, rel, dst) silently merges them.  Sets of edge keys are
    # legitimate as filters (tombstones: only `contains` / `extend` / `insert`), never as the carrier that is iterated into the segment.
    from ..facts import op_local
    from ..mirutil import peel_refs
    ctx.rule("C30.3", "no segment builder iterates a set of edge keys into a segment (parallel relationships must survive): edge-key sets are filters only")
    BUILDERS = ["nervusdb_storage::bulkload::BulkLoader::build_segments", "nervusdb_storage::engine::build_segment_from_runs"]
    ITER = ("iter", "into_iter", "drain", "len", "first", "last", "range")
    n3 = 0
    for fn in BUILDERS:
        b = ctx.body(fn)
        sets = [l for l in range(len(b.locals)) if ("BTreeSet<" in b.local_ty(l) or "HashSet<" in b.local_ty(l)) and "EdgeKey" in b.local_ty(l) and not b.local_ty(l).startswith("&")]
        vecs = [l for l in range(len(b.locals)) if b.local_ty(l).startswith("alloc::vec::Vec<") and "EdgeKey" in b.local_ty(l)]
        n3 += 1
        bad = []
        for c in b.calls():
            if not c.args:
                continue
            l = op_local(c.args[0])
            if l is None:
                continue
            r = peel_refs(b, l)
            if r in sets and c.name.split("::")[-1] in ITER:
                bad.append("%s at %s" % (c.name.split("::")[-1], c.loc()))
            if r in vecs and c.name.split("::")[-1].startswith("dedup"):
                bad.append("%s at %s" % (c.name.split("::")[-1], c.loc()))
        ctx.instance("C30.3", "%s: edge-key sets=%d (iterated: %s), edge-key vectors=%d" % (fn.split("::")[-1], len(sets), bad or "no", len(vecs)))
        ctx.oblige(not bad and bool(vecs), "C30.3", "%s:edges-through-a-set" % fn,
                   "the segment's edges are carried in a set keyed by (src, rel, dst) (%s): parallel relationships collapse into one, while the "
                   "transactional path keeps them" % (bad or "no edge vector at all"), b.file)
    ctx.floor("C30.3", "segment builders", n3, 2)

    # ---- clause 4: internal ids are looked up by key ----------------------------------------------------------------
    # The loader hands out internal ids in insertion order and remembers them in `external_to_internal`, a BTreeMap ordered by *external* id.
    # Pairing nodes with the map positionally (`zip(map.values())`, iteration order) is only right when the input happens to be sorted by
    # external id; otherwise properties / edges are attached to other nodes than the transactional load would attach them to.
    all_values_rule(ctx)
    ctx.rule("C30.4", "the bulk loader's external -> internal id map is only accessed by key (index / get / insert / contains_key): never iterated or zipped positionally")
    KEYED = ("index", "get", "insert", "contains_key", "len", "is_empty", "entry", "get_mut")
    n4 = 0
    for i, b in sorted(F.bodies.items()):
        if not i.startswith("nervusdb_storage::bulkload::") or "::tests::" in i:
            continue
        k = 0
        for c in b.calls():
            if not c.args:
                continue
            l = op_local(c.args[0])
            if l is None:
                continue
            r = peel_refs(b, l)
            if "BTreeMap<u64, u32" not in b.local_ty(r) or b.local_ty(r).startswith("&") and "BTreeMap<u64, u32" not in b.local_ty(r):
                continue
            short = c.name.split("::")[-1]
            if short in ("branch", "from_residual", "deref", "clone", "drop"):
                continue
            n4 += 1
            ctx.instance("C30.4", "%s: external_to_internal.%s (%s)" % (i.split("::")[-1], short, c.loc()))
            ctx.oblige(short in KEYED, "C30.4", "%s:id-map.%s#%d" % (b.root or i, short, k),
                       "the external -> internal id map is traversed (`%s`) instead of looked up by key: its order is the order of external ids, not the "
                       "order in which internal ids were handed out, so nodes given in unsorted order get each other's properties" % short, c.loc())
            k += 1
    ctx.floor("C30.4", "accesses to the id map in the bulk loader", n4, 5)


WRITE_PROPS = "nervusdb_storage::bulkload::BulkLoader::write_properties"


def all_values_rule(ctx, rid="C30.5"):
    """the bulk loader stores every property value it is given, whatever its kind (the transactional path does)"""
    from ..facts import op_local
    F = ctx.facts
    ctx.rule(rid, "BulkLoader::write_properties never branches on the kind of a property value: every (key, value) of every node and relationship reaches the "
             "property tree, as it does through set_node_property / set_edge_property + compaction")
    b = ctx.body(WRITE_PROPS)
    bodies = [b] + [cb for cb in F.closures_of(WRITE_PROPS)]
    inserts = [c for x in bodies for c in x.calls() if c.name.endswith("index::btree::BTree::insert")]
    ctx.floor(rid, "property-tree inserts in write_properties", len(inserts), 2)
    n = 0
    for x in bodies:
        for bi, blk in enumerate(x.blocks):
            if x.is_cleanup(bi):
                continue
            for st in blk["s"]:
                if st[0] == "a" and st[2][0] == "discr":
                    l = st[2][1][0]
                    ty = x.local_ty(l)
                    if "PropertyValue" in ty and "Option" not in ty and "Result" not in ty:
                        n += 1
                        ctx.finding(rid, "%s:write_properties:value-kind-test#%d" % (rid, n),
                                    "write_properties inspects the kind of a property value (%s) before storing it: values of the skipped kind are missing from a "
                                    "bulk-loaded database although a transactional load keeps them" % ty, "%s:%d" % (x.file, st[3] if len(st) > 3 else x.line))
    ctx.instance(rid, "value-kind tests in write_properties: %d; inserts: %d" % (n, len(inserts)))
