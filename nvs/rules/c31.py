"""C31 — Vector search is sound and durable: B-tree root durability (typestate over BTree owners)."""
from .. import model as M
from .. import paths
from ..mirutil import recv_fields, site_key

EXPLANATION = (
    "Decides only the durability clause: BTree::insert / delete may replace the tree's root page, so every owner of a BTree must read root() after "
    "mutating it and store it where open() loads it from. Local owners (a tree loaded/created in the function): every success path from the mutation "
    "to the return passes BTree::root(). Field owners (a BTree kept in a struct, the HNSW vector and graph stores): the owning type must expose the "
    "root (a method reaching BTree::root on that field) and the engine's vector-insert path must reach IndexCatalog::update_root. "
    "Distances, ordering and exactness of search results are not decided."
    " C31.3: every method of a cache-owning store that writes the backing store also updates or invalidates the cache."
    " C31.4: in HnswIndex::insert a neighbour list is truncated only under len > 2*m (the bound in the property's small-index exactness clause)."
    " C31.5: HnswIndex::search hands the base-layer search a width derived from params.ef_search that passes through no `min` / `clamp`, and the default ef_search is at least 2*m + 1 (the size up to which results must be exact)."
)

BTREE = "nervusdb_storage::index::btree::BTree"
MUT = (BTREE + "::insert", BTREE + "::delete")
ROOT = BTREE + "::root"
UPDATE_ROOT = "nervusdb_storage::index::catalog::IndexCatalog::update_root"
INSERT_VECTOR = M.ENGINE + "::insert_vector"


def run(ctx):
    F = ctx.facts
    ctx.rule("C31.1", "local BTree owners read root() after every insert/delete on all success paths")
    search_width_rule(ctx)
    ctx.rule("C31.2", "struct-held BTrees expose their root and the vector-insert path persists it in the catalog")
    n_local = 0
    field_owners = {}
    for i, b in sorted(F.bodies.items()):
        if not i.startswith(("nervusdb_storage", "<nervusdb_storage")) or i.startswith(BTREE) or "::tests::" in i:
            continue
        muts = [c for c in b.calls() if c.name in MUT]
        if not muts:
            continue
        ctx.analysed_fns.add(i)
        roots = [c.bb for c in b.calls() if c.name == ROOT]
        for c in muts:
            base, fields = recv_fields(b, c, 0)
            held = [(f, adt) for f, adt in fields if adt.startswith("nervusdb_storage::") and base and base[0] == "arg"]
            if held:
                field_owners.setdefault(held[-1], []).append((i, c))
                continue
            n_local += 1
            rets = paths.success_returns_reachable(b, [c.target], avoid=roots) if c.target is not None else []
            ctx.instance("C31.1", "%s: %s followed by root()=%s" % (i, site_key(c), not rets))
            ctx.oblige(not rets, "C31.1", "%s:%s:root-not-read" % (b.root or i, site_key(c)),
                       "the tree is mutated and the function can return without reading the (possibly new) root: after a root split the stored "
                       "root pointer is stale and reopen loads an old tree", c.loc(), sample={"fn": i, "site": c.loc()})
    ctx.floor("C31.1", "local-owner mutation sites", n_local, 6)
    ctx.floor("C31.2", "struct-held BTrees", len(field_owners), 2)
    reaches_update = F.reaches(INSERT_VECTOR, {UPDATE_ROOT})
    ctx.body(INSERT_VECTOR)
    for (f, adt), sites in sorted(field_owners.items()):
        exposes = False
        for i, b in F.bodies.items():
            if b.self_ty and b.self_ty.split("<")[0] == adt:
                for c in b.calls():
                    if c.name == ROOT:
                        exposes = True
        ctx.instance("C31.2", "%s.%s mutated at %d sites; owner exposes root=%s; insert_vector reaches update_root=%s" % (adt, f, len(sites), exposes, bool(reaches_update)))
        ctx.oblige(exposes and bool(reaches_update), "C31.2", "%s.%s:root-never-persisted" % (adt, f),
                   "this B-tree lives in a struct that never hands its root back: the catalog entry keeps the root recorded at creation, so after "
                   "the first root split a reopen loads a stale root and stored vectors / graph links disappear", sites[0][1].loc(),
                   sample={"owner": adt, "field": f, "mutation_sites": [c.loc() for _, c in sites]})

    # ---- clause 3: write-through or invalidate -----------------------------------------------------
    # A struct that answers reads from an in-memory cache before it looks at the backing store must update or invalidate the cache
    # in every method that writes the backing store; otherwise an overwritten vector keeps its old value in memory: search computes
    # distances to a vector that is no longer stored, and results change across reopen.
    from ..mirutil import recv_field
    ctx.rule("C31.3", "every method of a cache-owning store that writes the backing store also updates or invalidates the cache (write-through or invalidate)")
    STORE_WRITES = (BTREE + "::insert", BTREE + "::delete", BTREE + "::delete_exact_rebuild",
                    "nervusdb_storage::blob_store::BlobStore::write", "nervusdb_storage::blob_store::BlobStore::write_direct",
                    "nervusdb_storage::blob_store::BlobStore::delete", M.WRITE_PAGE)
    owners = []
    for aid, a in sorted(F.adts.items()):
        if not aid.startswith("nervusdb_storage::") or a.get("kind") != "struct":
            continue
        for v in a.get("variants", []):
            for f in v.get("fields", []):
                fty = f[1]
                base_ty = fty.split("<")[0]
                if base_ty.endswith("Cache") and base_ty.startswith("nervusdb_storage::"):
                    owners.append((aid, f[0], fty))
    ctx.floor("C31.3", "cache-owning stores", len(owners), 1)
    n3 = 0
    for aid, fname, fty in owners:
        for i, b in sorted(F.bodies.items()):
            if b.root or not b.self_ty or b.self_ty.split("<")[0] != aid:
                continue
            writes = [c for c in b.calls() if c.name in STORE_WRITES]
            if not writes:
                continue
            n3 += 1
            touches = []
            for c in b.calls():
                if not c.args or c.args[0][0] not in ("c", "m"):
                    continue
                fld = recv_field(b, c)
                if fld and fld[0] == fname and fld[1] == aid and b.local_ty(c.args[0][1][0]).startswith("&mut"):
                    cb = F.bodies.get(c.name)
                    # a mutating cache method: writes one of the cache's fields (put / remove / clear), not a pure lookup that only reorders the LRU list
                    touches.append(c.name.split("::")[-1])
            updates = [t for t in touches if t not in ("get", "peek", "contains", "len")]
            ctx.instance("C31.3", "%s writes the store (%s); cache calls: %s" % (i, sorted({c.name.split("::")[-1] for c in writes}), touches))
            ctx.oblige(bool(updates), "C31.3", "%s:writes-store-without-cache-update" % i,
                       "the method writes the backing store of %s but neither updates nor invalidates `%s`: a later read is answered from the stale "
                       "cache entry (search distances and the k nearest are computed against a vector that is no longer stored)" % (aid.split("::")[-1], fname), b.file)
    ctx.floor("C31.3", "store-writing methods of cache owners", n3, 1)

    # ---- clause 4: back-link lists are cut only when they exceed 2*m ------------------------------------------------
    # The property promises exact k-nearest results while the index holds at most 2*m + 1 vectors: then no node can have more than 2*m
    # neighbours and, as long as a list is truncated only when its length *exceeds* 2*m, nothing is ever cut, layer 0 stays a bidirectional
    # connected graph and the search is exhaustive.  Truncating at `>= 2*m` (or at any smaller bound) drops links at exactly 2*m + 1 vectors.
    from ..facts import op_local
    from ..mirutil import switch_on
    ctx.rule("C31.4", "in HnswIndex::insert a neighbour list is truncated only under `len > 2*m` (strict, bound derived from m * 2)")
    hid = [i for i in F.bodies if i.startswith("nervusdb_storage::index::hnsw::logic::HnswIndex") and i.endswith("::insert")]
    if not hid:
        ctx.body("nervusdb_storage::index::hnsw::logic::HnswIndex::insert")
    hb = ctx.body(hid[0])
    truncs = [c for c in hb.calls() if c.name.endswith("::truncate")]
    ctx.floor("C31.4", "truncate sites in HnswIndex::insert", len(truncs), 1)

    def derives_from_m_times_2(l, depth=6):
        """value is (m * 2) [+ 0]: a Mul by the constant 2 somewhere in its definition, no other arithmetic"""
        for _ in range(depth):
            if l is None:
                return False
            o = hb.origin(l)
            if not o:
                return False
            if o[0] == "place":  # (_t.0) of a checked multiplication
                sd = hb.single_def(o[1][0])
                if sd and sd[2] == "assign" and sd[3][2][0] == "bin" and sd[3][2][1] in ("Mul", "MulWithOverflow"):
                    ops = (sd[3][2][2], sd[3][2][3])
                    return any(x[0] == "k" and x[1].get("v") == 2 for x in ops)
                l = o[1][0]
                continue
            if o[0] == "rv" and o[1][0] == "bin" and o[1][1] in ("Mul", "MulWithOverflow"):
                return any(x[0] == "k" and x[1].get("v") == 2 for x in (o[1][2], o[1][3]))
            return False
        return False

    for k, tc in enumerate(truncs):
        ok = False
        why = "no dominating length comparison"
        for sb in range(len(hb.blocks)):
            sw = switch_on(hb, sb)
            if not sw or not hb.dominates(sb, tc.bb):
                continue
            sd = hb.single_def(sw[0])
            if not (sd and sd[2] == "assign" and sd[3][2][0] == "bin" and sd[3][2][1] in ("Gt", "Ge", "Lt", "Le")):
                continue
            op, a, b_ = sd[3][2][1], sd[3][2][2], sd[3][2][3]
            la, lb = op_local(a), op_local(b_)
            oa = hb.origin(la) if la is not None else None
            ob = hb.origin(lb) if lb is not None else None
            a_len = bool(oa and oa[0] == "call" and oa[1].name.endswith("::len"))
            b_len = bool(ob and ob[0] == "call" and ob[1].name.endswith("::len"))
            if a_len and derives_from_m_times_2(lb):
                ok, why = (op == "Gt"), "len %s 2*m" % op
            elif b_len and derives_from_m_times_2(la):
                ok, why = (op == "Lt"), "2*m %s len" % op
            else:
                continue
            # the truncation must sit on the true arm
            t_false = [tb for v, tb in sw[2] if v == 0]
            if ok and t_false and tc.bb in hb.reachable(t_false) and tc.bb not in hb.reachable([sw[3]]):
                ok, why = False, "truncation on the false arm"
            break
        ctx.instance("C31.4", "HnswIndex::insert truncate #%d guarded by: %s" % (k, why))
        ctx.oblige(ok, "C31.4", "HnswIndex::insert:truncate#%d-threshold" % k,
                   "a neighbour list is truncated under `%s` instead of `len > 2*m`: with exactly 2*m + 1 vectors a hub loses links, some vector becomes "
                   "unreachable and the small-index search is no longer exact" % why, tc.loc())


HNSW = "nervusdb_storage::index::hnsw::logic::HnswIndex"
HPARAMS = "nervusdb_storage::index::hnsw::params::HnswParams"


def search_width_rule(ctx, rid="C31.5"):
    """the base-layer search runs with the configured width ef_search, never narrowed by k; the default width covers a small index"""
    from ..facts import op_local, op_const
    from ..mirutil import backward_slice
    F = ctx.facts
    ctx.rule(rid, "HnswIndex::search hands search_layer a width that derives from params.ef_search and passes no `min` (exactness for an index of at most "
             "2m+1 vectors needs the base-layer search to visit every node); the default ef_search is at least 2*m + 1")
    cands = [i for i in F.bodies if i.startswith(HNSW) and i.endswith("::search")]
    ctx.floor(rid, "HnswIndex::search bodies", len(cands), 1)
    n = 0
    for i in cands:
        b = F.bodies[i]
        for c in b.calls():
            if not c.name.endswith("::search_layer") or len(c.args) < 6:
                continue
            layer = op_const(c.args[5])
            if layer is None or layer.get("v") != 0:
                continue
            n += 1
            ef = op_local(c.args[4])
            calls, fields = backward_slice(b, ef, depth=12) if ef is not None else ([], set())
            from_ef = any(f[0] == "ef_search" for f in fields)
            narrowed = [x.name for x in calls if x.declared.endswith("::min") or x.name.endswith("::min") or x.name.endswith("::clamp")]
            ctx.instance(rid, "search: base-layer width from ef_search=%s, narrowing calls=%s" % (from_ef, narrowed or "none"))
            ctx.oblige(from_ef and not narrowed, rid, "%s:search:base-layer-width" % rid,
                       "the base-layer search width is %s: with a width of k the search is greedy and stops at a local minimum, so a small index no longer returns "
                       "exactly the k nearest" % ("narrowed by %s" % narrowed[0].split("::")[-1] if narrowed else "not derived from params.ef_search"), c.loc())
    ctx.floor(rid, "base-layer search_layer calls", n, 1)
    # default parameters
    d = [i for i in F.bodies if HPARAMS in i and i.endswith("::default")]
    ctx.floor(rid, "HnswParams::default", len(d), 1)
    for i in d:
        b = F.bodies[i]
        vals = {}
        for blk in b.blocks:
            for st in blk["s"]:
                if st[0] == "a" and st[2][0] == "agg" and st[2][1] == "adt" and st[2][2] == HPARAMS:
                    for name, op in zip(st[2][5], st[2][4]):
                        k = op_const(op)
                        if k is not None:
                            vals[name] = k.get("v")
        ok = isinstance(vals.get("m"), int) and isinstance(vals.get("ef_search"), int) and vals["ef_search"] >= 2 * vals["m"] + 1
        ctx.instance(rid, "HnswParams::default: m=%s ef_search=%s" % (vals.get("m"), vals.get("ef_search")))
        ctx.oblige(ok, rid, "%s:default:ef_search-below-2m+1" % rid, "the default search width (%s) does not cover an index of 2*m+1 = %s vectors" %
                   (vals.get("ef_search"), (2 * vals["m"] + 1) if isinstance(vals.get("m"), int) else "?"), b.file)
