"""C31 — Vector search is sound and durable: B-tree root durability (typestate over BTree owners)."""
from .. import model as M
from .. import paths
from ..mirutil import recv_fields, site_key

EXPLANATION = (
    "Decides only the durability clause: BTree::insert / delete may replace the tree's root page, so every owner of a BTree must read root() after "
    "mutating it and store it where open() loads it from. Local owners (a tree loaded/created in the function): every success path from the mutation "
    "to the return passes BTree::root(). Field owners (a BTree kept in a struct, the HNSW vector and graph stores): the owning type must expose the "
    "root (a method reaching BTree::root on that field) and the engine's vector-insert path must reach IndexCatalog::update_root. "
    "Distances, ordering and exactness of search results are not decided."
)

BTREE = "nervusdb_storage::index::btree::BTree"
MUT = (BTREE + "::insert", BTREE + "::delete")
ROOT = BTREE + "::root"
UPDATE_ROOT = "nervusdb_storage::index::catalog::IndexCatalog::update_root"
INSERT_VECTOR = M.ENGINE + "::insert_vector"


def run(ctx):
    F = ctx.facts
    ctx.rule("C31.1", "local BTree owners read root() after every insert/delete on all success paths")
    ctx.rule("C31.2", "struct-held BTrees expose their root and the vector-insert path persists it in the catalog")
    n_local = 0
    field_owners = {}
    for i, b in sorted(F.bodies.items()):
        if not i.startswith(("nervusdb_storage", "<nervusdb_storage")) or i.startswith(BTREE) or "::tests::" in i:
            continue
        muts = [c for c in b.calls() if c.name in MUT]
        if not muts:
            continue
        ctx.analysed_fns.add(i)
        roots = [c.bb for c in b.calls() if c.name == ROOT]
        for c in muts:
            base, fields = recv_fields(b, c, 0)
            held = [(f, adt) for f, adt in fields if adt.startswith("nervusdb_storage::") and base and base[0] == "arg"]
            if held:
                field_owners.setdefault(held[-1], []).append((i, c))
                continue
            n_local += 1
            rets = paths.success_returns_reachable(b, [c.target], avoid=roots) if c.target is not None else []
            ctx.instance("C31.1", "%s: %s followed by root()=%s" % (i, site_key(c), not rets))
            ctx.oblige(not rets, "C31.1", "%s:%s:root-not-read" % (b.root or i, site_key(c)),
                       "the tree is mutated and the function can return without reading the (possibly new) root: after a root split the stored "
                       "root pointer is stale and reopen loads an old tree", c.loc(), sample={"fn": i, "site": c.loc()})
    ctx.floor("C31.1", "local-owner mutation sites", n_local, 6)
    ctx.floor("C31.2", "struct-held BTrees", len(field_owners), 2)
    reaches_update = F.reaches(INSERT_VECTOR, {UPDATE_ROOT})
    ctx.body(INSERT_VECTOR)
    for (f, adt), sites in sorted(field_owners.items()):
        exposes = False
        for i, b in F.bodies.items():
            if b.self_ty and b.self_ty.split("<")[0] == adt:
                for c in b.calls():
                    if c.name == ROOT:
                        exposes = True
        ctx.instance("C31.2", "%s.%s mutated at %d sites; owner exposes root=%s; insert_vector reaches update_root=%s" % (adt, f, len(sites), exposes, bool(reaches_update)))
        ctx.oblige(exposes and bool(reaches_update), "C31.2", "%s.%s:root-never-persisted" % (adt, f),
                   "this B-tree lives in a struct that never hands its root back: the catalog entry keeps the root recorded at creation, so after "
                   "the first root split a reopen loads a stale root and stored vectors / graph links disappear", sites[0][1].loc(),
                   sample={"owner": adt, "field": f, "mutation_sites": [c.loc() for _, c in sites]})
