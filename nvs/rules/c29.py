"""C29 — Backups restore a consistent committed state (LOCKS + PATH)."""
from .. import locks
from .. import model as M
from .. import paths, tables

EXPLANATION = (
    "Decides: (1) LOCKS — the file copies of BackupManager::execute_backup run under a lock that the writers (commit, compact, "
    "checkpoint_on_close) also take, or under an exclusive file lock: lock classes acquired in the call closure of execute_backup are intersected with "
    "the classes acquired by the writers; (2) PATH — the page file is copied before the log (the log copy then contains every transaction whose pages "
    "may be in the page copy) and the Completed manifest is written only after both copies returned Ok; (3) restore refuses manifests that are not "
    "Completed (the copy-back is unreachable from the Failed / InProgress arms). Content equality is not decided; fsync of the copies is a power-loss "
    "matter outside the property and is only listed."
    " C29.4: copy_ndb_file / copy_wal_file copy the whole source file (no length-limited reader, counted read or truncation)."
    " C29.5: restore_from_backup reads only name / is_wal / status of the manifest's file entries."
)

BM = "nervusdb_storage::backup::BackupManager"
EXEC = BM + "::execute_backup"
RESTORE = BM + "::restore_from_backup"
STATUS = "nervusdb_storage::backup::ManifestStatus"
FILE_LOCKS = ("::File::lock", "::File::try_lock", "::lock_exclusive", "::try_lock_exclusive", "::flock", "::lock_shared")


def run(ctx):
    F = ctx.facts
    ctx.rule("C29.1", "backup copies run under a lock shared with the writers (or an exclusive file lock)")
    ctx.rule("C29.2", "page file copied before the log; Completed manifest only after both copies succeeded")
    ctx.rule("C29.3", "restore copies files back only for Completed manifests")
    G = locks.LockGraph(F)
    b = ctx.body(EXEC)
    closure = F.reach([EXEC])
    acq = set()
    for x in closure:
        acq |= {c for c, _ in G.acq_star(x)}
    called = set()
    for x in closure:
        bb = F.bodies.get(x)
        if bb:
            called |= {c.name for c in bb.calls()}
    file_lock = sorted(n for n in called if n.endswith(FILE_LOCKS))
    writer_locks = set()
    for w in (M.COMMIT, M.COMPACT, M.CHECKPOINT_ON_CLOSE):
        writer_locks |= {c for c, _ in G.acq_star(w)}
    writer_locks.add("Mutex<()>")
    shared = sorted(acq & writer_locks)
    ctx.instance("C29.1", "execute_backup acquires %s; writers acquire %s; file locks %s" % (sorted(acq), sorted(writer_locks), file_lock))
    ctx.oblige(bool(shared) or bool(file_lock), "C29.1", "execute_backup:no-lock-shared-with-writers",
               "the backup copies the page file and the log while commits, compaction and checkpoints may rewrite them: nothing orders the copy "
               "against writers, so the copied pair can be torn or mutually inconsistent", b.file,
               sample={"backup_locks": sorted(acq), "writer_locks": sorted(writer_locks)})

    ndb = [c for c in b.calls() if c.name == BM + "::copy_ndb_file"]
    wal = [c for c in b.calls() if c.name == BM + "::copy_wal_file"]
    man = [c for c in b.calls() if c.name == BM + "::write_manifest"]
    ctx.floor("C29.2", "copy / manifest sites", min(len(ndb), len(wal), len(man)), 1)
    if ndb and wal and man:
        o1 = paths.ok_arm(b, ndb[0])
        o2 = paths.ok_arm(b, wal[0])
        ctx.instance("C29.2", "copy_ndb_file Ok-dominates copy_wal_file; both Ok-dominate write_manifest(Completed)")
        ctx.oblige(o1 is not None and b.dominates(o1, wal[0].bb), "C29.2", "execute_backup:wal-copied-before-ndb",
                   "the log is not copied after a successful page-file copy: the log copy may lack transactions whose pages are in the page copy", wal[0].loc())
        ctx.oblige(o1 is not None and o2 is not None and b.dominates(o1, man[0].bb) and b.dominates(o2, man[0].bb), "C29.2",
                   "execute_backup:manifest-before-copies", "the Completed manifest can be written although a copy failed or has not run", man[0].loc())
    for fn in (BM + "::copy_ndb_file", BM + "::copy_wal_file"):
        cb = ctx.body(fn)
        if not any(c.name in M.FILE_SYNC for c in cb.calls()):
            ctx.observe("%s does not fsync the destination file (power-loss durability of the backup only)" % fn)

    rb = ctx.body(RESTORE)
    adt = ctx.adt(STATUS)
    names = [v["name"] for v in adt["variants"]]
    sw = tables.enum_switch(rb, STATUS, F)
    copies = [c for c in rb.calls() if c.name == M.FS_COPY]
    ctx.floor("C29.3", "copy-back sites in restore", len(copies), 1)
    ctx.floor("C29.3", "status match in restore", 1 if sw else 0, 1)
    if sw:
        for vi, n in enumerate(names):
            if n == "Completed":
                continue
            tb = sw[1].get(vi, sw[2])
            reach = rb.reachable([tb]) if tb is not None else set()
            for c in copies:
                ctx.instance("C29.3", "restore: copy#%d unreachable from status %s" % (c.ordinal, n))
                ctx.oblige(c.bb not in reach, "C29.3", "restore_from_backup:copies-on-%s" % n,
                           "restore copies files back from a backup whose manifest is %s" % n, c.loc())

    # ---- clause 4: the copies are whole-file copies ------------------------------------------------
    # C29.2's order argument (page file first, then the log, so the log copy contains every transaction whose pages may be in the
    # page copy) only holds if the log copy is the *whole* log as it is at copy time.  A copy bounded by a length captured earlier
    # (Read::take(n), a counted read loop, set_len on the destination) re-introduces the inconsistency: post-commit pages next to a
    # pre-commit log prefix, or a rewritten log cut in the middle of its only transaction.
    ctx.rule("C29.4", "copy_ndb_file / copy_wal_file copy the whole source file: io::copy / fs::copy straight from the opened file, no length-limited reader, no truncation of the destination")
    LIMITERS = ("::take", "::set_len", "::read_exact", "::by_ref")
    for fn in (BM + "::copy_ndb_file", BM + "::copy_wal_file"):
        cb = ctx.body(fn)
        copies4 = [c for c in cb.calls() if c.name in ("std::io::copy", "std::fs::copy", M.FS_COPY) or c.name.endswith("io::copy::copy")]
        lim = [c for c in cb.calls() if c.name.endswith(LIMITERS) and ("std::io" in c.name or "std::fs" in c.name or "core::" not in c.name)]
        bounded = []
        for c in copies4:
            for a in c.args[:1]:
                from ..facts import op_local as _ol
                l = _ol(a)
                ty = cb.local_ty(l) if l is not None else ""
                if "Take<" in ty or "Chain<" in ty:
                    bounded.append(ty)
        ctx.instance("C29.4", "%s: whole-file copy calls=%d, limiters=%s, bounded readers=%s" % (fn.split("::")[-1], len(copies4), [c.name.split("::")[-1] for c in lim], bounded))
        ctx.oblige(bool(copies4) and not lim and not bounded, "C29.4", "%s:bounded-copy" % fn.split("::")[-1],
                   "the backup copies only part of the file (%s): the log copy no longer contains every transaction whose pages are in the page copy, "
                   "or cuts a rewritten log inside its only transaction" % ([c.name.split("::")[-1] for c in lim] + bounded), cb.file)

    # ---- clause 5: restore does not judge a completed backup by begin-time metadata --------------------------------
    # BackupFileInfo.size / checksum are recorded once, in begin_backup, from the live files; they are not refreshed when the manifest is
    # marked Completed, and the log legitimately shrinks during a backup (close-time rewrite).  A restore that refuses or truncates files
    # according to those fields rejects consistent, completed backups.  Restore may use the file names, the is_wal flag and the status only.
    import json as _json
    ctx.rule("C29.5", "restore_from_backup reads only name / is_wal / status of the manifest's file entries (begin-time size and checksum cannot refuse a Completed backup)")
    BEGIN_TIME = ("size", "checksum")
    used = set()
    for blk in rb.blocks:
        for st in blk["s"]:
            if st[0] != "a":
                continue
            s = _json.dumps(st)
            if "backup::BackupFileInfo" not in s:
                continue
            for f_ in BEGIN_TIME:
                if '"%s"' % f_ in s:
                    used.add(f_)
    ctx.instance("C29.5", "restore_from_backup reads begin-time fields of BackupFileInfo: %s" % (sorted(used) or "none"))
    ctx.oblige(not used, "C29.5", "restore_from_backup:uses-begin-time-metadata",
               "restore consults %s, which begin_backup recorded before the copy and nothing refreshes: a completed backup taken across a close-time log "
               "rewrite (the log shrinks) is refused" % sorted(used), rb.file)
