"""C10 — Only one handle writes a database at a time (PATH/LAYER)."""
EXPLANATION = (
    "Decides: the call closure of every function that opens database files for writing (Db::open_paths -> GraphEngine::open -> Pager::open / "
    "Wal::open, vacuum_in_place; the bulk loader only creates files that must not exist yet) reaches an exclusive-lock primitive (File::lock / try_lock, flock / fcntl, an fs2/fs4 "
    "lock_exclusive, or creation of a lock file with create_new). Without one, nothing can refuse or delay a second writer. "
    "Does not decide the lock's lifetime or cross-platform semantics. C10.2 decides the in-process half: maintenance writers (compaction, close-time "
    "checkpoint) take every engine-state lock while holding the writer mutex, so their read-modify-write cannot interleave with a write transaction."
)

OPENERS = [
    "nervusdb_storage::engine::GraphEngine::open",
    "nervusdb_storage::vacuum::vacuum_in_place",
]
LOCK_SUFFIX = ("::File::lock", "::File::try_lock", "::lock_exclusive", "::try_lock_exclusive", "::flock", "::fcntl", "::lockf",
               "::LockFile", "::LockFileEx")
CREATE_NEW = "std::fs::OpenOptions::create_new"


def run(ctx):
    F = ctx.facts
    ctx.rule("C10.1", "every opener of the database files reaches an exclusive file-lock primitive")
    for fn in OPENERS:
        ctx.body(fn)
        closure = F.reach([fn])
        called = set()
        for i in closure:
            b = F.bodies.get(i)
            if b is None:
                called.add(i)
                continue
            for c in b.calls():
                called.add(c.name)
        locks = sorted(x for x in called | closure if x.endswith(LOCK_SUFFIX))
        lockfile = False
        if fn.endswith("GraphEngine::open"):
            lockfile = CREATE_NEW in called
        ctx.instance("C10.1", "%s: %d functions in closure, lock primitives=%s, lock-file=%s" % (fn, len(closure), locks, lockfile))
        ctx.oblige(bool(locks) or lockfile, "C10.1", fn + ":no-exclusive-lock",
                   "the database files are opened for writing without any exclusive lock: a second handle (same or other process) "
                   "opens and writes the same files", F.bodies[fn].file, sample={"opener": fn, "closure_size": len(closure)})
    ctx.floor("C10.1", "openers", len(ctx.instances["C10.1"]), 2)
    # the in-process half of single-writer: maintenance (compaction, close-time checkpoint) is a writer and must not interleave
    # its read-modify-write with an open write transaction
    from .c09 import writer_rmw_rule
    writer_rmw_rule(ctx, "C10.2")
