"""C10 — Only one handle writes a database at a time (PATH/LAYER)."""
EXPLANATION = (
    "Decides: the call closure of every function that opens database files for writing (Db::open_paths -> GraphEngine::open -> Pager::open / "
    "Wal::open, vacuum_in_place; the bulk loader only creates files that must not exist yet) reaches an exclusive-lock primitive (File::lock / try_lock, flock / fcntl, an fs2/fs4 "
    "lock_exclusive, or creation of a lock file with create_new). Without one, nothing can refuse or delay a second writer. "
    "Does not decide the lock's lifetime or cross-platform semantics. C10.2 decides the in-process half: maintenance writers (compaction, close-time "
    "checkpoint) take every engine-state lock while holding the writer mutex, so their read-modify-write cannot interleave with a write transaction."
    " C10.3: the bulk loader — a second way to a writing handle — only ever creates a database: every success return of BulkLoader::new lies on the "
    "`does not exist` branch of a Path::exists test of its path parameter, and nothing in the bulkload module removes or renames over a file."
)

OPENERS = [
    "nervusdb_storage::engine::GraphEngine::open",
    "nervusdb_storage::vacuum::vacuum_in_place",
]
LOCK_SUFFIX = ("::File::lock", "::File::try_lock", "::lock_exclusive", "::try_lock_exclusive", "::flock", "::fcntl", "::lockf",
               "::LockFile", "::LockFileEx")
CREATE_NEW = "std::fs::OpenOptions::create_new"


def run(ctx):
    F = ctx.facts
    ctx.rule("C10.1", "every opener of the database files reaches an exclusive file-lock primitive")
    for fn in OPENERS:
        ctx.body(fn)
        closure = F.reach([fn])
        called = set()
        for i in closure:
            b = F.bodies.get(i)
            if b is None:
                called.add(i)
                continue
            for c in b.calls():
                called.add(c.name)
        locks = sorted(x for x in called | closure if x.endswith(LOCK_SUFFIX))
        lockfile = False
        if fn.endswith("GraphEngine::open"):
            lockfile = CREATE_NEW in called
        ctx.instance("C10.1", "%s: %d functions in closure, lock primitives=%s, lock-file=%s" % (fn, len(closure), locks, lockfile))
        ctx.oblige(bool(locks) or lockfile, "C10.1", fn + ":no-exclusive-lock",
                   "the database files are opened for writing without any exclusive lock: a second handle (same or other process) "
                   "opens and writes the same files", F.bodies[fn].file, sample={"opener": fn, "closure_size": len(closure)})
    ctx.floor("C10.1", "openers", len(ctx.instances["C10.1"]), 2)
    # the in-process half of single-writer: maintenance (compaction, close-time checkpoint) is a writer and must not interleave
    # its read-modify-write with an open write transaction
    from .c09 import writer_rmw_rule
    writer_rmw_rule(ctx, "C10.2")
    bulk_rule(ctx)


BULK_NEW = "nervusdb_storage::bulkload::BulkLoader::new"
REMOVERS = ("std::fs::remove_file", "std::fs::rename", "std::fs::remove_dir_all", "std::fs::File::set_len")


def bulk_rule(ctx, rid="C10.3"):
    from .. import paths
    from ..facts import op_local
    from .c26 import bool_branches, bslice
    F = ctx.facts
    ctx.rule(rid, "the bulk loader refuses every existing database file (it is never a way to write under a live handle)")
    b = ctx.body(BULK_NEW)
    ex = [c for c in b.calls() if c.name.endswith(("::Path::exists", "::Path::is_file")) and c.args and 1 in bslice(b, op_local(c.args[0]), depth=10)[0]]
    ctx.floor(rid, "existence tests of the path parameter in BulkLoader::new", len(ex), 1)
    for c in ex:
        br = bool_branches(b, c.target) if c.target is not None else None
        ctx.instance(rid, "BulkLoader::new: Path::exists at %s" % c.loc())
        if br is None:
            ctx.finding(rid, rid + ":new:exists-not-branched", "the result of the existence test is not branched on", c.loc())
            continue
        _, tb, fb = br
        oks = [] if tb in paths.fail_blocks(b) else paths.success_returns_reachable(b, [tb])
        ctx.oblige(not oks, rid, rid + ":new:accepts-existing", "BulkLoader::new can return Ok on the branch where the database file already exists: "
                   "the loader then replaces the page file of a database another handle may have open (its WAL can live elsewhere)", c.loc())
    n = 0
    for i, fb_ in sorted(F.bodies.items()):
        if not i.startswith("nervusdb_storage::bulkload::"):
            continue
        for c in fb_.calls():
            if c.name in REMOVERS:
                n += 1
                ctx.finding(rid, "%s:%s:%s" % (rid, (fb_.root or i).split("::")[-1], c.name.split("::")[-1]),
                            "the bulk loader removes / renames over an existing file (%s): it must only create files that do not exist yet" % c.name, c.loc())
    ctx.instance(rid, "file removals / renames in the bulkload module: %d" % n)
