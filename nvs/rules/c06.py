"""C06 — Storage reads agree with a graph model: direction / node-edge symmetry of the overlay (SIBLINGS)."""
from .. import siblings

EXPLANATION = (
    "Decides only the direction-symmetry clause: each declared mirror pair of the read overlay (outgoing vs incoming iterators, "
    "block rules, run/segment loaders, CSR lookups, node vs edge property overlays and store readers) has equal feature sets — callees, "
    "fields touched, comparison kinds — under the src<->dst / node<->edge renaming. A filter, tombstone check or blocked-node test dropped in "
    "one direction only shows up as a feature present in one sibling and absent in the other. It does not decide that either direction is right."
    " C06.2 additionally decides that the tombstone sets of MemTable / L0Run only grow (insert / extend) or are moved whole into the frozen run: a run's tombstone is what hides older copies of the key."
    " C06.2 also covers the blocked sets a neighbour iterator accumulates (no whole-set assignment). C06.3: MemTable.out is keyed by the edge's source and MemTable.in_ by its destination in every access, and freeze_into_run fills edges_by_src / edges_by_dst from the matching map."
    " C06.4: the whole-map property overlays (merge_node/edge_properties_from_runs) resolve each key at the newest run that mentions it: one resolved-set receives both the removed keys and the set keys inside the loop over runs, every addition to the merged map happens only after that set accepted the key, and the merged map is not edited after the loop (a removal recorded by an older run must not erase a newer value)."
    " C06.5: a bucket cursor over a CSR offsets table that is advanced while edges are swept is advanced in a loop of its own (empty buckets exist wherever a node has no outgoing relationship)."
)

S = "nervusdb_storage::"
DIR = [("IncomingNeighborsIter", "NeighborsIter"), ("incoming_neighbors", "neighbors"), ("incoming", "outgoing"), ("dst_node", "src"),
       ("edges_by_dst", "edges_by_src"), ("edges_for_dst", "edges_for_src"), ("in_offsets", "offsets"), ("in_edges", "edges"),
       ("min_dst", "min_src"), ("max_dst", "max_src"), ("dst", "src")]
NE = [("edge_properties", "node_properties"), ("edge_property", "node_property"), ("tombstoned_edge_properties", "tombstoned_node_properties"),
      ("edge", "node")]

ITER_NEXT_OUT = "<nervusdb_storage::read_path_iters::NeighborsIter as core::iter::traits::iterator::Iterator>::next"
ITER_NEXT_IN = "<nervusdb_storage::read_path_iters::IncomingNeighborsIter as core::iter::traits::iterator::Iterator>::next"

PAIRS = [
    (S + "read_path_iters::NeighborsIter::new", S + "read_path_iters::IncomingNeighborsIter::new", DIR),
    (S + "read_path_iters::NeighborsIter::apply_pending_tombstones", S + "read_path_iters::IncomingNeighborsIter::apply_pending_tombstones", DIR),
    (S + "read_path_iters::NeighborsIter::load_run", S + "read_path_iters::IncomingNeighborsIter::load_run", DIR),
    (S + "read_path_iters::NeighborsIter::load_segment", S + "read_path_iters::IncomingNeighborsIter::load_segment", DIR),
    (ITER_NEXT_OUT, ITER_NEXT_IN, DIR),
    (S + "read_path_neighbors::edge_blocked_outgoing", S + "read_path_neighbors::edge_blocked_incoming", DIR),
    (S + "read_path_neighbors::load_outgoing_run_edges", S + "read_path_neighbors::load_incoming_run_edges", DIR),
    (S + "read_path_neighbors::load_outgoing_segment_edges", S + "read_path_neighbors::load_incoming_segment_edges", DIR),
    (S + "csr::CsrSegment::neighbors", S + "csr::CsrSegment::incoming_neighbors", DIR),
    (S + "snapshot::L0Run::edges_for_src", S + "snapshot::L0Run::edges_for_dst", DIR),
    (S + "read_path_run_edges::edges_for_src", S + "read_path_run_edges::edges_for_dst", DIR),
    (S + "read_path_overlay::node_property_from_runs", S + "read_path_overlay::edge_property_from_runs", NE),
    (S + "read_path_overlay::merge_node_properties_from_runs", S + "read_path_overlay::merge_edge_properties_from_runs", NE),
    (S + "read_path_run_props::node_property_in_run", S + "read_path_run_props::edge_property_in_run", NE),
    (S + "read_path_property_store::read_node_property_from_store", S + "read_path_property_store::read_edge_property_from_store", NE),
    (S + "read_path_property_store::extend_node_properties_from_store", S + "read_path_property_store::extend_edge_properties_from_store", NE),
    ("IMPL:nervusdb_api::GraphSnapshot|nervusdb_storage::api::StorageSnapshot|node_property", "IMPL:nervusdb_api::GraphSnapshot|nervusdb_storage::api::StorageSnapshot|edge_property", NE),
    ("IMPL:nervusdb_api::GraphSnapshot|nervusdb_storage::api::StorageSnapshot|node_properties", "IMPL:nervusdb_api::GraphSnapshot|nervusdb_storage::api::StorageSnapshot|edge_properties", NE),
    ("IMPL:nervusdb_api::GraphSnapshot|nervusdb_storage::api::StorageSnapshot|neighbors", "IMPL:nervusdb_api::GraphSnapshot|nervusdb_storage::api::StorageSnapshot|incoming_neighbors", DIR),
    (S + "snapshot::Snapshot::neighbors", S + "snapshot::Snapshot::incoming_neighbors", DIR),
    (S + "snapshot::Snapshot::node_property", S + "snapshot::Snapshot::edge_property", NE),
    (S + "snapshot::Snapshot::node_properties", S + "snapshot::Snapshot::edge_properties", NE),
]

# features that legitimately exist on one side only (one line of reason each)
EXCEPTIONS = {}


def run(ctx):
    F = ctx.facts
    ctx.rule("C06.1", "mirror implementations of the read overlay have equal feature sets under src<->dst / node<->edge renaming")
    def resolve(x):
        if x.startswith("IMPL:"):
            tr, ty, m = x[5:].split("|")
            return F.impl_method(tr, ty, m) or x
        return x

    for a, b, rn in PAIRS:
        a, b = resolve(a), resolve(b)
        ba = ctx.body(a)
        bb = ctx.body(b)
        only_a, only_b, total = siblings.compare(F, ba, bb, rn)
        exc = EXCEPTIONS.get((a, b), set())
        if rn is NE:
            # an edge key is a composite (src, rel, dst) where a node id is a scalar: its field reads have no node-side mirror
            only_a = [x for x in only_a if not (x[0] == "field" and x[2] == "nervusdb_api::EdgeKey")]
            only_b = [x for x in only_b if not (x[0] == "field" and x[2] == "nervusdb_api::EdgeKey")]
            # the API edge key is converted to the storage key (identity on the node side, where ids are scalars)
            only_a = [x for x in only_a if not (x[0] == "call" and "read_path_convert::api_" in x[1])]
            only_b = [x for x in only_b if not (x[0] == "call" and "read_path_convert::api_" in x[1])]
        only_a = [x for x in only_a if tuple(x) not in exc]
        only_b = [x for x in only_b if tuple(x) not in exc]
        ctx.instance("C06.1", "%s ~ %s: %d features, only-left=%d only-right=%d" % (a.split("::", 1)[1], b.split("::", 1)[1], total, len(only_a), len(only_b)))
        ok = not only_a and not only_b
        ctx.oblige(ok, "C06.1", "%s~%s" % (a, b),
                   "mirror implementations differ: only in %s: %s; only in %s: %s" % (a.split("::")[-2:], only_a[:6], b.split("::")[-2:], only_b[:6]),
                   ba.file, sample={"left": a, "right": b, "only_left": only_a[:10], "only_right": only_b[:10], "features": total})
    ctx.floor("C06.1", "mirror pairs", len(ctx.instances["C06.1"]), 22)

    # ---- clause 2: tombstone sets of a run are add-only ---------------------------------------------
    # A run's node / edge tombstone is what hides the copies of that key held by older runs and segments (key-based
    # blocking in read_path_iters / read_path_neighbors).  Within a run the sets may therefore only grow: a `remove`, `clear`,
    # `retain`, `take` ... on them (e.g. "un-delete on re-create", by analogy with the removed-property sets, which shadow
    # per key and may shrink) makes older copies visible again and breaks neighbour multiplicity.
    from ..mirutil import recv_field
    ctx.rule("C06.2", "the tombstone sets of MemTable / L0Run are only ever added to (insert / extend) or moved whole into the frozen run")
    TOMB = {("tombstoned_nodes", S + "memtable::MemTable"), ("tombstoned_edges", S + "memtable::MemTable"),
            ("tombstoned_nodes", S + "snapshot::L0Run"), ("tombstoned_edges", S + "snapshot::L0Run"),
            # the sets a neighbour iterator accumulates while it walks the runs newest -> oldest: same monotonicity
            ("blocked_nodes", S + "read_path_iters::NeighborsIter"), ("blocked_edges", S + "read_path_iters::NeighborsIter"),
            ("blocked_nodes", S + "read_path_iters::IncomingNeighborsIter"), ("blocked_edges", S + "read_path_iters::IncomingNeighborsIter")}
    ADD = ("insert", "extend", "append")
    n2 = 0
    for i, b in sorted(F.bodies.items()):
        if not i.startswith(S) or "::tests::" in i:
            continue
        k = {}
        for c in b.calls():
            if not c.args or c.args[0][0] not in ("c", "m"):
                continue
            fld = recv_field(b, c)
            if not fld or tuple(fld) not in TOMB:
                continue
            l0 = c.args[0][1][0]
            if not b.local_ty(l0).startswith("&mut"):
                continue
            n2 += 1
            short = c.name.split("::")[-1]
            kk = "%s.%s:%s" % (fld[1].split("::")[-1], fld[0], short)
            k[kk] = k.get(kk, -1) + 1
            ctx.instance("C06.2", "%s: %s (%s)" % (i, kk, c.loc()))
            ctx.oblige(short in ADD, "C06.2", "%s:%s#%d" % (b.root or i, kk, k[kk]),
                       "a run's tombstone set shrinks (`%s`): the tombstone is what hides older runs' copies of the key, so dropping it "
                       "makes deleted nodes / relationships reappear in neighbour and node reads" % short, c.loc(), sample={"fn": i, "call": c.name})
    # whole-set replacement (`self.blocked_nodes = ...`) outside the constructor forgets what newer runs blocked
    for i, b in sorted(F.bodies.items()):
        if not i.startswith(S) or "::tests::" in i:
            continue
        k = 0
        for blk in b.blocks:
            if blk["c"]:
                continue
            for st in blk["s"]:
                if st[0] != "a" or not st[1][1]:
                    continue
                last = st[1][1][-1]
                if isinstance(last, list) and last[0] == "f" and (last[2], last[3]) in TOMB:
                    n2 += 1
                    ctx.instance("C06.2", "%s: assigns %s.%s (%s:%d)" % (i, last[3].split("::")[-1], last[2], b.file, st[3]))
                    ctx.oblige(False, "C06.2", "%s:replaces(%s.%s)#%d" % (b.root or i, last[3].split("::")[-1], last[2], k),
                               "a tombstone / blocked set is replaced as a whole instead of being added to: what newer runs had blocked (deleted nodes, "
                               "deleted relationships) is forgotten and their relationships reappear in neighbour reads", "%s:%d" % (b.file, st[3]))
                    k += 1
    ctx.floor("C06.2", "mutating calls on tombstone sets", n2, 6)

    keyed_by_rule(ctx, "C06.3")
    overlay_resolution_rule(ctx)
    catch_up_cursor_rule(ctx)


def keyed_by_rule(ctx, rid):
    """shared by C06.3 and C14.4"""
    F = ctx.facts
    from ..mirutil import recv_field
    # ---- clause 3: the adjacency maps are keyed by the right endpoint ----------------------------------------
    # MemTable.out is keyed by the source of an edge and MemTable.in_ by its destination (create_edge defines that).  Every other access —
    # a map method on the field, or a helper that receives the field together with a node id — must use the same endpoint, otherwise an edge
    # is staged / unstaged in one direction only and outgoing and incoming reads disagree (a deleted relationship survives in `in_`).
    from ..facts import op_local
    from ..mirutil import value_root
    ctx.rule(rid, "every access to MemTable.out uses the edge's source as key and every access to MemTable.in_ its destination")
    WANT = {"out": "src", "in_": "dst"}
    n3 = 0

    def endpoint_of(b, l, depth=6):
        """'src' / 'dst' when the node-id local derives from the parameter (or EdgeKey field) of that name"""
        for _ in range(depth):
            if l is None:
                return None
            nm = b.local_name(l)
            if nm in ("src", "dst") and 1 <= l <= b.argc:
                return nm
            o = b.origin(l)
            if o is None:
                return None
            if o[0] == "arg":
                nm = b.local_name(o[1])
                return nm if nm in ("src", "dst") else None
            if o[0] == "place":
                fs = [p_[2] for p_ in o[1][1] if isinstance(p_, list) and p_[0] == "f"]
                if fs and fs[-1] in ("src", "dst"):
                    return fs[-1]
                l = o[1][0]
                continue
            return None
        return None

    for i, b in sorted(F.bodies.items()):
        if not i.startswith(S + "memtable::MemTable::") or "::tests::" in i or b.root:
            continue
        k = 0
        for c in b.calls():
            fld = None
            fidx = None
            for ai in range(len(c.args)):
                f_ = recv_field(b, c, ai)
                if f_ and f_[1] == S + "memtable::MemTable" and f_[0] in WANT:
                    fld, fidx = f_[0], ai
                    break
            if fld is None:
                continue
            # node-id arguments of the same call
            ends = []
            for ai, a in enumerate(c.args):
                if ai == fidx:
                    continue
                l = op_local(a)
                if l is None:
                    continue
                ty = b.local_ty(l)
                if ty in ("u32", "&u32") or "InternalNodeId" in ty:
                    e = endpoint_of(b, l)
                    if e:
                        ends.append(e)
            if not ends:
                continue
            n3 += 1
            ok = all(e == WANT[fld] for e in ends)
            ctx.instance(rid, "%s: %s(%s) keyed by %s" % (i.split("::")[-1], c.name.split("::")[-1], fld, ends))
            ctx.oblige(ok, rid, "%s:%s-keyed-by-%s#%d" % (i, fld, "+".join(ends), k),
                       "MemTable.%s is accessed with the edge's %s (it is keyed by the %s): the edge is staged or unstaged in one direction only, so outgoing "
                       "and incoming reads of the committed run disagree" % (fld, "/".join(ends), WANT[fld]), c.loc())
            k += 1
    ctx.floor(rid, "keyed accesses to the adjacency maps", n3, 4)

    # the frozen run: edges_by_src must be filled from `out` and edges_by_dst from `in_`
    fb = ctx.body(S + "memtable::MemTable::freeze_into_run")
    news = [c for c in fb.calls() if c.name.endswith("L0Run::new")]
    ctx.floor(rid, "L0Run::new calls in freeze_into_run", len(news), 1)
    nb = F.bodies.get(news[0].name) if news else None
    if nb is not None:
        pname = {ai: nb.local_name(ai + 1) for ai in range(nb.argc)}
        FROM = {"edges_by_src": "out", "edges_by_dst": "in_"}
        from ..mirutil import peel_refs
        for ai, a in enumerate(news[0].args):
            want = FROM.get(pname.get(ai))
            if not want:
                continue
            from ..mirutil import value_root as _vr
            ml = _vr(fb, op_local(a)) if op_local(a) is not None else None
            srcs = set()
            for ins in fb.calls():
                if not ins.name.endswith("::insert") or not ins.args or op_local(ins.args[0]) is None or peel_refs(fb, op_local(ins.args[0])) != ml:
                    continue
                # the loop this insert sits in: the iterator's `next` call that dominates it inside the cycle
                cyc = fb.reachable(fb.succs(ins.bb))
                for nx in fb.calls():
                    if nx.name.endswith("::next") and nx.bb in cyc and fb.dominates(nx.bb, ins.bb) and nx.args:
                        it = peel_refs(fb, op_local(nx.args[0])) if op_local(nx.args[0]) is not None else None
                        o = fb.origin(it) if it is not None else None
                        if o and o[0] == "call" and o[1].name.endswith("::into_iter"):
                            f_ = recv_field(fb, o[1], 0)
                            if f_:
                                srcs.add(f_[0])
            n3 += 1
            ctx.instance(rid, "freeze_into_run: L0Run.%s filled from MemTable.%s" % (pname[ai], sorted(srcs) or "?"))
            ctx.oblige(srcs == {want}, rid, "freeze_into_run:%s-from-%s" % (pname[ai], "+".join(sorted(srcs)) or "unknown"),
                       "the frozen run's %s is filled from MemTable.%s instead of MemTable.%s: outgoing and incoming adjacency of the committed run are swapped" % (pname[ai], sorted(srcs), want), fb.file)


MERGE_FNS = (S + "read_path_overlay::merge_node_properties_from_runs", S + "read_path_overlay::merge_edge_properties_from_runs")


def overlay_resolution_rule(ctx, rid="C06.4"):
    from ..facts import op_local
    from ..mirutil import peel_refs, backward_slice
    from .c26 import only_via, bool_branches
    ctx.rule(rid, "whole-map property overlay: per key the newest run that sets or removes it decides (one resolved set, guarded additions, no edit after the loop)")
    n = 0
    for fn in MERGE_FNS:
        b = ctx.body(fn)
        short = fn.split("::")[-1]
        maps = [c.dest[0] for c in b.calls() if c.name.startswith("alloc::collections::btree::map::BTreeMap::<K, V>::new")]
        ctx.oblige(len(maps) == 1, rid, "%s:%s:merged" % (rid, short), "expected one result map built in %s, found %d" % (short, len(maps)), b.file)
        if len(maps) != 1:
            continue
        merged = maps[0]
        nexts = [c for c in b.calls() if c.name.endswith("Iterator>::next") and "L0Run" in (c.callee.get("self") or b.local_ty(peel_refs(b, op_local(c.args[0])) or 0))]
        ctx.oblige(len(nexts) == 1, rid, "%s:%s:loop" % (rid, short), "cannot find the loop over runs in %s" % short, b.file)
        if len(nexts) != 1:
            continue
        h = nexts[0].bb
        loop = {x for x in b.reachable([h]) if h in b.reachable([x])} | {h}
        set_inserts = [c for c in b.calls() if c.name.startswith("alloc::collections::btree::set::BTreeSet::<T, A>::insert")]
        sets = {peel_refs(b, op_local(c.args[0])) for c in set_inserts}
        removed_src = {}
        for c in set_inserts:
            _, fields = backward_slice(b, op_local(c.args[1]), depth=40)
            if any(f[0].startswith("tombstoned_") for f in fields):
                removed_src[peel_refs(b, op_local(c.args[0]))] = c
        for c in b.calls():
            if not c.name.startswith("alloc::collections::btree::map::BTreeMap::<K, V, A>::") or not c.args:
                continue
            if peel_refs(b, op_local(c.args[0])) != merged:
                continue
            sd = b.single_def(op_local(c.args[0]))
            mutable = bool(sd and sd[2] == "assign" and sd[3][2][0] == "ref" and sd[3][2][1])
            if not mutable:
                continue
            n += 1
            meth = c.name.split("::")[-1]
            ctx.instance(rid, "%s: merged.%s at bb%d (%s the runs loop)" % (short, meth, c.bb, "inside" if c.bb in loop else "outside"))
            if c.bb not in loop:
                ctx.finding(rid, "%s:%s:%s-after-loop" % (rid, short, meth), "%s edits the merged map after the loop over runs (%s): a removal or value "
                            "collected from an older run can then override what a newer run decided" % (short, meth), c.loc())
                continue
            guard = None
            for g in set_inserts:
                br = bool_branches(b, g.target) if g.target is not None else None
                if br and only_via(b, br[1], g.target, c.bb):
                    guard = g
            ok = guard is not None and peel_refs(b, op_local(guard.args[0])) in removed_src
            ctx.oblige(ok, rid, "%s:%s:%s:unguarded" % (rid, short, meth), "%s adds to the merged map without first claiming the key in the resolved set that also "
                       "receives the removed keys: a key removed by a newer run is resurrected from an older one, or an older removal is applied to a newer value" % short, c.loc())
        ctx.oblige(bool(removed_src), rid, "%s:%s:removed-keys" % (rid, short), "%s never records a run's removed keys as resolved" % short, b.file)
    ctx.floor(rid, "merged-map mutation sites", n, 2)


CSR = "nervusdb_storage::csr::"


def catch_up_cursor_rule(ctx, rid="C06.5"):
    """a cursor that follows a per-source offsets table while edges are swept catches up in a loop (sources without edges leave empty buckets)"""
    from ..facts import op_local, op_const
    from ..mirutil import value_root, switch_on
    from .c26 import bslice
    F = ctx.facts
    ctx.rule(rid, "in the CSR segment code, a bucket cursor that is advanced while edges are swept (incremented under a test against the offsets table) is "
             "advanced in a loop of its own: with `if` instead of `while` it moves one bucket per edge, a source without edges makes it lag and the next "
             "edge is attributed to the wrong node (the reverse index then answers incoming reads wrongly)")
    n = 0
    for i, b in sorted(F.bodies.items()):
        if not i.startswith(CSR) or "::tests::" in i:
            continue
        # outer sweep loops: iterator `next` calls
        nexts = [c.bb for c in b.calls() if c.declared == "core::iter::traits::iterator::Iterator::next"]
        if not nexts:
            continue
        for bi, blk in enumerate(b.blocks):
            if b.is_cleanup(bi):
                continue
            for st in blk["s"]:
                # X = (X + 1).0
                if st[0] != "a" or st[1][1] or st[2][0] != "use" or st[2][1][0] not in ("c", "m") or not st[2][1][1][1]:
                    continue
                x = st[1][0]
                sd = b.single_def(st[2][1][1][0])
                rv = sd[3][2] if sd and sd[2] == "assign" else None
                if not (rv and rv[0] == "bin" and rv[1] == "AddWithOverflow" and op_local(rv[2]) is not None and value_root(b, op_local(rv[2])) == x
                        and op_const(rv[3]) is not None and op_const(rv[3]).get("v") == 1):
                    continue
                if b.local_ty(x) not in ("usize", "u32", "u64"):
                    continue
                # guarded by a test that reads the offsets table at an index derived from x
                guard = None
                for cb in range(len(b.blocks)):
                    sw = switch_on(b, cb)
                    if not sw or not b.dominates(cb, bi) or cb == bi:
                        continue
                    ls, cs = bslice(b, sw[0], depth=10)
                    reads_table = any(c.declared == "core::ops::index::Index::index" for c in cs) or any(
                        isinstance(p, list) and p[0] == "i" for l in ls for (_, _, k, s2) in b.defs().get(l, []) if k == "assign"
                        for p in (s2[2][1][1][1] if s2[2][0] == "use" and s2[2][1][0] in ("c", "m") else []))
                    if x in ls and reads_table:
                        guard = cb
                if guard is None:
                    continue
                # which sweep loop is it in?
                outer = [h for h in nexts if h in b.reachable([bi]) and bi in b.reachable([h])]
                if not outer:
                    continue
                n += 1
                own_loop = bi in b.reachable(list(b.succs(bi)), avoid=set(outer))
                ctx.instance(rid, "%s: cursor _%d (%s) advanced at line %d inside a sweep, own catch-up loop=%s" % (i.split("::")[-1], x, b.local_name(x), b.line_of_block(bi), own_loop))
                ctx.oblige(own_loop, rid, "%s:%s:cursor:%s:single-step" % (rid, i.split("::")[-1], b.local_name(x) or x),
                           "%s advances its bucket cursor at most once per swept edge (`if`, not `while`): a bucket without edges — a node with no "
                           "outgoing relationship between two sources — makes the cursor lag and the following edges are attributed to the wrong source" % i.split("::")[-1],
                           "%s:%d" % (b.file, b.line_of_block(bi)))
    # the same cursor captured by a per-element closure (`.map(|(idx, e)| { if idx >= offsets[cur + 1] { cur += 1 } .. })`)
    def env_field(b, l):
        sd = b.single_def(l)
        if sd and sd[2] == "assign" and sd[3][2][0] == "use" and sd[3][2][1][0] in ("c", "m"):
            pl = sd[3][2][1][1]
            if pl[0] == 1 and any(isinstance(p, list) and p[0] == "f" for p in pl[1]):
                return [p[1] for p in pl[1] if isinstance(p, list) and p[0] == "f"][-1]
        return None

    for i, b in sorted(F.bodies.items()):
        if not i.startswith(CSR) or b.kind != "closure" or "::tests::" in i:
            continue
        for bi, blk in enumerate(b.blocks):
            if b.is_cleanup(bi):
                continue
            for st in blk["s"]:
                if st[0] != "a" or st[1][1] != ["*"] or st[2][0] != "use" or st[2][1][0] not in ("c", "m") or not st[2][1][1][1]:
                    continue
                k = env_field(b, st[1][0])
                if k is None:
                    continue
                sd = b.single_def(st[2][1][1][0])
                rv = sd[3][2] if sd and sd[2] == "assign" else None
                if not (rv and rv[0] == "bin" and rv[1] == "AddWithOverflow" and op_const(rv[3]) is not None and op_const(rv[3]).get("v") == 1):
                    continue
                src = rv[2][1] if rv[2][0] in ("c", "m") else None
                if not (src and src[1] == ["*"] and env_field(b, src[0]) == k):
                    continue
                guarded = False
                for cb in range(len(b.blocks)):
                    sw = switch_on(b, cb)
                    if not sw or not b.dominates(cb, bi) or cb == bi:
                        continue
                    ls, cs = bslice(b, sw[0], depth=12)
                    if any(env_field(b, l) == k for l in ls) and (any(c.declared == "core::ops::index::Index::index" for c in cs) or any(
                            isinstance(p, list) and p[0] == "i" for l in ls for (_, _, kk, s2) in b.defs().get(l, []) if kk == "assign"
                            for p in (s2[2][1][1][1] if s2[2][0] == "use" and s2[2][1][0] in ("c", "m") else []))):
                        guarded = True
                if not guarded:
                    continue
                n += 1
                own_loop = bi in b.reachable(list(b.succs(bi)))
                ctx.instance(rid, "%s: captured cursor (closure field %s) advanced at line %d once per element, own catch-up loop=%s" % (i.split("::", 2)[-1], k, b.line_of_block(bi), own_loop))
                ctx.oblige(own_loop, rid, "%s:%s:captured-cursor:%s:single-step" % (rid, (b.root or i).split("::")[-1], k),
                           "a per-element closure advances the captured bucket cursor at most once per edge (`if`, not `while`): a source without edges makes it "
                           "lag and the following edges are attributed to the wrong source", "%s:%d" % (b.file, b.line_of_block(bi)))
    ctx.instance(rid, "catch-up cursors found in the CSR code: %d" % n)
