"""C06 — Storage reads agree with a graph model: direction / node-edge symmetry of the overlay (SIBLINGS)."""
from .. import siblings

EXPLANATION = (
    "Decides only the direction-symmetry clause: each declared mirror pair of the read overlay (outgoing vs incoming iterators, "
    "block rules, run/segment loaders, CSR lookups, node vs edge property overlays and store readers) has equal feature sets — callees, "
    "fields touched, comparison kinds — under the src<->dst / node<->edge renaming. A filter, tombstone check or blocked-node test dropped in "
    "one direction only shows up as a feature present in one sibling and absent in the other. It does not decide that either direction is right."
    " C06.2 additionally decides that the tombstone sets of MemTable / L0Run only grow (insert / extend) or are moved whole into the frozen run: a run's tombstone is what hides older copies of the key."
)

S = "nervusdb_storage::"
DIR = [("IncomingNeighborsIter", "NeighborsIter"), ("incoming_neighbors", "neighbors"), ("incoming", "outgoing"), ("dst_node", "src"),
       ("edges_by_dst", "edges_by_src"), ("edges_for_dst", "edges_for_src"), ("in_offsets", "offsets"), ("in_edges", "edges"),
       ("min_dst", "min_src"), ("max_dst", "max_src"), ("dst", "src")]
NE = [("edge_properties", "node_properties"), ("edge_property", "node_property"), ("tombstoned_edge_properties", "tombstoned_node_properties"),
      ("edge", "node")]

ITER_NEXT_OUT = "<nervusdb_storage::read_path_iters::NeighborsIter as core::iter::traits::iterator::Iterator>::next"
ITER_NEXT_IN = "<nervusdb_storage::read_path_iters::IncomingNeighborsIter as core::iter::traits::iterator::Iterator>::next"

PAIRS = [
    (S + "read_path_iters::NeighborsIter::new", S + "read_path_iters::IncomingNeighborsIter::new", DIR),
    (S + "read_path_iters::NeighborsIter::apply_pending_tombstones", S + "read_path_iters::IncomingNeighborsIter::apply_pending_tombstones", DIR),
    (S + "read_path_iters::NeighborsIter::load_run", S + "read_path_iters::IncomingNeighborsIter::load_run", DIR),
    (S + "read_path_iters::NeighborsIter::load_segment", S + "read_path_iters::IncomingNeighborsIter::load_segment", DIR),
    (ITER_NEXT_OUT, ITER_NEXT_IN, DIR),
    (S + "read_path_neighbors::edge_blocked_outgoing", S + "read_path_neighbors::edge_blocked_incoming", DIR),
    (S + "read_path_neighbors::load_outgoing_run_edges", S + "read_path_neighbors::load_incoming_run_edges", DIR),
    (S + "read_path_neighbors::load_outgoing_segment_edges", S + "read_path_neighbors::load_incoming_segment_edges", DIR),
    (S + "csr::CsrSegment::neighbors", S + "csr::CsrSegment::incoming_neighbors", DIR),
    (S + "snapshot::L0Run::edges_for_src", S + "snapshot::L0Run::edges_for_dst", DIR),
    (S + "read_path_run_edges::edges_for_src", S + "read_path_run_edges::edges_for_dst", DIR),
    (S + "read_path_overlay::node_property_from_runs", S + "read_path_overlay::edge_property_from_runs", NE),
    (S + "read_path_overlay::merge_node_properties_from_runs", S + "read_path_overlay::merge_edge_properties_from_runs", NE),
    (S + "read_path_run_props::node_property_in_run", S + "read_path_run_props::edge_property_in_run", NE),
    (S + "read_path_property_store::read_node_property_from_store", S + "read_path_property_store::read_edge_property_from_store", NE),
    (S + "read_path_property_store::extend_node_properties_from_store", S + "read_path_property_store::extend_edge_properties_from_store", NE),
    ("IMPL:nervusdb_api::GraphSnapshot|nervusdb_storage::api::StorageSnapshot|node_property", "IMPL:nervusdb_api::GraphSnapshot|nervusdb_storage::api::StorageSnapshot|edge_property", NE),
    ("IMPL:nervusdb_api::GraphSnapshot|nervusdb_storage::api::StorageSnapshot|node_properties", "IMPL:nervusdb_api::GraphSnapshot|nervusdb_storage::api::StorageSnapshot|edge_properties", NE),
    ("IMPL:nervusdb_api::GraphSnapshot|nervusdb_storage::api::StorageSnapshot|neighbors", "IMPL:nervusdb_api::GraphSnapshot|nervusdb_storage::api::StorageSnapshot|incoming_neighbors", DIR),
    (S + "snapshot::Snapshot::neighbors", S + "snapshot::Snapshot::incoming_neighbors", DIR),
    (S + "snapshot::Snapshot::node_property", S + "snapshot::Snapshot::edge_property", NE),
    (S + "snapshot::Snapshot::node_properties", S + "snapshot::Snapshot::edge_properties", NE),
]

# features that legitimately exist on one side only (one line of reason each)
EXCEPTIONS = {}


def run(ctx):
    F = ctx.facts
    ctx.rule("C06.1", "mirror implementations of the read overlay have equal feature sets under src<->dst / node<->edge renaming")
    def resolve(x):
        if x.startswith("IMPL:"):
            tr, ty, m = x[5:].split("|")
            return F.impl_method(tr, ty, m) or x
        return x

    for a, b, rn in PAIRS:
        a, b = resolve(a), resolve(b)
        ba = ctx.body(a)
        bb = ctx.body(b)
        only_a, only_b, total = siblings.compare(F, ba, bb, rn)
        exc = EXCEPTIONS.get((a, b), set())
        if rn is NE:
            # an edge key is a composite (src, rel, dst) where a node id is a scalar: its field reads have no node-side mirror
            only_a = [x for x in only_a if not (x[0] == "field" and x[2] == "nervusdb_api::EdgeKey")]
            only_b = [x for x in only_b if not (x[0] == "field" and x[2] == "nervusdb_api::EdgeKey")]
            # the API edge key is converted to the storage key (identity on the node side, where ids are scalars)
            only_a = [x for x in only_a if not (x[0] == "call" and "read_path_convert::api_" in x[1])]
            only_b = [x for x in only_b if not (x[0] == "call" and "read_path_convert::api_" in x[1])]
        only_a = [x for x in only_a if tuple(x) not in exc]
        only_b = [x for x in only_b if tuple(x) not in exc]
        ctx.instance("C06.1", "%s ~ %s: %d features, only-left=%d only-right=%d" % (a.split("::", 1)[1], b.split("::", 1)[1], total, len(only_a), len(only_b)))
        ok = not only_a and not only_b
        ctx.oblige(ok, "C06.1", "%s~%s" % (a, b),
                   "mirror implementations differ: only in %s: %s; only in %s: %s" % (a.split("::")[-2:], only_a[:6], b.split("::")[-2:], only_b[:6]),
                   ba.file, sample={"left": a, "right": b, "only_left": only_a[:10], "only_right": only_b[:10], "features": total})
    ctx.floor("C06.1", "mirror pairs", len(ctx.instances["C06.1"]), 22)

    # ---- clause 2: tombstone sets of a run are add-only ---------------------------------------------
    # A run's node / edge tombstone is what hides the copies of that key held by older runs and segments (key-based
    # blocking in read_path_iters / read_path_neighbors).  Within a run the sets may therefore only grow: a `remove`, `clear`,
    # `retain`, `take` ... on them (e.g. "un-delete on re-create", by analogy with the removed-property sets, which shadow
    # per key and may shrink) makes older copies visible again and breaks neighbour multiplicity.
    from ..mirutil import recv_field
    ctx.rule("C06.2", "the tombstone sets of MemTable / L0Run are only ever added to (insert / extend) or moved whole into the frozen run")
    TOMB = {("tombstoned_nodes", S + "memtable::MemTable"), ("tombstoned_edges", S + "memtable::MemTable"),
            ("tombstoned_nodes", S + "snapshot::L0Run"), ("tombstoned_edges", S + "snapshot::L0Run")}
    ADD = ("insert", "extend", "append")
    n2 = 0
    for i, b in sorted(F.bodies.items()):
        if not i.startswith(S) or "::tests::" in i:
            continue
        k = {}
        for c in b.calls():
            if not c.args or c.args[0][0] not in ("c", "m"):
                continue
            fld = recv_field(b, c)
            if not fld or tuple(fld) not in TOMB:
                continue
            l0 = c.args[0][1][0]
            if not b.local_ty(l0).startswith("&mut"):
                continue
            n2 += 1
            short = c.name.split("::")[-1]
            kk = "%s.%s:%s" % (fld[1].split("::")[-1], fld[0], short)
            k[kk] = k.get(kk, -1) + 1
            ctx.instance("C06.2", "%s: %s (%s)" % (i, kk, c.loc()))
            ctx.oblige(short in ADD, "C06.2", "%s:%s#%d" % (b.root or i, kk, k[kk]),
                       "a run's tombstone set shrinks (`%s`): the tombstone is what hides older runs' copies of the key, so dropping it "
                       "makes deleted nodes / relationships reappear in neighbour and node reads" % short, c.loc(), sample={"fn": i, "call": c.name})
    ctx.floor("C06.2", "mutating calls on tombstone sets", n2, 2)
