"""C17 — Any log tail is tolerated on open (PATH + bounded allocation)."""
from .. import model as M
from .. import paths
from ..facts import op_local
from ..mirutil import upper_bound_guards, value_root

EXPLANATION = (
    "Decides: (1) every tail defect is end-of-log — in WalReader::next_record (and the readers it calls) the only error exits are genuine "
    "I/O errors: an explicit Err must carry Error::Io, and a `?` may only propagate a callee whose own error exits are I/O-only; oversize length, "
    "short read, CRC mismatch and an undecodable body must all reach Ok(None); (2) the append position clause is C01.5 (re-checked here); "
    "(3) the record buffer allocated from the untrusted length field is dominated by an upper-bound test whose `too large` arm does not reach "
    "the allocation. It does not decide which transactions recovery then exposes."
    " C17.2 reports explicitly when Wal::append no longer positions the file cursor itself."
    " C17.6 (shared with C02.4 / C07.3): every log scanner empties its buffer of pending records in the BeginTx arm, so the records of a transaction whose tail was cut are not replayed inside the next committed transaction."
    " C17.7: an end-of-log position cached in the Wal handle by Wal::open derives from WalReader::valid_len or from a file length read after the truncation point."
)

NEXT = "nervusdb_storage::wal::WalReader::next_record"
ERR_ADT = "nervusdb_storage::error::Error"
FROM_ELEM = ("alloc::vec::from_elem", "alloc::vec::Vec::<T>::with_capacity", "alloc::vec::Vec::<T, A>::resize")


def err_exits(F, body, seen=None):
    """list of (kind, what, loc): kind 'explicit' (variant) or 'propagate' (callee id)"""
    out = []
    for bi in sorted(paths.fail_blocks(body)):
        blk = body.blocks[bi]
        t = blk["t"]
        if t[0] == "call" and t[1].get("d") == paths.FROM_RESIDUAL:
            # which call's result is being propagated?
            l = op_local(t[2][0]) if t[2] else None
            src = None
            cur = l
            for _ in range(6):
                if cur is None:
                    break
                o = body.origin(cur)
                if o and o[0] == "place":
                    cur = o[1][0]
                    continue
                if o and o[0] == "call" and o[1] is not None:
                    c = o[1]
                    if c.declared == paths.TRY_BRANCH or c.name.endswith("::map_err"):
                        cur = op_local(c.args[0])
                        continue
                    src = c
                break
            out.append(("propagate", src.name if src else "?", "%s:%d" % (body.file, t[6])))
        for st in blk["s"]:
            if st[0] == "a" and st[1][0] == 0 and st[2][0] == "agg" and st[2][3] == "Err":
                l = op_local(st[2][4][0]) if st[2][4] else None
                o = body.origin(l) if l is not None else None
                var = None
                if o and o[0] == "agg" and o[1][2] == ERR_ADT:
                    var = o[1][3]
                elif o and o[0] == "call" and o[1] is not None:
                    var = "call:" + o[1].name
                out.append(("explicit", var or "?", "%s:%d" % (body.file, st[3])))
    return out


def io_only(F, fn, memo):
    if fn in memo:
        return memo[fn]
    memo[fn] = True  # optimistic for recursion
    b = F.bodies.get(fn)
    if b is None:
        memo[fn] = fn.startswith(("std::io", "std::fs", "<std::fs", "<std::io"))
        return memo[fn]
    ok = True
    for kind, what, loc in err_exits(F, b):
        if kind == "explicit":
            if not (what == "Io" or what.startswith("call:<nervusdb_storage::error::Error as core::convert::From<std::io")):
                ok = False
        else:
            if what.startswith(("std::io", "std::fs", "<std::fs", "<std::io")):
                continue
            if not io_only(F, what, memo):
                ok = False
    memo[fn] = ok
    return ok


def zero_len_filtered(b):
    """next_record tests the length field against 0 before decoding, and the zero arm does not reach decode_body"""
    from ..mirutil import switch_on
    from ..facts import op_const
    dec = [c for c in b.calls() if c.name.endswith("::decode_body")]
    allocs = [c for c in b.calls() if c.name.startswith("alloc::vec::from_elem")]
    if not dec or not allocs:
        return False
    size_l = None
    for a in allocs[0].args:
        l = op_local(a)
        if l is not None and b.local_ty(l) == "usize":
            size_l = l
    if size_l is None:
        return False
    root = value_root(b, size_l)
    for bi in range(len(b.blocks)):
        sw = switch_on(b, bi)
        if not sw or not all(b.dominates(bi, d.bb) for d in dec):
            continue
        l, neg, arms, other = sw
        sd = b.single_def(l)
        if not sd or sd[2] != "assign" or sd[3][2][0] != "bin" or sd[3][2][1] not in ("Eq", "Ne"):
            continue
        rv = sd[3][2]
        ops = [rv[2], rv[3]]
        has_zero = any(op_const(o) and op_const(o).get("v") == 0 for o in ops)
        has_len = any(op_local(o) is not None and value_root(b, op_local(o)) == root for o in ops)
        if not (has_zero and has_len):
            continue
        t_false = [tb for v, tb in arms if v == 0]
        t_false = t_false[0] if t_false else None
        t_true = other
        if neg:
            t_true, t_false = t_false, t_true
        zero_arm = t_true if rv[1] == "Eq" else t_false
        if zero_arm is not None and all(d.bb not in b.reachable([zero_arm]) for d in dec):
            return True
    return False


def run(ctx):
    F = ctx.facts
    ctx.rule("C17.1", "error exits of WalReader::next_record are I/O errors only; every tail defect ends the log")
    ctx.rule("C17.2", "Wal::append position derives from the end of valid data (see C01.5)")
    ctx.rule("C17.3", "the record buffer allocated from the length field is bounded by a dominating upper-bound test")
    ctx.rule("C17.5", "the reader's valid-length cursor advances only for records it hands to the caller (never before an end-of-log return)")
    from .c02 import scanner_rule
    ctx.rule("C17.6", "log scanners discard the records buffered from a torn transaction when the next BeginTx arrives (recovers exactly the committed transactions after a tail cut inside a transaction)")
    scanner_rule(ctx, "C17.6")
    open_cursor_rule(ctx)
    ctx.rule("C17.4", "a short read (UnexpectedEof) in the log reader ends the log: its error arm tests the error kind and can return Ok(None)")
    b = ctx.body(NEXT)
    memo = {}
    exits = err_exits(F, b)
    ctx.floor("C17.1", "error exits of next_record", len(exits), 3)
    for kind, what, loc in exits:
        ctx.instance("C17.1", "next_record: %s %s" % (kind, what))
        if kind == "explicit":
            ok = what == "Io"
            key = "next_record:err(%s)" % what
            msg = "a malformed tail (here: %s) makes open fail instead of ending the log" % what
        else:
            ok = what.startswith(("std::io", "std::fs")) or io_only(F, what, memo)
            if not ok and what.endswith("::decode_body"):
                # accepted idiom: zero-length records (the only CRC-valid frame a torn / zero-filled tail can contain) are
                # turned into end-of-log before the body is decoded; a CRC-valid non-empty record that does not decode is a
                # completely written record of an unknown kind, not a tail defect.
                ok = zero_len_filtered(b)
            key = "next_record:propagates(%s)" % what.split("::")[-1]
            msg = "an undecodable but CRC-valid tail record (e.g. zero-filled space: len=0, crc=0) propagates `%s`'s error and open fails" % what.split("::")[-1]
        ctx.oblige(ok, "C17.1", key, msg, loc, sample={"exit": kind, "what": what, "loc": loc})

    # clause 2: same construct as C01.5
    ab = ctx.body(M.WAL_APPEND)
    seeks = [c for c in ab.calls() if c.name.endswith("::seek")]
    open_reach = F.reach([M.ENGINE_OPEN])
    trunc = [x for x in open_reach if x.startswith("nervusdb_storage::wal::") and x in F.bodies and any(c.name == M.FILE_SET_LEN for c in F.bodies[x].calls())]
    for c in seeks:
        l = op_local(c.args[1]) if len(c.args) > 1 else None
        o = ab.origin(l) if l is not None else None
        from_end = bool(o and o[0] == "agg" and o[1][3] == "End")
        ctx.instance("C17.2", "Wal::append seek from_end=%s truncate-on-open=%s" % (from_end, bool(trunc)))
        ctx.oblige(bool(trunc) or not from_end, "C17.2", "Wal::append:seek-from-end",
                   "after a torn tail, new commits are appended behind the garbage and the reader never reaches them: transactions committed after "
                   "recovery are lost on the next reopen", c.loc())
    ctx.oblige(bool(seeks), "C17.2", "Wal::append:no-positioning",
               "Wal::append does not position the file cursor itself: it writes wherever the cursor was left, and truncating a torn tail with set_len on "
               "open does not move the cursor — the next record lands behind a zero-filled hole and is cut off by the following open", ab.file)

    # clause 3
    allocs = [c for c in b.calls() if c.name in FROM_ELEM or c.name.startswith("alloc::vec::from_elem")]
    ctx.floor("C17.3", "allocations in next_record", len(allocs), 1)
    for c in allocs:
        size_l = None
        for a in c.args:
            l = op_local(a)
            if l is not None and b.local_ty(l) == "usize":
                size_l = l
        guards = upper_bound_guards(b, size_l) if size_l is not None else []
        ok = False
        for (gb, big_t, small_t, other) in guards:
            if b.dominates(gb, c.bb) and big_t is not None and c.bb not in b.reachable([big_t]):
                ok = True
        ctx.instance("C17.3", "next_record: %s sized by local %s, %d dominating bound tests" % (c.name.split("::")[-1], size_l, len(guards)))
        ctx.oblige(ok, "C17.3", "next_record:unbounded-alloc#%d" % c.ordinal,
                   "the record buffer is allocated from an untrusted 32-bit length without a dominating upper-bound test", c.loc())

    # clause 4: every read_exact of the reader distinguishes UnexpectedEof (truncated record) from real I/O errors
    n4 = 0
    for i, rb in sorted(F.bodies.items()):
        if not i.startswith("nervusdb_storage::wal::WalReader::") or rb.kind == "closure":
            continue
        for c in rb.calls():
            if not (c.declared == "std::io::Read::read_exact" or c.name.endswith("::read_exact")):
                continue
            n4 += 1
            after = rb.reachable([c.target]) if c.target is not None else set()
            kind_tests = [k for k in rb.calls() if k.bb in after and k.name.endswith("io::error::Error::kind")]
            ok_none = False
            for x in after:
                for st in rb.blocks[x]["s"]:
                    if st[0] == "a" and st[1][0] == 0 and st[2][0] == "agg" and st[2][3] == "Ok" and st[2][4]:
                        l0 = op_local(st[2][4][0])
                        o = rb.origin(l0) if l0 is not None else None
                        if (o and o[0] == "agg" and o[1][3] == "None") or (st[2][4][0][0] == "k" and "None" in st[2][4][0][1].get("d", "")):
                            ok_none = True
                        if o and o[0] == "const" and "None" in o[1].get("d", ""):
                            ok_none = True
            ctx.instance("C17.4", "%s: read_exact#%d error arm tests kind=%s, can return Ok(None)=%s" % (i.split("::")[-1], c.ordinal, bool(kind_tests), ok_none))
            ctx.oblige(bool(kind_tests) and ok_none, "C17.4", "%s:read_exact#%d:eof-not-end-of-log" % (i, c.ordinal),
                       "a short read of a record header or body is not turned into end-of-log: a log truncated in the middle of a record makes open fail", c.loc())
    ctx.floor("C17.4", "read_exact sites in WalReader", n4, 2)

    # clause 5: Wal::open truncates the file to the reader's cursor; the cursor must not include a frame that ends the log
    def is_ok_none(rb, st):
        if not (st[0] == "a" and st[1][0] == 0 and st[2][0] == "agg" and st[2][3] == "Ok" and st[2][4]):
            return False
        o0 = st[2][4][0]
        if o0[0] == "k":
            return "None" in o0[1].get("d", "")
        l0 = op_local(o0)
        o = rb.origin(l0) if l0 is not None else None
        return bool(o and ((o[0] == "agg" and o[1][3] == "None") or (o[0] == "const" and "None" in o[1].get("d", ""))))

    nb = ctx.body(NEXT)
    writes = []
    for bi, blk in enumerate(nb.blocks):
        for st in blk["s"]:
            if st[0] == "a" and any(isinstance(p_, list) and p_[0] == "f" and p_[2] == "offset" and p_[3].endswith("WalReader") for p_ in st[1][1]):
                writes.append(bi)
    ctx.floor("C17.5", "cursor updates in next_record", len(writes), 1)
    none_blocks = {bi for bi, blk in enumerate(nb.blocks) for st in blk["s"] if is_ok_none(nb, st)}
    ctx.floor("C17.5", "end-of-log returns in next_record", len(none_blocks), 3)
    for k, w in enumerate(sorted(set(writes))):
        after = nb.reachable([w]) - {w}
        bad = sorted(after & none_blocks)
        ctx.instance("C17.5", "next_record: cursor update #%d, end-of-log returns reachable after it: %s" % (k, bad or "none"))
        ctx.oblige(not bad, "C17.5", "next_record:cursor-advanced-before-end-of-log#%d" % k,
                   "the valid-length cursor is advanced and the function can still report end-of-log for that frame (e.g. on a CRC mismatch): "
                   "Wal::open then keeps the corrupt frame, later commits are appended behind it and are lost on the next reopen",
                   "%s:%d" % (nb.file, nb.line_of_block(w)))
    vb = ctx.body("nervusdb_storage::wal::WalReader::valid_len")
    reads_cursor = any(st[0] == "a" and any(isinstance(p_, list) and p_[0] == "f" and p_[2] == "offset" for pl in ([st[2][1][1]] if st[2][0] == "use" and st[2][1][0] in ("c", "m") else []) for p_ in pl[1]) for blk in vb.blocks for st in blk["s"])
    ctx.instance("C17.5", "valid_len returns the reader cursor=%s" % reads_cursor)
    ctx.oblige(reads_cursor, "C17.5", "valid_len:not-from-cursor", "valid_len no longer derives from the reader's record cursor", vb.file)


WAL_OPEN = "nervusdb_storage::wal::Wal::open"
WAL_ADT = "nervusdb_storage::wal::Wal"


def open_cursor_rule(ctx, rid="C17.7"):
    """an end-of-log position kept in the log handle is measured after the tail was cut off (or taken from valid_len)"""
    from ..mirutil import backward_slice
    F = ctx.facts
    ctx.rule(rid, "any integer stored in the Wal handle by Wal::open (a cached end-of-log position) derives from WalReader::valid_len, or from a file length read "
             "that can no longer be followed by the truncation: a length measured before the garbage tail is cut off positions the next append behind a hole")
    b = ctx.body(WAL_OPEN)
    cuts = [c.bb for c in b.calls() if c.name.endswith("::File::set_len")]
    n = 0
    for bi, blk in enumerate(b.blocks):
        if b.is_cleanup(bi):
            continue
        for st in blk["s"]:
            if not (st[0] == "a" and st[2][0] == "agg" and st[2][1] == "adt" and st[2][2] == WAL_ADT):
                continue
            for name, op in zip(st[2][5], st[2][4]):
                l = op_local(op)
                if l is None or b.local_ty(l) not in ("u64", "usize"):
                    continue
                n += 1
                calls, _ = backward_slice(b, l, depth=12)
                lens = [c for c in calls if c.name.endswith(("::metadata", "::Metadata::len", "::stream_position", "::seek"))]
                from_valid = any(c.name.endswith("::valid_len") for c in calls)
                early = [c for c in lens if any(x in b.reachable([c.bb]) for x in cuts)]
                ok = (from_valid and not lens) or (bool(lens) and not early) or (not lens and not from_valid and False)
                ctx.instance(rid, "Wal::open stores `%s`: from valid_len=%s, file-length reads before the truncation=%d" % (name, from_valid, len(early)))
                ctx.oblige(ok, rid, "%s:open:%s:measured-before-truncation" % (rid, name),
                           "Wal::open keeps `%s` from a file length read before the torn tail is cut off (or from neither valid_len nor a file length): the next "
                           "append seeks past the end of the truncated file and leaves a zero-filled hole, which ends the log at the next open" % name,
                           "%s:%d" % (b.file, b.line_of_block(bi)))
    ctx.instance(rid, "integer fields stored in the Wal handle by open: %d" % n)
