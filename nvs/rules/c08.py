"""C08 — Failed commits are all-or-nothing (structural necessary conditions)."""
from .. import errflow
from .. import model as M
from .. import paths
from ..mirutil import site_key

EXPLANATION = (
    "Decides: (1) every error exit of commit that happens before the durability point (Ok arm of Wal::fsync after CommitTx) passes no "
    "publication point; (2) after the durability point no propagated (`?`) fallible call lies before the last publication point — an error there "
    "returns Err with the transaction durable and half applied; the same two clauses for GraphEngine::get_or_create_label, whose mutation point is "
    "LabelInterner::get_or_create; (3) ERRFLOW — no storage/io Result is dropped, `.ok()`-ed or defaulted inside commit, compact, "
    "checkpoint_on_close, rewrite_as_snapshot, Pager::*, IdMap::*. It does not decide behaviour under injected faults."
    " C08.5: Wal::append stores to no field of the log handle before its last fallible write (no error exit is reachable from such a store), so a failed log write leaves the handle describing the log that exists."
)

LABEL_GET_OR_CREATE = "nervusdb_storage::label_interner::LabelInterner::get_or_create"
ERR_TYPES = ("nervusdb_storage::error::Error", "std::io::error::Error")
SCOPE_FNS = [M.COMMIT, M.COMPACT, M.CHECKPOINT_ON_CLOSE, M.WAL_REWRITE, M.GET_OR_CREATE_LABEL, M.WAL_APPEND, M.WAL_FSYNC]
SCOPE_PREFIX = (M.PAGER + "::", M.ST + "idmap::IdMap::", M.ST + "idmap::write_i2e_record")


def run(ctx):
    F = ctx.facts
    from .c02 import scanner_rule
    ctx.rule("C08.4", "log scanners discard the records of a failed (never committed) transaction when the next BeginTx arrives")
    scanner_rule(ctx, "C08.4")
    wal_cursor_rule(ctx)
    ctx.rule("C08.1", "error exits before the durability point pass no mutation / publication point")
    ctx.rule("C08.2", "no propagated fallible call between the durability point and the last publication point")
    ctx.rule("C08.3", "no storage / io Result is discarded in the commit, compaction, checkpoint, pager and node-table code")

    for fn, mut_extra in ((M.COMMIT, ()), (M.GET_OR_CREATE_LABEL, (LABEL_GET_OR_CREATE,)), (M.COMPACT, ())):
        b = ctx.body(fn)
        fs = [c for c in b.calls() if c.name == M.WAL_FSYNC]
        oks = [o for o in (paths.ok_arm(b, c) for c in fs) if o is not None]
        ctx.floor("C08.1", "fsync sites in " + fn, len(oks), 1)
        pubs = [(c, w) for c, w in M.publication_sites(b)]
        pubs += [(c, c.name.split("::")[-1]) for c in b.calls() if c.name in mut_extra]
        fb = paths.fail_blocks(b)
        durable = set()
        for o in oks:
            durable |= {x for x in range(len(b.blocks)) if b.dominates(o, x)}
        # clause 1: a mutation site that is not after the durability point, from which an error exit is reachable
        for c, what in pubs:
            ctx.instance("C08.1", "%s: %s#%d %s" % (fn, what, c.ordinal, "after-durable" if c.bb in durable else "BEFORE-durable"))
            if c.bb in durable:
                ctx.oblige(True, "C08.1", "%s:%s#%d" % (fn, what, c.ordinal), "")
                continue
            seen = b.reachable([c.target]) if c.target is not None else set()
            err_after = sorted(x for x in fb if x in seen)
            ctx.oblige(not err_after, "C08.1", "%s:%s#%d:mutates-before-durable" % (fn, what, c.ordinal),
                       "in-memory state is mutated before the log write is durable and is not rolled back when the append/fsync fails: "
                       "the call returns Err but the change stays visible (and is never logged later)", c.loc(),
                       sample={"fn": fn, "mutation": what, "error_exits_after": err_after[:5]})
        # clause 2: fallible propagated calls after durable, before the last publication point
        pub_blocks = [c.bb for c, _ in pubs if c.bb in durable]
        for c in b.calls():
            if c.bb not in durable or c.target is None:
                continue
            # is the result propagated with `?` (a fail block reachable directly from its Try::branch)?
            t = b.term(c.target)
            if not (t[0] == "call" and t[1].get("d") == paths.TRY_BRANCH):
                continue
            reach_pub = [p for p in pub_blocks if p in b.reachable([c.target]) or p == c.bb]
            is_pub = c.bb in pub_blocks
            if not reach_pub and not is_pub:
                continue
            ctx.instance("C08.2", "%s: `%s?` after the durability point, before %d publication points" % (fn, site_key(c), len(reach_pub)))
            ctx.oblige(False, "C08.2", "%s:%s:fallible-after-durable" % (fn, site_key(c)),
                       "a fallible call runs after the transaction is durable and before its effects are fully published; its error makes "
                       "commit return Err although the transaction is committed on disk and partly applied in memory", c.loc(),
                       sample={"fn": fn, "site": c.loc(), "callee": c.name})
    ctx.floor("C08.1", "mutation sites", len(ctx.instances["C08.1"]), 7)

    # clause 3
    scoped = [i for i in sorted(F.bodies) if (i in SCOPE_FNS or i.startswith(SCOPE_PREFIX)) and F.bodies[i].kind != "closure"]
    ctx.floor("C08.3", "functions scanned", len(scoped), 25)
    seen_keys = set()
    n_res = 0
    for i in scoped:
        b = ctx.body(i)
        n_res += len([c for c in b.calls() if errflow.is_result_ty(b.local_ty(c.dest[0]), ERR_TYPES)])
        for it in errflow.scan(F, b, err_substr=ERR_TYPES):
            k = "%s:%s" % (i, errflow.key_of(it))
            if k in seen_keys:
                continue
            seen_keys.add(k)
            c = it.get("call")
            ctx.oblige(False, "C08.3", k, "storage error discarded (%s of %s)" % (it["kind"], c.name if c else "?"),
                       c.loc() if c else b.file, sample={"fn": i, "kind": it["kind"], "callee": c.name if c else None})
    ctx.instance("C08.3", "%d fallible call sites in %d functions scanned" % (n_res, len(scoped)))
    ctx.obligations += n_res
    ctx.discharged += n_res - len(seen_keys)


WAL_TY = "nervusdb_storage::wal::Wal"


def wal_cursor_rule(ctx, rid="C08.5"):
    """a failed log write leaves the log handle as it was: no field of the handle is updated before the last fallible write of the method"""
    F = ctx.facts
    ctx.rule(rid, "in the Wal methods that write records (append and what it calls), no store to a field of the log handle can be followed by an error exit: "
             "a cursor advanced before a write that then fails points past the end of the file, and the next commit leaves a hole that truncates the log on reopen")
    n = 0
    for fn in (M.WAL_APPEND,):
        b = ctx.body(fn)
        fails = paths.fail_blocks(b)
        stores = []
        for bi, blk in enumerate(b.blocks):
            if b.is_cleanup(bi):
                continue
            for st in blk["s"]:
                if st[0] == "a" and st[1][1] and any(isinstance(p, list) and p[0] == "f" and p[3] == WAL_TY for p in st[1][1]):
                    stores.append((bi, [p[2] for p in st[1][1] if isinstance(p, list) and p[0] == "f"][-1]))
        n += 1
        ctx.instance(rid, "%s: stores to log-handle fields: %s" % (fn.split("::")[-1], sorted(set(f for _, f in stores)) or "none"))
        for bi, field in stores:
            after = b.reachable([bi])
            bad = sorted(x for x in fails if x in after and x != bi)
            ctx.oblige(not bad, rid, "%s:%s:%s:store-before-fallible-write" % (rid, fn.split("::")[-1], field),
                       "%s assigns the log handle's `%s` and can still fail afterwards: after an I/O error the handle describes a log that was never written" %
                       (fn.split("::")[-1], field), "%s:%d" % (b.file, b.line_of_block(bi)))
    ctx.floor(rid, "log-writing methods inspected", n, 1)
