"""C26 — The on-disk B-tree behaves as a sorted multimap: agreement of the tree's own searches (SIBLINGS + PATH)."""
from .. import paths
from ..facts import op_local, op_const, rvalue_operands
from ..mirutil import site_key, value_root

EXPLANATION = (
    "Decides the structural conditions without which the multimap behaviour cannot hold, not the behaviour itself. "
    "C26.1: BTree::insert, BTree::delete and BTree::cursor_lower_bound all select the child through Page::internal_child_for_key and the leaf "
    "position through Page::leaf_lower_bound, each applied to the function's own key parameter; separator cells and the leftmost-child pointer "
    "are read for child selection by no other function (who-may-call table). "
    "C26.2: both searches are lower bounds — the branch that advances `lo` (= mid + 1) is taken exactly when stored-key < target, normalised over "
    "lt/le/gt/ge, argument order and branch polarity. New entries go in front of equal keys, so equal keys can sit on both sides of a separator; "
    "an upper-bound descent lands right of the newest entry. "
    "C26.3: leaves are ordered by key only: no function of the module orders (key, payload) tuples; BTree::delete starts at the lower bound, "
    "guards delete_from_leaf by key equality and payload equality, can reach the removal again after hopping to the right sibling, and writes "
    "the page id it last read into the buffer. "
    "C26.4: BTreeCursor::advance and the leaf arm of cursor_lower_bound read the next sibling inside a loop (empty leaves stay in the chain "
    "because delete never merges). "
    "C26.5: leaf split — new entry inserted at the lower-bound position, halves entries[..mid] / entries[mid..] over one mid, separator cloned "
    "from element 0 of the right half, current page rebuilt with the new page as sibling and the new page with the old sibling, both pages "
    "written before insert_into_parent(current, separator, new). Internal split — promoted key keys[mid], halves keys[..mid] / keys[mid+1..], "
    "children split at mid+1 on both sides, separator inserted at child_pos and child at child_pos+1, both pages written before the recursion. "
    "C26.6: a successful leaf_insert_at passes shift_slots_right, slot_set and set_cell_count(count+1) in this order with the same index; "
    "delete_from_leaf passes shift_slots_left and set_cell_count(count-1). "
    "Not decided: slot/varint arithmetic, the median choice, and equality of scans with a model over histories."
)

M = "nervusdb_storage::index::btree::"
INSERT = M + "BTree::insert"
DELETE = M + "BTree::delete"
CURSOR = M + "BTree::cursor_lower_bound"
ADVANCE = M + "BTreeCursor::advance"
PARENT = M + "BTree::insert_into_parent"
MARK = M + "BTree::mark_reachable_pages"
CHILD_FOR_KEY = M + "Page::internal_child_for_key"
LEAF_LB = M + "Page::leaf_lower_bound"
LEAF_CELL = M + "Page::leaf_cell_key_and_payload"
INT_CELL = M + "Page::internal_cell_key_and_right_child"
LEFTMOST = M + "Page::leftmost_child"
LEAF_INSERT = M + "Page::leaf_insert_at"
DEL_LEAF = M + "Page::delete_from_leaf"
REBUILD_LEAF = M + "Page::rebuild_leaf"
REBUILD_INT = M + "Page::rebuild_internal"
RIGHT_SIB = M + "Page::right_sibling"
READ_PAGE = "nervusdb_storage::pager::Pager::read_page"
WRITE_PAGE = "nervusdb_storage::pager::Pager::write_page"
ALLOC = "nervusdb_storage::pager::Pager::allocate_page"
CHILD_READERS = {M + "Page::internal_child_for_key", PARENT, MARK}
ORD_OPS = {"core::cmp::PartialOrd::lt": "<", "core::cmp::PartialOrd::le": "<=", "core::cmp::PartialOrd::gt": ">", "core::cmp::PartialOrd::ge": ">="}
SWAP = {"<": ">", "<=": ">=", ">": "<", ">=": "<="}
NEG = {"<": ">=", "<=": ">", ">": "<=", ">=": "<"}


def bslice(body, local, depth=18):
    """(locals, calls) of the intra-procedural backward data slice of `local`"""
    seen = set()
    calls = []
    seen_c = set()
    work = [(local, 0)]
    while work:
        l, d = work.pop()
        if l is None or l in seen or d > depth:
            continue
        seen.add(l)
        for (bi, si, kind, st) in body.defs().get(l, []):
            if kind in ("call", "pcall"):
                c = body.call_at(bi)
                if c is not None and c.bb not in seen_c:
                    seen_c.add(c.bb)
                    calls.append(c)
                    for a in c.args:
                        if a[0] in ("c", "m"):
                            work.append((a[1][0], d + 1))
            else:
                rv = st[2]
                if rv[0] in ("ref", "rawptr"):
                    pl = rv[2] if rv[0] == "ref" else rv[1]
                    work.append((pl[0], d + 1))
                elif rv[0] == "discr":
                    work.append((rv[1][0], d + 1))
                else:
                    for op in rvalue_operands(rv):
                        if op[0] in ("c", "m"):
                            work.append((op[1][0], d + 1))
    return seen, calls


def param_of_type(body, ty, skip_self=True):
    out = [i for i in range(1, body.argc + 1) if body.local_ty(i) == ty]
    return out


def arg_slice(body, call, i):
    l = op_local(call.args[i]) if i < len(call.args) else None
    if l is None:
        return set(), []
    return bslice(body, l)


def bool_branches(body, cond_bb):
    """(true_target, false_target) of a two-way switch on a bool at the end of cond_bb (tracing `Not`)"""
    from ..mirutil import switch_on
    sw = switch_on(body, cond_bb)
    if sw is None:
        return None
    l, neg, arms, other = sw
    if len(arms) != 1 or arms[0][0] != 0:
        return None
    t, f = other, arms[0][1]
    if neg:
        t, f = f, t
    return l, t, f


def only_via(body, target, cond_bb, x):
    """x executes only after the edge cond_bb -> target"""
    return set(body.preds(target)) == {cond_bb} and body.dominates(target, x)


def search_relation(ctx, rid, fn, accessor):
    """what the binary search does when the stored key is Less / Equal / Greater than the target:
    ({"Less": action, "Equal": action, "Greater": action}, call) with action in advance | narrow | other; None after a finding"""
    b = ctx.body(fn)
    short = fn.split("::")[-1]
    tparams = param_of_type(b, "&[u8]")
    cmps = [c for c in b.calls() if (c.declared in ORD_OPS or c.declared == "core::cmp::Ord::cmp") and "[u8]" in (c.callee.get("self") or "")]
    if len(cmps) != 1 or len(tparams) != 1:
        ctx.finding(rid, "%s:%s:shape" % (rid, short), "cannot classify the search: expected one ordered comparison of byte slices and one "
                    "target parameter, found %d / %d" % (len(cmps), len(tparams)), b.file)
        return None
    c = cmps[0]
    sides = []
    for i in (0, 1):
        ls, cs = arg_slice(b, c, i)
        if any(x.name == accessor for x in cs):
            sides.append("S")
        elif tparams[0] in ls:
            sides.append("T")
        else:
            sides.append("?")
    if sorted(sides) != ["S", "T"]:
        ctx.finding(rid, "%s:%s:operands" % (rid, short), "comparison operands are not (stored cell key, target): %s" % sides, c.loc())
        return None
    # the pair (lo, hi): operands of the addition whose half is the probe position
    pair, mid = None, None
    for x, blk in enumerate(b.blocks):
        for st in blk["s"]:
            if st[0] == "a" and st[2][0] == "bin" and st[2][1] == "Div" and op_const(st[2][3]) is not None and op_const(st[2][3]).get("v") == 2:
                src = op_local(st[2][2])
                r = value_root(b, src) if src is not None else None
                sd = b.single_def(r) if r is not None else None
                rv = sd[3][2] if sd and sd[2] == "assign" else None
                if rv and rv[0] == "use" and rv[1][0] in ("c", "m") and rv[1][1][1]:
                    sd = b.single_def(rv[1][1][0])
                    rv = sd[3][2] if sd and sd[2] == "assign" else None
                if rv and rv[0] == "bin" and rv[1] in ("Add", "AddWithOverflow", "AddUnchecked"):
                    p, q = op_local(rv[2]), op_local(rv[3])
                    if p is not None and q is not None:
                        pair = (value_root(b, p), value_root(b, q))
                        mid = st[1][0]
    if pair is None:
        ctx.finding(rid, "%s:%s:probe" % (rid, short), "cannot find the probe position `(lo + hi) / 2` of the search", b.file)
        return None

    def action(start, cond_bb):
        acts = []
        for x in range(len(b.blocks)):
            if not only_via(b, start, cond_bb, x):
                continue
            for st in b.blocks[x]["s"]:
                if st[0] != "a" or st[1][1] or st[1][0] not in pair or st[2][0] != "use":
                    continue
                src = st[2][1]
                if src[0] not in ("c", "m"):
                    acts.append(("other", st[1][0]))
                    continue
                pl = src[1]
                sl = pl[0]
                if pl[1]:  # field 0 of a checked addition
                    sd = b.single_def(pl[0])
                    rv = sd[3][2] if sd and sd[2] == "assign" else None
                    if rv and rv[0] == "bin" and rv[1] == "AddWithOverflow" and op_const(rv[3]) is not None and op_const(rv[3]).get("v") == 1 \
                            and value_root(b, op_local(rv[2])) == mid:
                        acts.append(("advance", st[1][0]))
                    else:
                        acts.append(("other", st[1][0]))
                elif value_root(b, sl) == mid:
                    acts.append(("set-mid", st[1][0]))
                else:
                    acts.append(("other", st[1][0]))
        return acts

    branches = {}
    if c.declared in ORD_OPS:
        rel = ORD_OPS[c.declared]
        if sides == ["T", "S"]:
            rel = SWAP[rel]
        br = bool_branches(b, c.target) if c.target is not None else None
        dest = c.dest[0] if c.dest else None
        if br is None or value_root(b, br[0]) != dest:
            ctx.finding(rid, "%s:%s:branch" % (rid, short), "the comparison result is not branched on directly", c.loc())
            return None
        _, tb, fb = br
        holds = {"<": ("Less",), "<=": ("Less", "Equal"), ">": ("Greater",), ">=": ("Greater", "Equal")}[rel]
        for o in ("Less", "Equal", "Greater"):
            branches[o] = (tb if o in holds else fb, c.target)
    else:
        # three-way: switch on the discriminant of the Ordering
        swb = None
        cur = c.target
        for _ in range(3):
            t = b.term(cur)
            if t[0] == "switch":
                swb = cur
                break
            if t[0] != "goto":
                break
            cur = t[1]
        t = b.term(swb) if swb is not None else None
        if t is None or t[4] != "i8":
            ctx.finding(rid, "%s:%s:branch" % (rid, short), "the three-way comparison result is not matched on directly", c.loc())
            return None
        names = {255: "Less", -1: "Less", 0: "Equal", 1: "Greater"}
        got = {names.get(v): tb for v, tb in t[2]}
        for o in ("Less", "Equal", "Greater"):
            tgt = got.get(o, t[3])
            oo = o if sides == ["S", "T"] else {"Less": "Greater", "Greater": "Less", "Equal": "Equal"}[o]
            branches[oo] = (tgt, swb)
    acts = {o: action(*branches[o]) for o in branches}
    lo = [x for a in acts.values() for (k, x) in a if k == "advance"]
    if len(set(lo)) != 1:
        ctx.finding(rid, "%s:%s:advance" % (rid, short), "cannot tell which bound the search advances with `mid + 1`: %s" % acts, c.loc())
        return None
    lo = lo[0]
    out = {}
    for o, a in acts.items():
        if a == [("advance", lo)]:
            out[o] = "advance"
        elif len(a) == 1 and a[0][0] == "set-mid" and a[0][1] != lo:
            out[o] = "narrow"
        else:
            out[o] = "other"
    return out, c


def run(ctx):
    F = ctx.facts
    walkers = {}
    for fn in (INSERT, DELETE, CURSOR, ADVANCE, PARENT, CHILD_FOR_KEY, LEAF_LB, LEAF_INSERT, DEL_LEAF):
        walkers[fn] = ctx.body(fn)  # fail closed on a missing anchor

    # ------------------------------------------------------------------ C26.1
    ctx.rule("C26.1", "insert, delete and lookup descend through one child-selection function and one leaf search, applied to their own key")
    n = 0
    for fn in (INSERT, DELETE, CURSOR):
        b = walkers[fn]
        short = fn.split("::")[-1]
        kp = param_of_type(b, "&[u8]")
        for callee, what in ((CHILD_FOR_KEY, "child selection"), (LEAF_LB, "leaf search")):
            cs = [c for c in b.calls() if c.name == callee]
            ctx.oblige(bool(cs), "C26.1", "C26.1:%s:%s" % (short, callee.split("::")[-1]),
                       "%s does not use %s for its %s" % (short, callee.split("::")[-1], what), b.file)
            for c in cs:
                ls, _ = arg_slice(b, c, 1)
                ok = len(kp) == 1 and kp[0] in ls
                ctx.oblige(ok, "C26.1", "C26.1:%s:%s:key" % (short, site_key(c)),
                           "%s searches with something other than the function's key parameter" % short, c.loc())
                ctx.instance("C26.1", "%s -> %s(key)" % (short, callee.split("::")[-1]))
                n += 1
    ctx.floor("C26.1", "descent/leaf search sites", n, 6)
    readers = 0
    for i, b in sorted(F.bodies.items()):
        for c in b.calls():
            if c.name in (INT_CELL, LEFTMOST):
                readers += 1
                root = b.root or b.id
                ctx.oblige(root in CHILD_READERS, "C26.1", "C26.1:reader:%s:%s" % (root.split("::")[-1], c.name.split("::")[-1]),
                           "%s reads separator cells / the leftmost child outside the one child-selection function (allowed: internal_child_for_key, "
                           "the internal split in insert_into_parent, the reachability walk)" % root, c.loc())
    ctx.floor("C26.1", "separator/leftmost readers", readers, 5)

    # ------------------------------------------------------------------ C26.2
    ctx.rule("C26.2", "leaf search and child selection are lower bounds (lo advances iff stored < target)")
    for fn, acc in ((LEAF_LB, LEAF_CELL), (CHILD_FOR_KEY, INT_CELL)):
        r = search_relation(ctx, "C26.2", fn, acc)
        if r is None:
            continue
        acts, c = r
        short = fn.split("::")[-1]
        shown = ", ".join("stored %s target -> %s" % ({"Less": "<", "Equal": "=", "Greater": ">"}[o], acts[o]) for o in ("Less", "Equal", "Greater"))
        ctx.instance("C26.2", "%s: %s" % (short, shown))
        ctx.oblige(acts == {"Less": "advance", "Equal": "narrow", "Greater": "narrow"}, "C26.2", "C26.2:%s:bound" % short,
                   "%s is not a lower bound (%s; a lower bound advances past smaller cells only and keeps narrowing on an equal one): entries with a key "
                   "equal to the target are skipped or an arbitrary one of them is chosen — equal keys sit on both sides of a separator after a split, "
                   "and the newest of them is the leftmost" % (short, shown), c.loc())

    # ------------------------------------------------------------------ C26.3
    ctx.rule("C26.3", "leaves are ordered by key only: no (key, payload) ordering; delete walks the run of equal keys and writes the page it read")
    tuple_orders = 0
    for i, b in sorted(F.bodies.items()):
        if not i.startswith(M) and not i.startswith("<" + M):
            continue
        for c in b.calls():
            if c.declared in ("core::cmp::Ord::cmp", "core::cmp::PartialOrd::partial_cmp") and (c.callee.get("self") or "").startswith("("):
                tuple_orders += 1
                ctx.finding("C26.3", "C26.3:%s:tuple-order" % (b.root or b.id).split("::")[-1],
                            "orders (key, payload) tuples although cells are kept in key order only (payloads of equal keys are in reverse "
                            "insertion order), so a binary search with this comparator can miss a stored pair", c.loc())
    ctx.instance("C26.3", "tuple-ordering comparators in the module: %d" % tuple_orders)
    b = walkers[DELETE]
    kp = param_of_type(b, "&[u8]")
    pp = param_of_type(b, "u64")
    dels = [c for c in b.calls() if c.name == DEL_LEAF]
    ctx.floor("C26.3", "delete_from_leaf sites in BTree::delete", len(dels), 1)
    hops = [c for c in b.calls() if c.name == READ_PAGE and any(x.name == RIGHT_SIB for x in arg_slice(b, c, 1)[1])]
    ctx.oblige(bool(hops), "C26.3", "C26.3:delete:sibling-hop", "BTree::delete never continues into the right sibling: the run of equal keys "
               "can cross a leaf boundary", b.file)
    for c in dels:
        k = site_key(c)
        ls, cs = arg_slice(b, c, 1)
        ctx.oblige(any(x.name == LEAF_LB for x in cs), "C26.3", "C26.3:delete:%s:start" % k,
                   "the removed slot does not derive from the leaf's lower bound", c.loc())
        key_guard = pay_guard = False
        for cb in range(len(b.blocks)):
            br = bool_branches(b, cb)
            if br is None:
                continue
            l, tb, fb = br
            sd = b.single_def(l)
            if sd is None:
                continue
            if sd[2] == "assign" and sd[3][2][0] == "bin" and sd[3][2][1] in ("Eq", "Ne") and sd[3][2][4] == "u64":
                ops = [op_local(sd[3][2][2]), op_local(sd[3][2][3])]
                sl = set()
                for o in ops:
                    sl |= bslice(b, o)[0] if o is not None else set()
                want = tb if sd[3][2][1] == "Eq" else fb
                if len(pp) == 1 and pp[0] in sl and only_via(b, want, cb, c.bb):
                    pay_guard = True
            if sd[2] in ("call", "pcall"):
                cc = b.call_at(sd[0])
                if cc is not None and cc.declared in ("core::cmp::PartialEq::eq", "core::cmp::PartialEq::ne") and "[u8]" in (cc.callee.get("self") or ""):
                    sl = arg_slice(b, cc, 0)[0] | arg_slice(b, cc, 1)[0]
                    want = tb if cc.declared.endswith("::eq") else fb
                    if len(kp) == 1 and kp[0] in sl and only_via(b, want, cb, c.bb):
                        key_guard = True
        ctx.oblige(key_guard, "C26.3", "C26.3:delete:%s:key-eq" % k, "delete_from_leaf is not guarded by equality of the cell key with the key parameter", c.loc())
        ctx.oblige(pay_guard, "C26.3", "C26.3:delete:%s:payload-eq" % k, "delete_from_leaf is not guarded by equality of the cell payload with the payload parameter", c.loc())
        for h in hops:
            ctx.oblige(c.bb in b.reachable([h.bb]), "C26.3", "C26.3:delete:%s:after-hop" % k,
                       "the removal cannot be reached after hopping to the right sibling", c.loc())
    _page_pairing(ctx, "C26.3", b, "delete")

    # ------------------------------------------------------------------ C26.4
    ctx.rule("C26.4", "sibling hops of the cursor are loops (empty leaves stay in the chain)")
    n = 0
    for fn in (ADVANCE, CURSOR):
        b = walkers[fn]
        short = fn.split("::")[-1]
        hops = [c for c in b.calls() if c.name == READ_PAGE and any(x.name == RIGHT_SIB for x in arg_slice(b, c, 1)[1])]
        ctx.oblige(bool(hops), "C26.4", "C26.4:%s:hop" % short, "%s never moves to the right sibling" % short, b.file)
        for c in hops:
            n += 1
            ctx.instance("C26.4", "%s: sibling hop %s" % (short, site_key(c)))
            succ = set()
            for s in b.succs(c.bb):
                succ |= b.reachable([s]) | {s}
            ctx.oblige(c.bb in succ, "C26.4", "C26.4:%s:%s:loop" % (short, site_key(c)),
                       "%s reads the next sibling once, outside a loop: an empty leaf in the chain ends the scan although entries follow" % short, c.loc())
    ctx.floor("C26.4", "sibling hops", n, 3)

    # ------------------------------------------------------------------ C26.5
    ctx.rule("C26.5", "split shape: position, halves, separator, sibling links, write-before-parent, argument roles")
    _leaf_split(ctx, walkers[INSERT])
    _internal_split(ctx, walkers[PARENT])

    # ------------------------------------------------------------------ C26.6
    ctx.rule("C26.6", "slot discipline of leaf_insert_at / delete_from_leaf")
    _slot_discipline(ctx, walkers[LEAF_INSERT], "leaf_insert_at", M + "Page::shift_slots_right", M + "Page::slot_set", ("Add", "AddWithOverflow"))
    _slot_discipline(ctx, walkers[DEL_LEAF], "delete_from_leaf", M + "Page::shift_slots_left", None, ("Sub", "SubWithOverflow"))


def _page_pairing(ctx, rid, b, short):
    """every write_page(id, &buf) uses an id local that every read_page filling a buffer on the way used"""
    writes = [c for c in b.calls() if c.name == WRITE_PAGE]
    reads = [c for c in b.calls() if c.name == READ_PAGE]
    from ..mirutil import peel_refs
    for w in writes:
        wid = value_root(b, op_local(w.args[1])) if op_local(w.args[1]) is not None else None
        buf = peel_refs(b, op_local(w.args[2])) if op_local(w.args[2]) is not None else None
        filled_by = {x.bb for x in bslice(b, buf)[1] if x.name == READ_PAGE} if buf is not None else set()
        for r in reads:
            if w.bb not in b.reachable([r.bb]) or r.bb not in filled_by:
                continue
            ctx.instance(rid, "%s: write_page %s pairs with read_page %s" % (short, site_key(w), site_key(r)))
            rid_l = value_root(b, op_local(r.args[1])) if op_local(r.args[1]) is not None else None
            ctx.oblige(rid_l == wid and wid is not None, rid, "%s:%s:%s:pairing" % (rid, short, site_key(r)),
                       "%s reads a page through one page-id variable and writes the modified buffer through another: the leaf lands on the wrong page" % short, r.loc())


def _range_index(b, kind):
    """Index::index calls whose index argument is a `kind` range aggregate -> list of (call, [operand roots])"""
    out = []
    for c in b.calls():
        if c.declared != "core::ops::index::Index::index" or len(c.args) < 2:
            continue
        l = op_local(c.args[1])
        o = b.origin(l) if l is not None else None
        if o and o[0] == "agg" and o[1][2] == "core::ops::range::" + kind:
            out.append((c, o[1][4]))
    return out


def _root_or_const(b, op):
    k = op_const(op)
    if k is not None:
        return ("k", k.get("v"))
    l = op_local(op)
    return ("l", value_root(b, l)) if l is not None else None


def _checked_plus_one(b, op):
    """if op is `x + 1` return root of x"""
    l = op_local(op)
    if l is None:
        return None
    r = value_root(b, l)
    sd = b.single_def(r)
    if sd and sd[2] == "assign":
        rv = sd[3][2]
        if rv[0] == "use" and rv[1][0] in ("c", "m") and rv[1][1][1]:
            sd = b.single_def(rv[1][1][0])
            rv = sd[3][2] if sd and sd[2] == "assign" else None
        if rv and rv[0] == "bin" and rv[1] in ("Add", "AddWithOverflow", "AddUnchecked"):
            k = op_const(rv[3])
            x = op_local(rv[2])
            if k is not None and k.get("v") == 1 and x is not None:
                return ("l", value_root(b, x))
    return None


def _vec_root(b, c, i=0):
    from ..mirutil import peel_refs
    l = op_local(c.args[i])
    return peel_refs(b, l) if l is not None else None


def _leaf_split(ctx, b):
    rid = "C26.5"
    from ..mirutil import peel_refs
    ENT = "(alloc::vec::Vec<u8>, u64)"
    ins = [c for c in b.calls() if c.name.startswith("alloc::vec::Vec::<T, A>::insert") and ENT in b.local_ty(_vec_root(b, c) or 0)]
    ctx.floor(rid, "leaf split: entry insert", len(ins), 1)
    to = [(c, ops) for c, ops in _range_index(b, "RangeTo")]
    fr = [(c, ops) for c, ops in _range_index(b, "RangeFrom")]
    so = [c for c in b.calls() if c.name.startswith("alloc::vec::Vec::<T, A>::split_off") and ENT in b.local_ty(_vec_root(b, c) or 0)]
    idiom = "slices" if len(to) == 1 and len(fr) == 1 and not so else ("split_off" if len(so) == 1 and not to and not fr else None)
    ctx.oblige(idiom is not None, rid, "C26.5:leaf:halves", "cannot recognise how the entry list is halved: expected `[..mid]` + `[mid..]` of one list or one "
               "`split_off(mid)` (found %d prefix / %d suffix slices, %d split_off)" % (len(to), len(fr), len(so)), b.file)
    right_marks = {fr[0][0].bb} if idiom == "slices" else ({so[0].bb} if idiom == "split_off" else set())
    left_marks = {to[0][0].bb} if idiom == "slices" else set()
    so_src = value_root(b, _vec_root(b, so[0])) if idiom == "split_off" else None

    def half_of(l, at=None):
        if l is None:
            return "?"
        ls, cs = bslice(b, l, depth=24)
        bbs = {c.bb for c in cs}
        if bbs & right_marks:
            return "right"
        if bbs & left_marks:
            return "left"
        if so_src is not None and (so_src in ls or value_root(b, l) == so_src):
            if at is not None:
                return "left" if b.dominates(so[0].bb, at) and at != so[0].bb else "source"
            return "left" if all(b.dominates(so[0].bb, u) for u in _use_blocks(b, l)) else "source"
        return "source"

    if idiom == "slices":
        m1, m2 = _root_or_const(b, to[0][1][0]), _root_or_const(b, fr[0][1][0])
        same_vec = _vec_root(b, to[0][0]) == _vec_root(b, fr[0][0])
        ctx.oblige(m1 == m2 and m1 is not None and same_vec, rid, "C26.5:leaf:mid",
                   "the two halves are not `[..mid]` and `[mid..]` of the same list over the same mid: entries are lost or duplicated by the split", to[0][0].loc())
    targets = {}
    for c in ins:
        _, cs = arg_slice(b, c, 1)
        ok = any(x.name == LEAF_LB for x in cs)
        ctx.oblige(ok, rid, "C26.5:leaf:position", "the new entry's position in the split list does not come from the leaf's lower bound "
                   "(a position among equal keys other than the first makes an older entry the first of its key)", c.loc())
        v = _vec_root(b, c)
        h = half_of(v, c.bb)
        if h == "source" and idiom == "slices":
            # must be the list that is sliced afterwards
            ctx.oblige(v == _vec_root(b, to[0][0]), rid, "C26.5:leaf:insert-target", "the new entry is inserted into a list that is not the one being halved", c.loc())
        targets[c.bb] = h
    par = [c for c in b.calls() if c.name == PARENT]
    ctx.floor(rid, "leaf split: parent update", len(par), 1)
    ctx.instance(rid, "leaf split in BTree::insert: idiom=%s, new entry inserted into %s, %d parent update" % (idiom, sorted(set(targets.values())), len(par)))
    wr = [c for c in b.calls() if c.name == WRITE_PAGE]
    al = [c for c in b.calls() if c.name == ALLOC]
    rb = [c for c in b.calls() if c.name == REBUILD_LEAF]
    ctx.oblige(len(rb) == 2 and len(al) == 1, rid, "C26.5:leaf:rebuilds", "expected two rebuild_leaf calls and one page allocation in the split, "
               "found %d / %d" % (len(rb), len(al)), b.file)
    for p in par:
        ls, cs = arg_slice(b, p, 4)
        reads = []
        for x in cs:
            if x.declared == "core::ops::index::Index::index" and len(x.args) > 1 and op_const(x.args[1]) is not None and op_const(x.args[1]).get("v") == 0:
                reads.append(x)
            if x.name.endswith("::first") and x.args:
                reads.append(x)
        first_of_right = [x for x in reads if half_of(peel_refs(b, op_local(x.args[0])), x.bb) == "right"]
        ctx.oblige(bool(first_of_right), rid, "C26.5:leaf:separator", "the separator handed to the parent is not the first key of the right half", p.loc())
        for x in first_of_right:
            late = [c for c in ins if targets.get(c.bb) == "right" and c.bb in b.reachable([x.bb])]
            ctx.oblige(not late, rid, "C26.5:leaf:separator-before-insert", "the separator is read from the right half before the new entry is placed in it: "
                       "when the new entry becomes the first of the right half the parent keeps a separator greater than the half's smallest key, "
                       "and lookups of keys in between descend to the wrong leaf", x.loc())
        # roles: left = page being split (not freshly allocated), right = freshly allocated
        _, lcs = arg_slice(b, p, 3)
        _, rcs = arg_slice(b, p, 5)
        ctx.oblige(not any(x.name == ALLOC for x in lcs) and any(x.name == ALLOC for x in rcs), rid, "C26.5:leaf:roles",
                   "insert_into_parent is not called as (left = split page, right = new page)", p.loc())
        # both pages written before the parent update
        newpage_written = oldpage_written = False
        for w in wr:
            if p.bb not in b.reachable([w.bb]) or not b.dominates(w.bb, p.bb):
                continue
            _, wcs = arg_slice(b, w, 1)
            if any(x.name == ALLOC for x in wcs):
                newpage_written = True
            else:
                oldpage_written = True
        ctx.oblige(newpage_written and oldpage_written, rid, "C26.5:leaf:write-before-parent",
                   "the parent is updated before both halves are written (split page written=%s, new page written=%s)" % (oldpage_written, newpage_written), p.loc())
    # sibling links
    if len(rb) == 2 and len(al) == 1:
        link_new = link_old = 0
        for c in rb:
            _, cs = arg_slice(b, c, 1)
            sib_is_new = any(x.name == ALLOC for x in cs)
            sib_is_old = any(x.name == RIGHT_SIB for x in cs)
            half = half_of(peel_refs(b, op_local(c.args[2])), c.bb) if len(c.args) > 2 and op_local(c.args[2]) is not None else "?"
            if half == "left":
                ctx.oblige(sib_is_new and not sib_is_old, rid, "C26.5:leaf:link-left", "the left half is not linked to the new page", c.loc())
                link_new += 1
            elif half == "right":
                ctx.oblige(sib_is_old and not sib_is_new, rid, "C26.5:leaf:link-right", "the right half does not inherit the old right sibling", c.loc())
                link_old += 1
        ctx.oblige(link_new == 1 and link_old == 1, rid, "C26.5:leaf:links", "could not match the two rebuild_leaf calls with the left and right halves", b.file)
    _page_pairing(ctx, rid, b, "insert")


def _use_blocks(b, l):
    return [u[0] for u in b.uses().get(l, [])]


def _internal_split(ctx, b):
    rid = "C26.5"
    to = _range_index(b, "RangeTo")
    fr = _range_index(b, "RangeFrom")
    ctx.oblige(len(to) == 2 and len(fr) == 2, rid, "C26.5:internal:halves", "expected `[..]`/`[..]` prefix slices and two suffix slices of keys/children, "
               "found %d / %d" % (len(to), len(fr)), b.file)
    if len(to) != 2 or len(fr) != 2:
        return

    def is_keys(c):
        return "Vec<alloc::vec::Vec<u8>>" in b.local_ty(_vec_root(b, c) or 0)
    kt = [x for x in to if is_keys(x[0])]
    ct = [x for x in to if not is_keys(x[0])]
    kf = [x for x in fr if is_keys(x[0])]
    cf = [x for x in fr if not is_keys(x[0])]
    if not (len(kt) == len(ct) == len(kf) == len(cf) == 1):
        ctx.finding(rid, "C26.5:internal:halves", "cannot match the four slices with keys and children", b.file)
        return
    mid = _root_or_const(b, kt[0][1][0])
    ctx.instance(rid, "internal split in insert_into_parent: keys/children prefix and suffix slices matched")
    # promoted key: Index::index(keys, mid)
    prom = [c for c in b.calls() if c.declared == "core::ops::index::Index::index" and is_keys(c) and op_local(c.args[1]) is not None
            and b.local_ty(op_local(c.args[1])) == "usize"]
    ok_prom = any(_root_or_const(b, c.args[1]) == mid for c in prom)
    ctx.oblige(ok_prom and mid is not None, rid, "C26.5:internal:promote", "the promoted key is not keys[mid] for the mid that bounds the left keys", b.file)
    ctx.oblige(_checked_plus_one(b, kf[0][1][0]) == mid, rid, "C26.5:internal:right-keys", "the right keys are not keys[mid+1..]: the promoted key is "
               "kept or a key is dropped", kf[0][0].loc())
    ctx.oblige(_checked_plus_one(b, ct[0][1][0]) == mid and _checked_plus_one(b, cf[0][1][0]) == mid, rid, "C26.5:internal:children",
               "the children are not split at mid+1 on both sides", ct[0][0].loc())
    # separator at child_pos, child at child_pos + 1
    kins = [c for c in b.calls() if c.name.startswith("alloc::vec::Vec::<T, A>::insert") and is_keys(c)]
    cins = [c for c in b.calls() if c.name.startswith("alloc::vec::Vec::<T, A>::insert") and not is_keys(c)]
    ok = len(kins) == 1 and len(cins) == 1 and _checked_plus_one(b, cins[0].args[1]) == _root_or_const(b, kins[0].args[1])
    ctx.oblige(ok, rid, "C26.5:internal:positions", "the separator and the new child are not inserted at child_pos and child_pos+1", b.file)
    # recursion after both writes, with (parent page, promoted, new page)
    rec = [c for c in b.calls() if c.name == PARENT]
    wr = [c for c in b.calls() if c.name == WRITE_PAGE]
    ctx.floor(rid, "internal split: recursion", len(rec), 1)
    for p in rec:
        newp = oldp = False
        for w in wr:
            if not b.dominates(w.bb, p.bb):
                continue
            _, wcs = arg_slice(b, w, 1)
            if any(x.name == ALLOC for x in wcs):
                newp = True
            else:
                oldp = True
        ctx.oblige(newp and oldp, rid, "C26.5:internal:write-before-parent", "the grandparent is updated before both halves are written", p.loc())
        _, lcs = arg_slice(b, p, 3)
        _, rcs = arg_slice(b, p, 5)
        _, kcs = arg_slice(b, p, 4)
        ctx.oblige(not any(x.name == ALLOC for x in lcs) and any(x.name == ALLOC for x in rcs) and any(x.bb in [q.bb for q in prom] for x in kcs),
                   rid, "C26.5:internal:roles", "the recursion is not called as (left = split page, promoted key, right = new page)", p.loc())


def _slot_discipline(ctx, b, short, shift, slot_set, ops):
    rid = "C26.6"
    sh = [c for c in b.calls() if c.name == shift]
    sc = [c for c in b.calls() if c.name == M + "Page::set_cell_count"]
    ctx.oblige(len(sh) == 1 and len(sc) == 1, rid, "C26.6:%s:calls" % short, "%s: expected one slot shift and one set_cell_count, found %d / %d" % (short, len(sh), len(sc)), b.file)
    if len(sh) != 1 or len(sc) != 1:
        return
    ctx.instance(rid, "%s: %s, set_cell_count" % (short, shift.split("::")[-1]))
    idxp = [i for i in range(2, b.argc + 1) if b.local_ty(i) == "usize"]
    ok = len(idxp) >= 1 and value_root(b, op_local(sh[0].args[1])) == idxp[0]
    ctx.oblige(ok, rid, "C26.6:%s:shift-index" % short, "%s shifts the slots at an index other than its index parameter" % short, sh[0].loc())
    rets = paths.success_returns_reachable(b, [0])
    seen = b.reachable([0], avoid={sh[0].bb} | paths.fail_blocks(b))
    ctx.oblige(not [r for r in rets if r in seen or r == 0], rid, "C26.6:%s:must-shift" % short, "%s can return Ok without shifting the slot array" % short, b.file)
    ctx.oblige(b.dominates(sh[0].bb, sc[0].bb), rid, "C26.6:%s:order" % short, "%s updates the cell count before the slots are shifted" % short, sc[0].loc())
    # count +/- 1 of cell_count()
    l = op_local(sc[0].args[1])
    r = value_root(b, l) if l is not None else None
    sd = b.single_def(r) if r is not None else None
    rv = sd[3][2] if sd and sd[2] == "assign" else None
    if rv and rv[0] == "use" and rv[1][0] in ("c", "m") and rv[1][1][1]:
        sd = b.single_def(rv[1][1][0])
        rv = sd[3][2] if sd and sd[2] == "assign" else None
    ok = bool(rv and rv[0] == "bin" and rv[1] in ops and op_const(rv[3]) is not None and op_const(rv[3]).get("v") == 1
              and any(x.name == M + "Page::cell_count" for x in bslice(b, op_local(rv[2]))[1]))
    ctx.oblige(ok, rid, "C26.6:%s:count" % short, "%s does not set the cell count to cell_count() %s 1" % (short, "+" if "Add" in ops else "-"), sc[0].loc())
    if slot_set:
        ss = [c for c in b.calls() if c.name == slot_set]
        ok = len(ss) == 1 and value_root(b, op_local(ss[0].args[1])) == idxp[0] and b.dominates(sh[0].bb, ss[0].bb)
        ctx.oblige(ok, rid, "C26.6:%s:slot" % short, "%s does not store the new cell's offset at its index parameter after the shift" % short, b.file)
