"""C24 — Transactions see their own writes (PROV)."""
from ..facts import op_local
from ..mirutil import place_path, backward_slice, site_key
from ..core import AnchorLost

EXPLANATION = (
    "Decides: wherever a statement is executed against an explicit (caller-owned) write transaction, the read view handed to the executor must be "
    "data-dependent on that transaction (derived from it, or from an overlay built on it); a view obtained from the database handle alone "
    "(`db.snapshot()`) cannot contain the transaction's earlier statements. Backward data slice of the snapshot argument in every such function "
    "of the C API / bindings / facade. What the executor then does with the view is not decided."
    " C24.2: the read view of a statement run on a caller-owned transaction traces, in its own frame or through parameters of its callers, to a snapshot() call — never to a field of a long-lived handle."
    " C24.3: in both write-aware executors every two-input Plan arm recurses write-aware into both inputs, and the two executors agree arm by arm."
)

EXEC_NAMES = ("execute_mixed", "execute_write", "execute_write_with_rows", "execute_streaming")


def run(ctx):
    F = ctx.facts
    ctx.rule("C24.1", "the snapshot passed with a caller-owned transaction derives from that transaction")
    n = 0
    for i, b in sorted(F.bodies.items()):
        if not i.startswith(("nervusdb_capi", "nervusdb_pyo3", "nervusdb_cli", "nervusdb::", "<nervusdb::")):
            continue
        for e in b.calls():
            if e.name.split("::")[-1] not in EXEC_NAMES or "nervusdb_query" not in e.name:
                continue
            txn_l = snap_l = None
            for a in e.args:
                l = op_local(a)
                if l is None:
                    continue
                ty = b.local_ty(l)
                if "WriteTxn" in ty and ty.startswith("&"):
                    txn_l = l
                elif "Snapshot" in ty and ty.startswith("&"):
                    snap_l = l
            if txn_l is None or snap_l is None:
                continue
            base, _ = place_path(b, txn_l)
            if base[0] != "arg":
                continue
            n += 1
            ctx.analysed_fns.add(i)
            calls, fields = backward_slice(b, snap_l)
            from ..mirutil import peel_refs
            locs = set()
            depends = False
            for c in calls:
                for a in c.args:
                    l = op_local(a)
                    if l is not None:
                        bb_, _f = place_path(b, l)
                        if bb_ == base:
                            depends = True
            srcs = sorted({c.name for c in calls if c.name.startswith("nervusdb")})
            ctx.instance("C24.1", "%s: %s snapshot derives from %s; depends on transaction=%s" % (i, site_key(e), [s.split("::")[-1] for s in srcs], depends))
            ctx.oblige(depends, "C24.1", "%s:%s:snapshot-independent-of-txn" % (i, site_key(e)),
                       "the statement runs on an explicit transaction but reads through a fresh database snapshot: a MATCH after a CREATE in the "
                       "same transaction does not find the created data", e.loc(), sample={"fn": i, "snapshot_sources": srcs})
    ctx.floor("C24.1", "statement runners on caller-owned transactions", n, 1)

    # ---- clause 2: the read view is per statement ----------------------------------------------------
    # Names interned and data published while the transaction is open (labels, relationship types, the engine's own
    # republication) are only visible to a view taken after them.  A view stored in the transaction handle at begin time and
    # re-used for every statement is stale from the second statement on (`REMOVE n:NewLabel` resolves the label through it,
    # finds nothing and silently does nothing).  Rule: the snapshot operand traces, within the frame of the function that
    # executes the statement or through parameters of its callers, to a snapshot() call — never to a field of a handle.
    ctx.rule("C24.2", "the read view of a statement run on a caller-owned transaction is taken in the statement's own call frame (fresh per statement), not loaded from a long-lived handle")
    SNAP_CALLS = ("nervusdb::Db::snapshot", "nervusdb_storage::engine::GraphEngine::begin_read", "nervusdb_storage::engine::GraphEngine::snapshot")

    def fresh(b, l, depth=3, seen=()):
        calls, fields = backward_slice(b, l)
        if any(c.name in SNAP_CALLS or (c.name.endswith("::snapshot") and c.name.startswith(("nervusdb", "<nervusdb"))) for c in calls):
            return True, "snapshot() in %s" % b.id.split("::")[-1]
        base, flds = place_path(b, l)
        if base[0] == "arg" and not flds and depth > 0 and (b.id, base[1]) not in seen:
            callers = sorted(F.callers().get(b.id, ()))
            if not callers:
                return False, "parameter of an entry point"
            why = []
            for cid in callers:
                cb = F.bodies.get(cid)
                if cb is None:
                    continue
                for c in cb.calls():
                    if b.id not in F.call_targets(c) or base[1] - 1 >= len(c.args):
                        continue
                    al = op_local(c.args[base[1] - 1])
                    ok, w = fresh(cb, al, depth - 1, seen + ((b.id, base[1]),)) if al is not None else (False, "constant")
                    if not ok:
                        return False, "caller %s passes %s" % (cid.split("::")[-1], w)
                    why.append(w)
            return bool(why), "; ".join(sorted(set(why)))
        return False, "loaded from %s" % (".".join(f[0] for f in flds) if flds else base[0])

    n2 = 0
    for i, b in sorted(F.bodies.items()):
        if not i.startswith(("nervusdb_capi", "nervusdb_pyo3", "nervusdb_cli", "nervusdb::", "<nervusdb::")):
            continue
        for e in b.calls():
            if e.name.split("::")[-1] not in EXEC_NAMES or "nervusdb_query" not in e.name:
                continue
            txn_l = snap_l = None
            for a in e.args:
                l = op_local(a)
                if l is None:
                    continue
                ty = b.local_ty(l)
                if "WriteTxn" in ty and ty.startswith("&"):
                    txn_l = l
                elif "Snapshot" in ty and ty.startswith("&"):
                    snap_l = l
            if txn_l is None or snap_l is None:
                continue
            base, _ = place_path(b, txn_l)
            if base[0] != "arg":
                continue
            n2 += 1
            ok, why = fresh(b, snap_l)
            ctx.instance("C24.2", "%s: %s read view: %s" % (i, site_key(e), why))
            ctx.oblige(ok, "C24.2", "%s:%s:stale-read-view" % (i, site_key(e)),
                       "the statement reads through a view that is not taken per statement (%s): label / relationship-type names and data published "
                       "by earlier statements of the same transaction are invisible to it" % why, e.loc())
    ctx.floor("C24.2", "statement runners on caller-owned transactions", n2, 1)

    # ---- clause 3: every input of a write-aware operator is executed write-aware ---------------------------------------
    # Inside a write statement the plan is interpreted by execute_write_with_rows / execute_merge_with_rows_inner, whose scans also return the
    # transaction's not-yet-committed creates; the read-only `execute_plan(snapshot, ..)` sees committed data only.  An operator with two
    # inputs (cartesian product of MATCH parts, UNION) must run *both* through the write-aware recursion, otherwise the second pattern part
    # of `MATCH (a), (b) CREATE ..` cannot bind nodes created earlier in the same transaction.
    from .. import tables
    ctx.rule("C24.3", "in both write-aware executors every two-input Plan arm (left / right) recurses write-aware into both inputs, and the two executors agree arm by arm on the number of write-aware recursions")
    PLAN = "nervusdb_query::executor::plan_types::Plan"
    padt = ctx.adt(PLAN)
    kids = {v["discr"]: (v["name"], [f[0] for f in v["fields"] if "Box<" in f[1] and PLAN in f[1]]) for v in padt["variants"]}
    REC = ("execute_write_with_rows", "execute_merge_with_rows", "execute_merge_with_rows_inner")
    W = "nervusdb_query::executor::write_orchestration::"
    counts = {}
    for fid in (W + "execute_write_with_rows", W + "execute_merge_with_rows_inner"):
        wb = ctx.body(fid)
        sw = tables.enum_switch(wb, PLAN, F)
        if not sw or len(sw[1]) < 20:
            raise AnchorLost("no match over Plan in %s" % fid)
        for dv, tb in sorted(sw[1].items()):
            name, ch = kids[dv]
            if not ch:
                continue
            reg = tables.dominated_region(wb, tb, sw[0])
            rec = [c for c in wb.calls() if c.bb in reg and c.name.split("::")[-1] in REC]
            counts.setdefault(name, {})[fid.split("::")[-1]] = len(rec)
            if ch == ["left", "right"]:
                ctx.instance("C24.3", "%s: %s recurses write-aware %d time(s) for inputs %s" % (fid.split("::")[-1], name, len(rec), ch))
                ctx.oblige(len(rec) >= 2, "C24.3", "%s:%s:input-not-write-aware" % (fid.split("::")[-1], name),
                           "Plan::%s runs only %d of its two inputs through the write-aware executor: the other one is evaluated against the committed snapshot "
                           "and does not see what earlier statements of the transaction created" % (name, len(rec)), wb.file)
    # arms that delegate to a helper in one executor only (reason each)
    SIB_EXCEPT = {"Delete": "non-MERGE path hands the whole arm to execute_delete, which recurses itself", "Create": "same, execute_create",
                  "OptionalWhereFixup": "only the MERGE path interprets it"}
    for name, per in sorted(counts.items()):
        if len(per) < 2 or name in SIB_EXCEPT:
            continue
        a, b_ = list(per.values())
        ctx.instance("C24.3", "Plan::%s write-aware recursions: %s" % (name, per))
        ctx.oblige(a == b_, "C24.3", "siblings:%s" % name, "the two write-aware executors disagree on Plan::%s (%s)" % (name, per), "nervusdb-query/src/executor/write_orchestration.rs")
    ctx.floor("C24.3", "Plan arms compared", len(counts), 20)
