"""C24 — Transactions see their own writes (PROV)."""
from ..facts import op_local
from ..mirutil import place_path, backward_slice, site_key

EXPLANATION = (
    "Decides: wherever a statement is executed against an explicit (caller-owned) write transaction, the read view handed to the executor must be "
    "data-dependent on that transaction (derived from it, or from an overlay built on it); a view obtained from the database handle alone "
    "(`db.snapshot()`) cannot contain the transaction's earlier statements. Backward data slice of the snapshot argument in every such function "
    "of the C API / bindings / facade. What the executor then does with the view is not decided."
)

EXEC_NAMES = ("execute_mixed", "execute_write", "execute_write_with_rows", "execute_streaming")


def run(ctx):
    F = ctx.facts
    ctx.rule("C24.1", "the snapshot passed with a caller-owned transaction derives from that transaction")
    n = 0
    for i, b in sorted(F.bodies.items()):
        if not i.startswith(("nervusdb_capi", "nervusdb_pyo3", "nervusdb_cli", "nervusdb::", "<nervusdb::")):
            continue
        for e in b.calls():
            if e.name.split("::")[-1] not in EXEC_NAMES or "nervusdb_query" not in e.name:
                continue
            txn_l = snap_l = None
            for a in e.args:
                l = op_local(a)
                if l is None:
                    continue
                ty = b.local_ty(l)
                if "WriteTxn" in ty and ty.startswith("&"):
                    txn_l = l
                elif "Snapshot" in ty and ty.startswith("&"):
                    snap_l = l
            if txn_l is None or snap_l is None:
                continue
            base, _ = place_path(b, txn_l)
            if base[0] != "arg":
                continue
            n += 1
            ctx.analysed_fns.add(i)
            calls, fields = backward_slice(b, snap_l)
            from ..mirutil import peel_refs
            locs = set()
            depends = False
            for c in calls:
                for a in c.args:
                    l = op_local(a)
                    if l is not None:
                        bb_, _f = place_path(b, l)
                        if bb_ == base:
                            depends = True
            srcs = sorted({c.name for c in calls if c.name.startswith("nervusdb")})
            ctx.instance("C24.1", "%s: %s snapshot derives from %s; depends on transaction=%s" % (i, site_key(e), [s.split("::")[-1] for s in srcs], depends))
            ctx.oblige(depends, "C24.1", "%s:%s:snapshot-independent-of-txn" % (i, site_key(e)),
                       "the statement runs on an explicit transaction but reads through a fresh database snapshot: a MATCH after a CREATE in the "
                       "same transaction does not find the created data", e.loc(), sample={"fn": i, "snapshot_sources": srcs})
    ctx.floor("C24.1", "statement runners on caller-owned transactions", n, 1)
