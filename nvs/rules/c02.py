"""C02 — Crash recovery yields a committed prefix (structural necessary conditions)."""
from .. import locks
from .. import model as M
from .. import paths
from ..mirutil import site_key, peel_refs
from .. import tables
from ..facts import op_local

EXPLANATION = (
    "Decides three structural clauses: (1) every data record appended to the WAL is dominated by an append(BeginTx), "
    "followed on every success path by append(CommitTx), with the WAL mutex guard held from BeginTx to CommitTx; "
    "(2) in WriteTxn::commit nothing outside the log (page file, node table) is mutated before CommitTx is appended and fsynced; "
    "(3) replay has the idempotence skip for CreateNode and an explicit arm for every WalRecord variant. "
    "It does not decide the content of the recovered prefix."
    " C02.6: a log scanner mutates its list of committed transactions only in the CommitTx arm and only by appending; elsewhere it may touch nothing but the pending buffer."
)

REPLAY = "nervusdb_storage::engine::replay_graph_transactions"
IDMAP_LOOKUP = "nervusdb_storage::idmap::IdMap::lookup"


def run(ctx):
    F = ctx.facts
    _bitmap_flush_rule(ctx)
    ctx.rule("C02.1", "WAL appends are bracketed BeginTx .. CommitTx under one uninterrupted WAL guard")
    ctx.rule("C02.2", "commit mutates pages / node table only after CommitTx is appended and fsynced")
    ctx.rule("C02.3", "replay keeps the CreateNode idempotence skip and has an explicit arm per WalRecord variant")
    scanner_effects_rule(ctx)
    ctx.rule("C02.4", "log scanners discard the records of an unfinished transaction when the next BeginTx arrives")

    # ---- clause 1 ---------------------------------------------------------
    for fn in M.WAL_WRITERS:
        b = ctx.body(fn)
        apps = [(c, M.wal_append_variant(b, c)) for c in b.calls() if c.name == M.WAL_APPEND]
        begins = [c for c, v in apps if v == "BeginTx"]
        commits = [c for c, v in apps if v == "CommitTx"]
        ctx.floor("C02.1", "BeginTx/CommitTx in " + fn, min(len(begins), len(commits)), 1)
        for c, v in apps:
            if v in ("BeginTx", "CommitTx"):
                continue
            ctx.instance("C02.1", "%s: append(%s)#%d" % (fn, v, c.ordinal))
            dom = any(b.dominates(bg.bb, c.bb) for bg in begins)
            rets = paths.success_returns_reachable(b, [c.target] if c.target is not None else [], avoid=[x.bb for x in commits])
            ctx.oblige(dom and not rets, "C02.1", "%s:append(%s)#%d:bracket" % (fn, v, c.ordinal),
                       "data record not bracketed by BeginTx (dominating) and CommitTx (on every success path)", c.loc(),
                       sample={"fn": fn, "record": v, "dominated_by_begin": dom, "returns_without_commit": rets})
        # guard continuity
        bl = locks.BodyLocks(b)
        wal_acqs = [a for a in bl.acqs if a.cls == "Mutex<Wal>"]
        if fn == M.BULK_INIT_WAL:
            # named exception: the bulk loader owns a private Wal value before the database exists (no mutex)
            ctx.instance("C02.1", "%s: private Wal, guard continuity not applicable" % fn)
            continue
        ctx.floor("C02.1", "WAL lock acquisitions in " + fn, len(wal_acqs), 1)
        for bg in begins:
            holders = [a for a in wal_acqs if bl.must_hold(a, bg.bb)]
            ok = False
            for a in holders:
                # no release of this guard reachable from BeginTx before CommitTx
                seen = b.reachable([bg.target], avoid=[x.bb for x in commits] + list(paths.fail_blocks(b)))
                rel_between = [r for r in a.releases if r in seen]
                if not rel_between and all(bl.must_hold(a, cm.bb) for cm in commits):
                    ok = True
            ctx.instance("C02.1", "%s: WAL guard across BeginTx#%d..CommitTx" % (fn, bg.ordinal))
            ctx.oblige(ok, "C02.1", "%s:wal-guard-continuity#%d" % (fn, bg.ordinal),
                       "the WAL mutex guard is not held continuously from BeginTx to CommitTx (records of two transactions can interleave)",
                       bg.loc(), sample={"fn": fn, "begin": bg.loc(), "holders": [repr(a) for a in holders]})

    # ---- clause 2 ---------------------------------------------------------
    pre_durable_mutation_rule(ctx, "C02.2")

    # ---- clause 3 ---------------------------------------------------------
    b = ctx.body(REPLAY)
    adt = ctx.adt(M.WALRECORD)
    nvar = len(adt["variants"])
    # the match on the record: a switch on discriminant of a WalRecord local
    best = None
    for bi, blk in enumerate(b.blocks):
        t = blk["t"]
        if t[0] != "switch":
            continue
        for st in blk["s"]:
            if st[0] == "a" and st[2][0] == "discr" and M.WALRECORD in b.local_ty(st[2][1][0]):
                if best is None or len(t[2]) > len(best[1][2]):
                    best = (bi, t)
    ctx.floor("C02.3", "match on WalRecord in replay", 1 if best else 0, 1)
    if best:
        bi, t = best
        explicit = {v for v, _ in t[2]}
        other = t[3]
        other_unreach = b.term(other)[0] == "unreach"
        ctx.instance("C02.3", "replay match: %d explicit arms of %d variants" % (len(explicit) + (0 if other_unreach else 0), nvar))
        ok = (len(explicit) == nvar) or (len(explicit) == nvar - 1 and not other_unreach) or other_unreach
        # a wildcard arm swallowing several variants is the violation
        ctx.oblige(len(explicit) >= nvar - 1, "C02.3", "replay:explicit-arms",
                   "replay_graph_transactions has a wildcard arm covering several WalRecord variants (a new data record would be silently ignored)",
                   "%s:%d" % (b.file, t[5]), sample={"explicit_discriminants": sorted(explicit), "variants": nvar})
    applies = [c for c in b.calls() if c.name == M.IDMAP_APPLY[0]]
    lookups = [c for c in b.calls() if c.name == IDMAP_LOOKUP]
    ctx.floor("C02.3", "apply_create_node in replay", len(applies), 1)
    for c in applies:
        ctx.instance("C02.3", "replay: apply_create_node#%d guarded by idmap.lookup" % c.ordinal)
        guarded = any(b.dominates(l.bb, c.bb) and not b.postdominates(c.bb, l.bb) for l in lookups)
        ctx.oblige(guarded, "C02.3", "replay:create-node-skip#%d" % c.ordinal,
                   "replay applies CreateNode without the idmap.lookup skip (re-replay after a crash duplicates or fails)", c.loc(),
                   sample={"apply": c.loc(), "lookups": [l.loc() for l in lookups]})

    scanner_rule(ctx, "C02.4")


def pre_durable_mutation_rule(ctx, rid):
    """commit mutates pages / node table only after CommitTx is appended and fsynced (shared as C07.5)"""
    F = ctx.facts
    b = ctx.body(M.COMMIT)
    PD = M.PageDirty(F)
    fs = [c for c in b.calls() if c.name == M.WAL_FSYNC]
    oks = [paths.ok_arm(b, c) for c in fs]
    for c in b.calls():
        is_page = PD.is_D_site(c) or (PD.is_M_site(c) and c.name.startswith("nervusdb_storage::") and not c.name.startswith(M.ST + "wal::"))
        is_idmap = c.name in M.IDMAP_APPLY
        if not (is_page or is_idmap):
            continue
        ctx.instance(rid, "commit: %s (%s)" % (site_key(c), "node table" if is_idmap else "page file"))
        ok = any(o is not None and b.dominates(o, c.bb) for o in oks)
        ctx.oblige(ok, rid, "commit:%s" % site_key(c),
                   "state outside the log is mutated before the transaction's CommitTx record is durable "
                   "(a crash, or a commit that fails afterwards, leaves effects of an uncommitted transaction)", c.loc(),
                   sample={"site": c.loc(), "callee": c.name, "fsync_ok_arm": oks})
    ctx.floor(rid, "mutation sites in commit", len(ctx.instances[rid]), 8)


def scanner_rule(ctx, rid):
    """log scanners discard the pending records of an unfinished transaction at the next BeginTx (shared by C01, C02, C08)"""
    F = ctx.facts
    # A crash inside commit leaves BeginTx + some records without CommitTx; later commits are appended behind them.
    # Every scanner that groups records into transactions must drop the pending records at the next BeginTx, otherwise
    # the aborted records are applied as part of the next committed transaction.
    adt = ctx.adt(M.WALRECORD)
    names = [v["name"] for v in adt["variants"]]
    scanners = 0
    for i, sb in sorted(F.bodies.items()):
        if not i.startswith("nervusdb_storage::wal::") or sb.kind == "closure" or "::tests::" in i:
            continue
        sw = tables.enum_switch(sb, M.WALRECORD, F)
        if not sw or names.index("BeginTx") not in sw[1] or names.index("CommitTx") not in sw[1]:
            continue
        pushes = [c for c in sb.calls() if c.name.endswith("Vec::<T, A>::push") and c.args and M.WALRECORD in sb.local_ty(peel_refs(sb, op_local(c.args[0])) or 0)]
        if not pushes:
            continue
        scanners += 1
        pend = {peel_refs(sb, op_local(c.args[0])) for c in pushes}
        region = tables.dominated_region(sb, sw[1][names.index("BeginTx")], sw[0])
        cleared = False
        for c in sb.calls():
            if c.bb in region and c.args and c.name.split("::")[-1] in ("clear", "take", "truncate", "drain") and peel_refs(sb, op_local(c.args[0])) in pend:
                cleared = True
        for x in region:
            for st in sb.blocks[x]["s"]:
                if st[0] == "a" and st[1][0] in pend and not st[1][1]:
                    cleared = True
        ctx.instance(rid, "%s: BeginTx arm resets the pending-record buffer=%s" % (i, cleared))
        ctx.oblige(cleared, rid, "%s:BeginTx-keeps-pending-records" % i,
                   "the BeginTx arm does not discard records buffered from an earlier transaction that never committed (a crash in the middle of a "
                   "commit): those records are replayed as part of the next committed transaction — recovery applies a non-prefix", sb.file,
                   sample={"scanner": i})
    ctx.floor(rid, "log scanners that group records into transactions", scanners, 2)


def scanner_effects_rule(ctx, rid="C02.6"):
    """a log record takes effect only when its transaction commits: outside the CommitTx arm a scanner touches nothing but its pending buffer"""
    F = ctx.facts
    ctx.rule(rid, "a log scanner that groups records into transactions mutates its output (the list of committed transactions) only in the CommitTx arm, and "
             "only by appending: a record of a transaction that never commits must have no effect on what recovery returns")
    adt = ctx.adt(M.WALRECORD)
    names = [v["name"] for v in adt["variants"]]
    n = 0
    for i, sb in sorted(F.bodies.items()):
        if not i.startswith("nervusdb_storage::wal::") or sb.kind == "closure" or "::tests::" in i:
            continue
        sw = tables.enum_switch(sb, M.WALRECORD, F)
        if not sw or names.index("BeginTx") not in sw[1] or names.index("CommitTx") not in sw[1]:
            continue
        pend = {peel_refs(sb, op_local(c.args[0])) for c in sb.calls()
                if c.name.endswith("Vec::<T, A>::push") and c.args and M.WALRECORD in sb.local_ty(peel_refs(sb, op_local(c.args[0])) or 0)}
        if not pend:
            continue
        commit_region = set(tables.dominated_region(sb, sw[1][names.index("CommitTx")], sw[0]))
        # the output: every other local collection (Vec / map) of the function that is mutated somewhere
        bodies = [sb] + list(F.closures_of(i))
        for x in bodies:
            for c in x.calls():
                if not c.args:
                    continue
                a0 = op_local(c.args[0])
                if a0 is None:
                    continue
                sd = x.single_def(a0)
                mutable = bool(sd and sd[2] == "assign" and sd[3][2][0] == "ref" and sd[3][2][1])
                if not mutable:
                    continue
                root = peel_refs(x, a0)
                ty = x.local_ty(root) if root is not None else ""
                if x is sb and root in pend:
                    continue
                if "CommittedTx" not in ty:
                    continue
                n += 1
                meth = c.name.split("::")[-1]
                in_commit = x is sb and c.bb in commit_region
                ok = in_commit and meth in ("push", "extend", "push_back")
                ctx.instance(rid, "%s: %s on the committed-transaction list (%s)" % (i.split("::")[-1], meth, "CommitTx arm" if in_commit else "outside the CommitTx arm"))
                ctx.oblige(ok, rid, "%s:%s:%s-%s" % (rid, i.split("::")[-1], meth, "in-commit" if in_commit else "outside-commit"),
                           "the scanner edits the list of committed transactions with `%s` %s: a record of a transaction that may never commit "
                           "(a crash before its CommitTx) changes what recovery replays" % (meth, "in the CommitTx arm" if in_commit else "outside the CommitTx arm"), c.loc())
    ctx.floor(rid, "mutations of the committed-transaction list", n, 1)


def _bitmap_flush_rule(ctx, rid="C02.5"):
    """C02.5: an allocation-bitmap change is flushed before the Pager method that made it reports success"""
    from .. import paths
    F = ctx.facts
    ctx.rule(rid, "in every Pager method that flips an allocation bit, each success return after the flip passes through flush_meta_and_bitmap (the on-disk bitmap never lags behind pages a committed WAL record may reference)")
    SET = "nervusdb_storage::pager::Bitmap::set_allocated"
    FLUSH = "nervusdb_storage::pager::Pager::flush_meta_and_bitmap"
    n = 0
    for i, b in sorted(F.bodies.items()):
        if not i.startswith("nervusdb_storage::pager::Pager::") or "::tests::" in i or b.root or i.endswith("write_vacuum_copy"):
            continue
        flips = [c for c in b.calls() if c.name == SET]
        if not flips:
            continue
        flushes = [c.bb for c in b.calls() if c.name == FLUSH]
        for k, c in enumerate(flips):
            n += 1
            rets = paths.success_returns_reachable(b, [c.target], avoid=flushes) if (c.target is not None and c.target not in flushes) else []
            ctx.instance(rid, "%s: bit flip #%d reaches a success return without flush_meta_and_bitmap: %s" % (i.split("::")[-1], k, bool(rets)))
            ctx.oblige(not rets, rid, "%s:bit-flip#%d-unflushed" % (i.split("::")[-1], k),
                       "%s can return Ok after changing an allocation bit only in memory: after a crash the page is unallocated on disk although a committed "
                       "(fsynced) manifest / checkpoint record references it, and open fails with PageNotAllocated" % i.split("::")[-1], c.loc())
    ctx.floor(rid, "allocation-bit flips in Pager methods", n, 2)
