"""C05 — Compaction and checkpoint are invisible (structural necessary conditions)."""
from .. import model as M
from .. import paths
from ..mirutil import backward_calls
from ..facts import op_local

EXPLANATION = (
    "Decides: (1) compaction consumes everything a run carries — every data field of L0Run is read in the call closure of "
    "GraphEngine::compact, and that closure reaches BTree::delete so removed / overwritten property keys can leave the property tree; "
    "(2) liveness survives run clearing — the snapshot's deleted-node set derives from persisted state (not from runs alone), and the "
    "segment builder receives the existing segments or the segment type can carry edge tombstones; "
    "(3) every CsrSegment literal with no edges still has sentinel reverse offsets (an empty `in_offsets` makes incoming_neighbors index out of bounds). "
    "It does not decide equality of reads before/after compaction."
    " C05.6: build_segment_from_runs grows its tombstone sets per run, inside the loop and before that run's edges are filtered."
    " C05.7: every node-property read in WriteTxn::commit (old values for index maintenance) resolves to a reader that reaches the property store, so the result does not depend on whether a compaction has sunk the value."
)

L0RUN = "nervusdb_storage::snapshot::L0Run"
CSR = "nervusdb_storage::csr::CsrSegment"
BTREE_DELETE = "nervusdb_storage::index::btree::BTree::delete"
BUILD_SEG = "nervusdb_storage::engine::build_segment_from_runs"
STORAGE_SNAPSHOT = "nervusdb_storage::api::StorageSnapshot"
VEC_NEW = "alloc::vec::Vec::<T>::new"


def csr_literals(F):
    """(body, bb, {field: operand}) for each CsrSegment aggregate"""
    out = []
    for b in F.bodies.values():
        if not b.id.startswith(("nervusdb_storage", "<nervusdb_storage")):
            continue
        n = 0
        for bi, blk in enumerate(b.blocks):
            if blk["c"]:
                continue
            for st in blk["s"]:
                if st[0] == "a" and st[2][0] == "agg" and st[2][1] == "adt" and st[2][2] == CSR:
                    ops = dict(zip(st[2][5], st[2][4]))
                    out.append((b, bi, n, ops, st[3]))
                    n += 1
    return out


def is_vec_new(b, op):
    l = op_local(op)
    if l is None:
        return False
    o = b.origin(l)
    if not (o and o[0] == "call" and o[1] is not None and o[1].name == VEC_NEW):
        return False
    # the vector must reach the literal untouched: no `&mut` borrow of any local on the move chain
    chain = {l, o[1].dest[0]}
    cur = l
    for _ in range(8):
        sd = b.single_def(cur)
        if not sd or sd[2] != "assign" or sd[3][2][0] != "use":
            break
        cur = op_local(sd[3][2][1])
        if cur is None:
            break
        chain.add(cur)
    for blk in b.blocks:
        for st in blk["s"]:
            if st[0] == "a" and st[2][0] == "ref" and st[2][1] and st[2][2][0] in chain:
                return False
    return True


def run(ctx):
    commit_reads_store_rule(ctx)
    F = ctx.facts
    ctx.rule("C05.1", "compact's call closure reads every data field of L0Run and reaches BTree::delete")
    ctx.rule("C05.2", "deleted-node set of a snapshot derives from persisted state; segment builder sees older segments or CsrSegment carries tombstones")
    ctx.rule("C05.3", "edge-less CsrSegment literals keep sentinel reverse offsets")
    ctx.rule("C05.5", "whole-map property readers merge the compacted store on every path (no early return with the runs' map only)")
    ctx.rule("C05.4", "a property removed in a run masks the value stored by an earlier compaction (store fall-through needs a 3-state overlay result)")

    # ---- clause 1 ---------------------------------------------------------
    adt = ctx.adt(L0RUN)
    data_fields = [f[0] for f in adt["variants"][0]["fields"] if f[0] != "txid"]
    ctx.floor("C05.1", "L0Run data fields", len(data_fields), 8)
    closure = F.reach([M.COMPACT], stop=lambda x: not x.startswith(("nervusdb_storage", "<nervusdb_storage")) and x != M.COMPACT)
    ctx.body(M.COMPACT)
    read = set()
    for i in closure:
        b = F.bodies.get(i)
        if b is None:
            continue
        for blk in b.blocks:
            for st in blk["s"]:
                if st[0] != "a":
                    continue
                rv = st[2]
                pls = []
                if rv[0] in ("ref", "rawptr"):
                    pls.append(rv[2] if rv[0] == "ref" else rv[1])
                elif rv[0] == "discr":
                    pls.append(rv[1])
                else:
                    from ..facts import rvalue_operands
                    for op in rvalue_operands(rv):
                        if op[0] in ("c", "m"):
                            pls.append(op[1])
                for pl in pls:
                    for p in pl[1]:
                        if isinstance(p, list) and p[0] == "f" and p[3] == L0RUN:
                            read.add(p[2])
            t = blk["t"]
            if t[0] == "call":
                for a in t[2]:
                    if a[0] in ("c", "m"):
                        for p in a[1][1]:
                            if isinstance(p, list) and p[0] == "f" and p[3] == L0RUN:
                                read.add(p[2])
    # has_properties()/is_empty() read all fields only to test emptiness: not consumption
    probe_only = set()
    for helper in (L0RUN + "::is_empty", L0RUN + "::has_properties"):
        hb = F.bodies.get(helper)
    consumed = set()
    for i in closure:
        if i in (L0RUN + "::is_empty", L0RUN + "::has_properties"):
            continue
        b = F.bodies.get(i)
        if b is None:
            continue
        for blk in b.blocks:
            for st in blk["s"]:
                if st[0] == "a":
                    rv = st[2]
                    pls = []
                    if rv[0] in ("ref", "rawptr"):
                        pls.append(rv[2] if rv[0] == "ref" else rv[1])
                    else:
                        from ..facts import rvalue_operands
                        for op in rvalue_operands(rv):
                            if op[0] in ("c", "m"):
                                pls.append(op[1])
                    for pl in pls:
                        for p in pl[1]:
                            if isinstance(p, list) and p[0] == "f" and p[3] == L0RUN:
                                consumed.add(p[2])
    # named exception: edges_by_dst is the reverse index of the same edges as edges_by_src
    data_fields = [f for f in data_fields if f != "edges_by_dst"]
    for f in data_fields:
        ctx.instance("C05.1", "L0Run.%s consumed by compaction=%s" % (f, f in consumed))
        ctx.oblige(f in consumed, "C05.1", "compact:ignores(L0Run.%s)" % f,
                   "compaction drops the runs but never applies L0Run.%s: what it records reappears / is lost after compaction" % f,
                   F.bodies[M.COMPACT].file, sample={"field": f, "consumed_fields": sorted(consumed)})
    reaches_delete = BTREE_DELETE in closure
    ctx.instance("C05.1", "compact reaches BTree::delete=%s" % reaches_delete)
    ctx.oblige(reaches_delete, "C05.1", "compact:never-deletes-from-property-tree",
               "compaction only inserts into the property tree: removed properties stay stored and an overwritten key gets a second entry "
               "(whole-map readers return the oldest)", F.bodies[M.COMPACT].file)

    # ---- clause 2 ---------------------------------------------------------
    snap_fn = F.impl_method("nervusdb_api::GraphStore", M.ENGINE, "snapshot")
    sb = ctx.body(snap_fn or "impl GraphStore for GraphEngine::snapshot")
    lits = [(bi, st) for bi, blk in enumerate(sb.blocks) for st in blk["s"]
            if st[0] == "a" and st[2][0] == "agg" and st[2][2] == STORAGE_SNAPSHOT]
    ctx.floor("C05.2", "StorageSnapshot literals", len(lits), 1)
    reach_read = paths.Reach(F, {M.READ_PAGE_RAW})
    for bi, st in lits:
        ops = dict(zip(st[2][5], st[2][4]))
        op = ops.get("tombstoned_nodes")
        calls = backward_calls(sb, op_local(op)) if op is not None and op_local(op) is not None else []
        names = sorted({c.name for c in calls})
        persisted = any(reach_read.call_reaches(c) or c.name.endswith("scan_i2e_records") or "segments" in c.name for c in calls)
        ctx.instance("C05.2", "snapshot.tombstoned_nodes derives from %s" % [n.split("::")[-1] for n in names])
        ctx.oblige(persisted, "C05.2", "snapshot:tombstoned_nodes-from-runs-only",
                   "the deleted-node set of a snapshot is computed from the in-memory runs only; compaction clears the runs, "
                   "so deleted nodes are enumerated again afterwards", "%s:%d" % (sb.file, st[3]),
                   sample={"derives_from": names})
    bb_ = ctx.body(BUILD_SEG)
    param_tys = [bb_.local_ty(i) for i in range(1, bb_.argc + 1)]
    csr = ctx.adt(CSR)
    csr_fields = [f[0] for f in csr["variants"][0]["fields"]]
    sees_segments = any("CsrSegment" in t for t in param_tys)
    carries = any("tombstone" in f for f in csr_fields)
    ctx.instance("C05.2", "segment builder params=%s; CsrSegment fields=%s" % (param_tys, csr_fields))
    ctx.oblige(sees_segments or carries, "C05.2", "compact:edge-tombstones-not-applied-to-older-segments",
               "a run's edge tombstones are applied only to run edges when the new segment is built; an edge stored in an older segment "
               "whose tombstone lives in a compacted run becomes visible again", bb_.file,
               sample={"builder_params": param_tys, "segment_fields": csr_fields})

    # ---- clause 3 ---------------------------------------------------------
    lits = [x for x in csr_literals(F) if not x[0].id.startswith("nervusdb_storage::bulkload::")]  # bulk-load literals: C30
    ctx.floor("C05.3", "CsrSegment literals", len(lits), 3)
    for b, bi, n, ops, line in lits:
        e_empty = is_vec_new(b, ops["edges"])
        in_empty = is_vec_new(b, ops["in_offsets"])
        ctx.instance("C05.3", "%s literal#%d edges_empty=%s in_offsets_empty=%s" % (b.id, n, e_empty, in_empty))
        ctx.oblige(not (e_empty and in_empty), "C05.3", "%s:CsrSegment#%d:empty-in_offsets" % (b.id, n),
                   "segment without edges is built with an empty `in_offsets`: incoming_neighbors(0) indexes in_offsets[0] out of bounds "
                   "after a compaction / bulk load that produced no relationships", "%s:%d" % (b.file, line),
                   sample={"fn": b.id, "literal": n})

    # ---- clause 4 ---------------------------------------------------------
    # StorageSnapshot::{node,edge}_property / _properties consult the run overlay and then fall through to the property store.
    # The overlay knows three states (value / removed / nothing); if its result type is a plain Option the `removed` state is
    # lost at that boundary and a removed (or null-ed) property re-appears from the store as soon as it has been compacted once.
    SS = "nervusdb_storage::api::StorageSnapshot"
    n4 = 0
    for i, b in sorted(F.bodies.items()):
        if b.kind == "closure" or b.self_ty != SS or b.impl_trait != "nervusdb_api::GraphSnapshot":
            continue
        stores = [c for c in b.calls() if c.name.startswith("nervusdb_storage::read_path_property_store::") and c.name.endswith("_from_store")]
        if not stores:
            continue
        overlay = [c for c in b.calls() if c.name.startswith("nervusdb_storage::snapshot::Snapshot::") and "propert" in c.name]
        n4 += 1
        ctx.analysed_fns.add(i)
        three_state = False
        for o in overlay:
            rty = b.local_ty(o.dest[0])
            if not rty.startswith("core::option::Option<") or "Removed" in rty or "Tombstone" in rty:
                three_state = True
        # alternative repair: the store call receives the removed-key set
        passes_removed = any(any("BTreeSet" in b.local_ty(l) or "HashSet" in b.local_ty(l) for l in [a[1][0] for a in s.args if a[0] in ("c", "m")]) for s in stores)
        consults = any(("tombston" in c.name.lower() or "removed" in c.name.lower()) and "propert" in c.name.lower() for c in b.calls())
        three_state = three_state or consults
        m = i.split("::")[-1]
        ctx.instance("C05.4", "%s: overlay result %s, store fall-through %s" % (m, [b.local_ty(o.dest[0])[:60] for o in overlay], [s.name.split("::")[-1] for s in stores]))
        ctx.oblige(three_state or passes_removed, "C05.4", "StorageSnapshot::%s:removed-falls-through-to-store" % m,
                   "the run overlay reports a removed property the same way as an unknown one (plain Option), so the read falls through to the "
                   "property store: REMOVE n.p / SET n.p = null has no visible effect once the old value has been compacted", b.file,
                   sample={"method": m, "overlay": [o.name for o in overlay], "store": [s.name for s in stores]})
    ctx.floor("C05.4", "snapshot property readers with store fall-through", n4, 4)

    # ---- clause 5 ---------------------------------------------------------
    # Compaction moves properties from the runs into the store.  A whole-map reader that returns the runs' map without
    # merging the store loses every property that was compacted earlier as soon as a later run mentions the entity.
    from ..mirutil import switch_on
    from ..facts import op_const
    n5 = 0
    for i, b in sorted(F.bodies.items()):
        if b.kind == "closure" or b.self_ty != SS or b.impl_trait != "nervusdb_api::GraphSnapshot":
            continue
        if "BTreeMap" not in b.local_ty(0):
            continue
        stores = [c for c in b.calls() if c.name.startswith("nervusdb_storage::read_path_property_store::") and c.name.endswith("_from_store")]
        if not stores:
            continue
        n5 += 1
        # the `properties_root != 0` test: its `root == 0` arm may skip the store
        skip_ok = set()
        for bi in range(len(b.blocks)):
            sw = switch_on(b, bi)
            if not sw:
                continue
            l, neg, arms, other = sw
            sd = b.single_def(l)
            if not sd or sd[2] != "assign" or sd[3][2][0] != "bin" or sd[3][2][1] not in ("Ne", "Eq"):
                continue
            rv = sd[3][2]
            opsx = [rv[2], rv[3]]
            zero = any(op_const(o) and op_const(o).get("v") == 0 for o in opsx)
            root = False
            for o in opsx:
                lo = op_local(o)
                if lo is not None:
                    og = b.origin(lo)
                    if og and og[0] == "place" and any(isinstance(p, list) and p[0] == "f" and p[2] == "properties_root" for p in og[1][1]):
                        root = True
            if not (zero and root):
                continue
            t_false = [tb for v, tb in arms if v == 0]
            t_false = t_false[0] if t_false else None
            t_true = other
            if neg:
                t_true, t_false = t_false, t_true
            zero_arm = t_false if rv[1] == "Ne" else t_true
            if zero_arm is not None:
                skip_ok.add(zero_arm)
        avoid = {c.bb for c in stores} | skip_ok | paths.fail_blocks(b)
        seen = b.reachable([0], avoid=avoid)
        rets = [r for r in b.return_blocks() if r in seen]
        m = i.split("::")[-1]
        ctx.instance("C05.5", "%s: returns that bypass the store merge: %s" % (m, rets or "none"))
        ctx.oblige(not rets and bool(skip_ok), "C05.5", "StorageSnapshot::%s:returns-without-store-merge" % m,
                   "the whole-map reader can return without merging the property store although properties_root != 0: after a compaction, a "
                   "partial update of an entity hides all of its compacted properties", b.file, sample={"method": m})
    ctx.floor("C05.5", "whole-map readers", n5, 2)

    # ---- clause 6: a tombstone hides the same and older runs only -----------------------------------------
    # The read overlay walks the runs newest -> oldest and a run's tombstones take effect from that run on; a relationship re-created by a
    # *newer* run than the tombstone therefore stays visible.  Compaction must reproduce that: build_segment_from_runs grows its blocked sets
    # inside the per-run loop, before that run's edges are filtered.  Collecting the tombstones of all runs up front (or after the edges of
    # the run) turns `delete then re-create` into `deleted`, so compaction changes what reads observe.
    ctx.rule("C05.6", "build_segment_from_runs grows its tombstone sets per run, inside the loop over the runs and before that run's edges are filtered")
    sb = ctx.body(M.STORAGE + "engine::build_segment_from_runs" if hasattr(M, "STORAGE") else "nervusdb_storage::engine::build_segment_from_runs")
    edges_it = [c for c in sb.calls() if c.name.endswith("L0Run::iter_edges")]
    ctx.floor("C05.6", "iter_edges sites in build_segment_from_runs", len(edges_it), 1)
    for what in ("iter_tombstoned_nodes", "iter_tombstoned_edges"):
        ts = [c for c in sb.calls() if c.name.endswith("L0Run::" + what)]
        ok = bool(ts) and bool(edges_it)
        why = ""
        for e in edges_it:
            cyc = sb.reachable(sb.succs(e.bb))
            per_run = [t for t in ts if t.bb in cyc and sb.dominates(t.bb, e.bb)]
            if not per_run:
                ok = False
                why = "no %s call inside the run loop before iter_edges (it is %s)" % (what, "collected outside the loop" if not [t for t in ts if t.bb in cyc] else "after the edges")
        ctx.instance("C05.6", "build_segment_from_runs: %s grown per run before the run's edges=%s" % (what, ok))
        ctx.oblige(ok, "C05.6", "build_segment_from_runs:%s-not-per-run" % what,
                   "the segment builder does not apply %s run by run (%s): a tombstone of an older run also removes a newer re-creation of the same key, "
                   "so a relationship deleted and later re-created disappears at the next compaction" % (what.replace("iter_", ""), why or "missing"), sb.file)


STORE_READER = "nervusdb_storage::read_path_property_store::read_node_property_from_store"


def commit_reads_store_rule(ctx, rid="C05.7"):
    """commit-time index maintenance reads the old property value through a reader that falls back to the property store (where compaction puts it)"""
    from .. import model as M
    F = ctx.facts
    ctx.rule(rid, "every node-property read in WriteTxn::commit (the old value whose index entry must be deleted) resolves to a reader that reaches the property "
             "store: after a compaction the value lives only there, and a run-only view leaves the stale index entry in place")
    b = ctx.body(M.COMMIT)
    ctx.body(STORE_READER)
    bodies = [b] + list(F.closures_of(M.COMMIT))
    n = 0
    for x in bodies:
        for c in x.calls():
            if not (c.name.endswith("::node_property") or c.declared.endswith("::node_property")):
                continue
            n += 1
            tg = F.call_targets(c)
            ok = bool(tg) and all(F.reaches(t, {STORE_READER}) for t in tg)
            ctx.instance(rid, "commit: %s -> %s reaches the property store=%s" % (c.loc(), [t.split(" as ")[0][-40:] for t in tg][:2], ok))
            ctx.oblige(ok, rid, "%s:commit:node_property#%d:run-only-view" % (rid, c.ordinal),
                       "commit reads the current property value through %s, which does not consult the property store: once a compaction has sunk the value "
                       "there the old index entry is never deleted (lookups return the node for a value it no longer has, or twice)" % (tg[:1] or [c.name]), c.loc())
    ctx.floor(rid, "node-property reads in commit", n, 2)
