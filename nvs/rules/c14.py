"""C14 — No dangling relationships: delete safety must see the transaction's staged relationships (PROV)."""
from ..facts import op_local

EXPLANATION = (
    "Decides the write-side clause: every function that decides `node still has relationships` or collects the relationships to detach "
    "(ensure_non_detach_delete_safety, execute_delete_on_rows, execute_delete) enumerates relationships through the pre-statement snapshot; the "
    "rule requires that enumeration to be accompanied by a read of the transaction's staged relationships (a WriteableGraph method that returns "
    "staged / pending relationships, called in the same function or its callees). The read-side overlay semantics (hiding relationships whose "
    "endpoint was deleted in the same run) is runtime behaviour and is not decided; C06 covers only direction symmetry."
    " C14.3: every node a MERGE candidate enumeration yields has passed a deleted_nodes test of the statement overlay (the true arm cannot reach the push), so MERGE cannot bind a node the same statement deleted."
    " C14.5: both implementations of WriteableGraph::create_edge reach the storage-level create_edge only on the false branch of a deleted-in-this-transaction test of the source and of the destination."
    " C14.4 (= C06.3): the staged adjacency maps are keyed by the right endpoint, so an edge created and deleted in one transaction leaves both."
)

Q = "nervusdb_query::executor::create_delete_ops::"
FNS = [Q + "ensure_non_detach_delete_safety", Q + "execute_delete_on_rows", Q + "execute_delete"]
NEIGH = ("nervusdb_api::GraphSnapshot::neighbors", "nervusdb_api::GraphSnapshot::incoming_neighbors")
WG = "nervusdb_query::executor::WriteableGraph"


def run(ctx):
    F = ctx.facts
    ctx.rule("C14.1", "delete-safety / detach computations consult the transaction's staged relationships, not only the snapshot")
    ctx.rule("C14.2", "every relationship enumeration of the delete path covers both directions (outgoing and incoming)")
    live_endpoint_rule(ctx)
    tr = F.traits.get(WG)
    if tr is None:
        ctx.body(WG)  # anchor lost
    staged_readers = [n for n, did, _ in tr["items"] if ("staged" in n or "pending" in n) and any(w in n for w in ("edge", "rel", "neighbor"))]
    ctx.instance("C14.1", "WriteableGraph staged-relationship readers: %s" % (staged_readers or "none"))
    for fn in FNS:
        b = ctx.body(fn)
        enum = [c for c in b.calls() if c.declared in NEIGH]
        closure = F.reach([fn], stop=lambda x: not x.startswith("nervusdb_query"))
        # ensure_non_detach_delete_safety is a callee of the two executors: count enumeration through it as well
        enum_total = len(enum) + sum(1 for x in closure if x in FNS and x != fn)
        if enum_total == 0:
            continue
        called = set()
        for x in closure:
            bb = F.bodies.get(x)
            if bb:
                called |= {c.declared.split("::")[-1] for c in bb.calls() if c.declared.startswith(WG)}
        consults = any(n in called for n in staged_readers)
        ctx.instance("C14.1", "%s: %d snapshot relationship enumerations, consults staged relationships=%s" % (fn.split("::")[-1], len(enum), consults))
        ctx.oblige(consults, "C14.1", fn + ":snapshot-only",
                   "relationships created earlier in the same statement/transaction are invisible to the delete check: a node can be deleted "
                   "without DETACH while a staged relationship still points at it (dangling relationship after commit)", b.file,
                   sample={"fn": fn, "enumerations": [c.loc() for c in enum], "writeable_graph_calls": sorted(called)})
    ctx.floor("C14.1", "delete functions analysed", len(ctx.instances["C14.1"]) - 1, 3)

    for fn in FNS:
        b = F.bodies[fn]
        outs = [c for c in b.calls() if c.declared == NEIGH[0]]
        ins = [c for c in b.calls() if c.declared == NEIGH[1]]
        if not outs and not ins:
            continue
        ctx.instance("C14.2", "%s: outgoing enumerations=%d incoming=%d" % (fn.split("::")[-1], len(outs), len(ins)))
        ctx.oblige(len(outs) == len(ins) and outs, "C14.2", fn + ":one-direction-only",
                   "the delete path enumerates relationships in one direction more often than in the other: relationships pointing AT a deleted "
                   "node are not refused / not detached and dangle", b.file)

    # ---- clause 3: MERGE never binds a node the same statement deleted --------------------------------
    # The snapshot handed to a statement predates it, so a node deleted by an earlier clause of the same statement is still in
    # `snapshot.nodes()`; only the statement overlay (`MergeOverlayState.deleted_nodes`) knows it is gone.  A MERGE that binds such a
    # node creates its relationship onto a node that the same commit tombstones: a relationship whose endpoint no scan returns.
    from ..mirutil import recv_field, switch_on
    ctx.rule("C14.3", "every node a MERGE candidate enumeration yields has passed a `deleted_nodes` test of the statement overlay")
    OVERLAY = "nervusdb_query::executor::merge_overlay::MergeOverlayState"
    n3 = 0
    for i, b in sorted(F.bodies.items()):
        if not i.startswith("nervusdb_query::executor::merge_") or "::tests::" in i or b.root:
            continue
        if not any(OVERLAY in b.local_ty(l) for l in range(1, b.argc + 1)):
            continue
        enumerates = any(c.declared == "nervusdb_api::GraphSnapshot::nodes" for c in b.calls())
        pushes = [c for c in b.calls() if c.name.endswith("Vec::<T, A>::push") or c.name.endswith("::push")]
        if not enumerates or not pushes or "InternalNodeId" not in b.local_ty(0) and "u32" not in b.local_ty(0):
            continue
        guards = []
        for g in b.calls():
            if not g.name.endswith("::contains"):
                continue
            fld = recv_field(b, g)
            if fld and fld[0] == "deleted_nodes" and g.target is not None:
                sw = switch_on(b, g.target)
                if sw:
                    t_false = [tb for v, tb in sw[2] if v == 0]
                    t_true = sw[3]
                    if sw[1]:
                        t_true, t_false = (t_false[0] if t_false else None), [t_true]
                    guards.append((g, t_true))
        for k, p in enumerate(sorted(pushes, key=lambda c: (c.line, c.bb))):
            n3 += 1
            ok = False
            for g, t_true in guards:
                if not b.dominates(g.bb, p.bb) or t_true is None:
                    continue
                doms = {x for x in range(len(b.blocks)) if b.dominates(x, g.bb)}
                if p.bb not in b.reachable([t_true], avoid=doms):
                    ok = True
            ctx.instance("C14.3", "%s: candidate push #%d at %s filtered by deleted_nodes=%s" % (i.split("::")[-1], k, p.loc(), ok))
            ctx.oblige(ok, "C14.3", "%s:candidate#%d-ignores-deleted_nodes" % (i, k),
                       "a MERGE candidate is taken from the pre-statement snapshot without consulting the statement's own deletions: "
                       "MERGE after DELETE in one statement binds the deleted node and creates a relationship onto it (dangling after commit)", p.loc())
    ctx.floor("C14.3", "MERGE candidate pushes", n3, 2)
    # a relationship staged and deleted again in one transaction must leave both adjacency maps, or it dangles in the committed run
    from .c06 import keyed_by_rule
    keyed_by_rule(ctx, "C14.4")


STORAGE_CREATE_EDGE = "nervusdb_storage::engine::WriteTxn::create_edge"
TOMB_TEST = "nervusdb_storage::engine::WriteTxn::is_node_tombstoned_in_txn"


def live_endpoint_rule(ctx, rid="C14.5"):
    """every WriteableGraph::create_edge implementation refuses an endpoint that was deleted earlier in the transaction"""
    from .c26 import bslice, bool_branches
    F = ctx.facts
    ctx.rule(rid, "every implementation of WriteableGraph::create_edge (what CREATE and MERGE call) reaches the storage create_edge only after both endpoints "
             "passed a deleted-in-this-transaction test: a variable bound before a DELETE of the same statement still names the deleted node")
    impls = sorted(i for i in F.bodies if i.endswith("::create_edge") and WG + ">::create_edge" in i or (i.endswith("::create_edge") and "impl " + WG + " for" in i))
    ctx.floor(rid, "WriteableGraph::create_edge implementations", len(impls), 2)
    for i in impls:
        b = F.bodies[i]
        short = i.split(" as ")[0].lstrip("<") if " as " in i else i.split(" for ")[-1].split(">")[0]
        creates = [c for c in b.calls() if c.name == STORAGE_CREATE_EDGE]
        tests = [c for c in b.calls() if c.name == TOMB_TEST]
        ctx.instance(rid, "%s: %d storage create_edge call(s), %d deleted-in-transaction test(s)" % (short, len(creates), len(tests)))
        if not creates:
            continue
        for which, param in (("source", 2), ("destination", 4)):
            ok = False
            for t in tests:
                ls, _ = bslice(b, op_local(t.args[1]), depth=8) if len(t.args) > 1 else (set(), [])
                if param not in ls:
                    continue
                br = bool_branches(b, t.target) if t.target is not None else None
                if br is None:
                    continue
                _, tb, fb = br
                if not any(c.bb in (b.reachable([tb]) | {tb}) for c in creates):
                    ok = True
            ctx.oblige(ok, rid, "%s:%s:%s-unchecked" % (rid, short, which),
                       "%s::create_edge hands the %s to the storage layer without testing whether it was deleted earlier in this transaction: "
                       "`MATCH (a),(b) DETACH DELETE a CREATE (a)-[:R]->(b)` commits a relationship whose endpoint does not exist" % (short, which), b.file)
