"""C07 — Uncommitted transactions leave no trace (LAYER who-may-reach)."""
from .. import model as M
from ..mirutil import recv_field

EXPLANATION = (
    "Decides: from every write-transaction method other than commit (storage WriteTxn, facade WriteTxn, the WriteableGraph impls and the "
    "C-API transaction entry points other than ndb_txn_commit) no call path reaches a durable or globally visible mutation primitive "
    "(page-file write, WAL append/rewrite, publication of runs / labels / node table, label-interner insertion, HNSW insertion); and "
    "ndb_txn_rollback reaches no commit. Whole-program call graph over resolved callees, closed world for trait objects."
    " C07.5 (shared with C02.2): every page-file and node-table mutation in WriteTxn::commit is dominated by the Ok arm of the WAL fsync, so a commit that returns an error before that point — a transaction that ends without a successful commit — leaves no trace."
    " C07.6: every engine function that interns a label name in the shared table also appends its CreateLabel record afterwards (recovery and the bulk loader exempt)."
    " C07.4: in WriteTxn::commit no index maintenance is dominated by the Ok arm of the WAL fsync (a failure there would report an error for a transaction recovery replays)."
)

LABEL_GET_OR_CREATE = "nervusdb_storage::label_interner::LabelInterner::get_or_create"


def txn_methods(F):
    out = []
    for i, b in sorted(F.bodies.items()):
        if b.kind == "closure":
            continue
        st = b.self_ty or ""
        if st in ("nervusdb_storage::engine::WriteTxn", "nervusdb::WriteTxn"):
            out.append(i)
    return out

WITNESSES = ["CommitConsumesTransaction"]


def run(ctx):
    F = ctx.facts
    ctx.rule("C07.1", "no write-transaction method except commit reaches a durable / globally visible mutation primitive")
    from .c02 import scanner_rule
    ctx.rule("C07.3", "log scanners discard the records of a transaction that never committed when the next BeginTx arrives")
    scanner_rule(ctx, "C07.3")
    interned_labels_logged_rule(ctx)
    from .c02 import pre_durable_mutation_rule
    ctx.rule("C07.5", "a commit that fails before its CommitTx record is durable has touched nothing outside the log (shared with C02.2)")
    pre_durable_mutation_rule(ctx, "C07.5")
    ctx.rule("C07.2", "ndb_txn_rollback and the other non-commit C-API transaction entry points reach no commit")
    prims = {M.WRITE_PAGE_RAW: "page-file write", M.WAL_APPEND: "WAL append", M.WAL_REWRITE: "WAL rewrite",
             M.PUBLISH_RUN: "publish run", M.UPDATE_NODE_LABELS: "publish node labels", LABEL_GET_OR_CREATE: "label interner insert"}
    for x in M.IDMAP_APPLY:
        prims[x] = "node table update"
    # functions that directly publish (RwLock::write on a published field / store to a root atomic)
    for i, b in F.bodies.items():
        if i.startswith("nervusdb_storage::engine::") and M.publication_sites(b):
            if i not in (M.COMMIT,):
                prims.setdefault(i, "publication")
    for i in F.bodies:
        if "hnsw::logic::HnswIndex" in i and i.endswith("::insert"):
            prims[i] = "HNSW insert"
    methods = txn_methods(F)
    ctx.floor("C07.1", "transaction methods", len(methods), 45)
    commits = {M.COMMIT, "nervusdb::WriteTxn::commit"}
    for m in methods:
        if m in commits:
            continue
        ctx.body(m)
        path = F.reaches(m, set(prims))
        ctx.instance("C07.1", "%s -> %s" % (m, "none" if not path else path[-1]))
        if path:
            ctx.oblige(False, "C07.1", "%s=>%s" % (m, prims.get(path[-1], path[-1])),
                       "transaction method takes effect before commit (%s): a rolled-back or dropped transaction leaves a trace. path: %s"
                       % (prims[path[-1]], " -> ".join(p.split("::")[-1] for p in path)), F.bodies[m].file,
                       sample={"method": m, "path": path})
        else:
            ctx.oblige(True, "C07.1", m, "", sample={"method": m, "reaches": None})
    ctx.body("nervusdb_capi::ndb_txn_rollback")
    capi = sorted(i for i in F.bodies if i.startswith("nervusdb_capi::ndb_txn_") and "{closure" not in i and i != "nervusdb_capi::ndb_txn_commit")
    ctx.floor("C07.2", "C-API non-commit transaction entry points", len(capi), 13)
    for e in capi:
        ctx.body(e)
        path = F.reaches(e, commits)
        ctx.instance("C07.2", "%s reaches commit=%s" % (e, bool(path)))
        ctx.oblige(not path, "C07.2", e + "=>commit", "a non-commit transaction entry point reaches WriteTxn::commit: %s" % path, F.bodies[e].file)

    # ---- clause 4: nothing that can still refuse the transaction runs after its CommitTx record is durable -------------
    # Index maintenance (B-tree insert / delete, catalog flush) can fail (`index page: no space`, I/O).  If the CommitTx record
    # is already fsynced when it does, commit() returns Err — the caller treats the transaction as not committed, nothing is
    # published in the session — but recovery finds a complete BeginTx..CommitTx group and replays it: the "failed" transaction
    # reappears after the next open.
    from .. import paths
    ctx.rule("C07.4", "in WriteTxn::commit no index maintenance (BTree insert / delete, IndexCatalog flush / update_root) is dominated by the Ok arm of the WAL fsync of the CommitTx record")
    cb4 = ctx.body(M.COMMIT)
    oks4 = [o for o in (paths.ok_arm(cb4, c) for c in cb4.calls() if c.name == M.WAL_FSYNC) if o is not None]
    ctx.floor("C07.4", "fsync sites in commit", len(oks4), 1)
    INDEX_PRIMS = ("nervusdb_storage::index::btree::BTree::insert", "nervusdb_storage::index::btree::BTree::delete",
                   "nervusdb_storage::index::catalog::IndexCatalog::flush", "nervusdb_storage::index::catalog::IndexCatalog::update_root")
    n4 = 0
    k4 = {}
    for c in cb4.calls():
        if c.name not in INDEX_PRIMS:
            continue
        n4 += 1
        short = "::".join(c.name.split("::")[-2:])
        k4[short] = k4.get(short, -1) + 1
        after = any(cb4.dominates(o, c.bb) for o in oks4)
        ctx.instance("C07.4", "commit: %s#%d after the durable CommitTx=%s" % (short, k4[short], after))
        ctx.oblige(not after, "C07.4", "commit:%s#%d:after-commit-record" % (short, k4[short]),
                   "index maintenance runs after the CommitTx record is durable: when it fails, commit() reports an error for a transaction that recovery "
                   "will replay — the refused transaction reappears after reopen", c.loc())
    ctx.floor("C07.4", "index maintenance sites in commit", n4, 5)


INTERN = "nervusdb_storage::label_interner::LabelInterner::get_or_create"
INTERN_EXEMPT = ("nervusdb_storage::engine::replay_label_transactions", "nervusdb_storage::bulkload::")


def interned_labels_logged_rule(ctx, rid="C07.6"):
    """a name that enters the engine-wide label table is logged by the function that put it there"""
    from .. import paths
    F = ctx.facts
    ctx.rule(rid, "every engine function that interns a label / relationship-type name (LabelInterner::get_or_create on the shared table) appends its CreateLabel "
             "record on every success path after the interning (recovery and the bulk loader, which read the names from the log / build a fresh file, are exempt): "
             "a name interned on behalf of a transaction that is later dropped must not stay in the shared table without a log record, or a later committed "
             "transaction that reuses it never logs it and the label is a placeholder after reopen")
    n = 0
    for i, b in sorted(F.bodies.items()):
        if not i.startswith("nervusdb_storage::") or i.startswith(INTERN_EXEMPT) or "::tests::" in i:
            continue
        for c in b.calls():
            if c.name != INTERN:
                continue
            n += 1
            logs = [x.bb for x in b.calls() if x.name == M.WAL_APPEND and M.wal_append_variant(b, x) == "CreateLabel"]
            rets = [r for r in b.return_blocks() if r in b.reachable([c.bb], avoid=set(logs) | paths.fail_blocks(b))]
            # accepted: the name already existed (no new id) — a path that tests the old length / `is_new` flag; approximated by requiring at least one logging path
            ok = bool(logs) and any(l in b.reachable([c.bb]) for l in logs)
            ctx.instance(rid, "%s: interns a name; CreateLabel appended afterwards=%s" % (i.split("::")[-1], ok))
            ctx.oblige(ok, rid, "%s:%s:interned-not-logged" % (rid, i.split("::")[-1]),
                       "%s puts a name into the shared label table and never logs a CreateLabel record for it: if the caller's transaction is dropped the name "
                       "stays interned, later transactions find it and do not log it either, and after reopen the id has no name" % i.split("::")[-1], c.loc())
    ctx.floor(rid, "interning sites outside recovery / bulk load", n, 1)
