"""C33 — Execution limits fail cleanly (PATH + row-stream ERRFLOW)."""
from .. import errflow, evalguard, paths, rowflow
from ..facts import op_local
from ..mirutil import site_key

EXPLANATION = (
    "Decides: (1) PATH — every return of plan_dispatch::execute_plan passes runtime_limits::wrap_plan_iterator (so every stage checks the timeout "
    "and counts rows), and every materialising loop of the read executor (a loop that pulls from a Result<Row> stream and pushes into a collection) "
    "calls check_timeout and check_collection_size inside the loop; (2) a ResourceLimitExceeded error travelling down a row stream is never dropped: "
    "the same adaptor rule as C22.1 (a dropped limit error is a silently truncated result); (3) the guard iterator's next() consults the limits on "
    "every item. The amount of work between two guard checks and complete-vs-limited result equality are not decided."
    " C33.6: the collection measured by a check_collection_size call is not built through take / truncate."
)

EXEC = "nervusdb_query::executor"
EXEC_PLAN = EXEC + "::plan_dispatch::execute_plan"
WRAP = EXEC + "::runtime_limits::wrap_plan_iterator"
READ_MODS = (EXEC + "::plan_mid::", EXEC + "::projection_sort::", EXEC + "::plan_tail::", EXEC + "::plan_head::", EXEC + "::join_apply::",
             EXEC + "::match_", EXEC + "::read_path::", EXEC + "::plan_iterators::")
PUSH = ("push", "insert", "extend", "push_back", "entry")
GUARD_NEXT = "<nervusdb_query::executor::runtime_limits::RuntimeGuardIter as core::iter::traits::iterator::Iterator>::next"


def run(ctx):
    F = ctx.facts
    ctx.rule("C33.1", "execute_plan returns only wrapped iterators; materialising loops check timeout and collection size")
    ctx.rule("C33.2", "adaptors over Result<Row> streams keep Err items (a dropped limit error truncates the result silently)")
    ctx.rule("C33.3", "the guard iterator checks the limits on every item")
    ctx.rule("C33.5", "a loop that buffers a row stream stops at the first Err item instead of storing it (a stored error can be sorted / sliced away)")
    ctx.rule("C33.4", "no query error (a limit error is one) is discarded in the executor: dropped Result, .ok(), or a match / if-let whose Err arm goes on without the payload")
    b = ctx.body(EXEC_PLAN)
    wraps = [c.bb for c in b.calls() if c.name == WRAP]
    rets = paths.success_returns_reachable(b, [0], avoid=wraps)
    ctx.instance("C33.1", "execute_plan: %d wrap sites, unwrapped returns=%s" % (len(wraps), rets))
    ctx.oblige(bool(wraps) and not rets, "C33.1", "execute_plan:return-without-runtime-guard",
               "a plan stage can be returned without the runtime guard: its rows are neither counted nor checked against the timeout", b.file)
    its = rowflow.row_iter_types(F)
    nloops = 0
    for i, fb in sorted(F.bodies.items()):
        if not i.startswith(READ_MODS) or "::tests::" in i:
            continue
        nexts = [c for c in fb.calls() if c.declared.endswith("Iterator::next") and c.args and op_local(c.args[0]) is not None
                 and rowflow.is_row_iter_ty(fb.local_ty(op_local(c.args[0])), its)]
        seen_h = set()
        for nx in nexts:
            h = evalguard._loop_header(fb, nx.bb)
            if h is None or h in seen_h:
                continue
            seen_h.add(h)
            lb = evalguard._loop_blocks(fb, h)
            names = [c.name.split("::")[-1] for c in fb.calls() if c.bb in lb]
            if not any(n in PUSH for n in names):
                continue
            nloops += 1
            ctx.analysed_fns.add(i)
            ct, cs = "check_timeout" in names, "check_collection_size" in names
            ctx.instance("C33.1", "%s: materialising loop at line %d timeout=%s size=%s" % (i, nx.line, ct, cs))
            ctx.oblige(ct and cs, "C33.1", "%s:loop@%s:unguarded-materialisation" % (fb.root or i, site_key(nx)),
                       "a loop that buffers a whole row stream does not check %s: the query runs past its limits before failing"
                       % ", ".join(x for x, ok in (("the timeout", ct), ("the collection-size limit", cs)) if not ok), nx.loc())
    ctx.floor("C33.1", "materialising loops in the read executor", nloops, 4)

    sites, _ = rowflow.adaptor_sites(F, EXEC)
    n = 0
    for fb, c, ad in sites:
        if ad in rowflow.PREDICATE:
            cb = rowflow.closure_of_arg(F, fb, c.args[1]) if len(c.args) > 1 else None
            keeps = rowflow.predicate_keeps_err(cb) if cb is not None else None
            n += 1
            ctx.instance("C33.2", "%s: %s keeps Err=%s" % (fb.id, ad, keeps))
            ctx.oblige(keeps is True, "C33.2", "%s:%s:drops-err-rows" % (fb.id, site_key(c)),
                       "`.%s(..)` drops Err items of the row stream: a ResourceLimitExceeded raised upstream disappears and the query returns a "
                       "silently truncated result" % ad, c.loc())
        elif ad in rowflow.MAPPING:
            cb = rowflow.closure_of_arg(F, fb, c.args[1]) if len(c.args) > 1 else None
            uses = rowflow.mapping_uses_err(cb) if cb is not None else None
            n += 1
            ctx.instance("C33.2", "%s: %s forwards Err=%s" % (fb.id, ad, uses))
            ctx.oblige(uses is True, "C33.2", "%s:%s:drops-err-rows" % (fb.id, site_key(c)), "`.%s(..)` does not forward Err items" % ad, c.loc())
        elif ad in rowflow.POSITIONAL:
            n += 1
            ctx.instance("C33.2", "%s: positional %s" % (fb.id, ad))
            ctx.oblige(False, "C33.2", "%s:%s:positional-discard" % (fb.id, site_key(c)),
                       "`.%s(..)` discards row-stream items by position: a limit error among them disappears" % ad, c.loc())
    ctx.floor("C33.2", "adaptor sites judged", n, 8)

    gb = ctx.body(GUARD_NEXT)
    names = [c.name.split("::")[-1] for c in gb.calls()]
    ctx.instance("C33.3", "RuntimeGuardIter::next calls %s" % sorted(set(n for n in names if n.startswith("check") or "limit" in n or "timeout" in n)))
    ctx.oblige(any("timeout" in n for n in names) and any(("row" in n or "limit" in n or "intermediate" in n) for n in names), "C33.3",
               "RuntimeGuardIter::next:missing-limit-check", "the guard iterator no longer checks the timeout / row limit on each item", gb.file)
    for fb, c, g in evalguard.scan(F):
        if not g:
            ctx.observe("%s evaluates an expression without the pre-pass that enforces the range()/collection limit (%s)" % (fb.root or fb.id, c.loc()))

    QERR = ("nervusdb_query::error::Error",)
    seen = set()
    nres = 0
    for i in sorted(F.bodies):
        if not i.startswith((EXEC, "<nervusdb_query::executor")) or "::tests::" in i:
            continue
        fb = F.bodies[i]
        nres += len([c for c in fb.calls() if errflow.is_result_ty(fb.local_ty(c.dest[0]), QERR)])
        for it in errflow.scan(F, fb, err_substr=QERR):
            k = "%s:%s" % (fb.root or i, errflow.key_of(it))
            if k in seen:
                continue
            seen.add(k)
            c = it.get("call")
            ctx.oblige(False, "C33.4", k, "a query error is discarded (%s): a resource-limit error raised there disappears and the query goes on with a "
                       "partial result" % it["kind"], c.loc() if c else fb.file, sample={"fn": i, "kind": it["kind"]})
    ctx.instance("C33.4", "%d fallible call sites in the executor inspected" % nres)
    ctx.floor("C33.4", "fallible call sites in the executor", nres, 500)
    ctx.obligations += nres
    ctx.discharged += nres

    # ---- clause 5: buffered errors
    nb = 0
    for i, fb in sorted(F.bodies.items()):
        if not i.startswith(READ_MODS) or "::tests::" in i:
            continue
        nexts = [c for c in fb.calls() if c.declared.endswith("Iterator::next") and c.args and op_local(c.args[0]) is not None
                 and rowflow.is_row_iter_ty(fb.local_ty(op_local(c.args[0])), its)]
        seen_h = set()
        for nx in nexts:
            h = evalguard._loop_header(fb, nx.bb)
            if h is None or h in seen_h:
                continue
            seen_h.add(h)
            lb = evalguard._loop_blocks(fb, h)
            for c in fb.calls():
                if c.bb in lb and c.name.endswith("Vec::<T, A>::push") and len(c.args) > 1:
                    l = op_local(c.args[1])
                    ty = fb.local_ty(l) if l is not None else ""
                    nb += 1
                    stores_result = ty.startswith(rowflow.ROW)
                    if stores_result:
                        # accepted idiom: the Err case of this very item has already left the loop (`if let Err(e) = item { return .. }`)
                        from ..mirutil import value_root
                        root = value_root(fb, l)
                        for sb in lb:
                            tt = fb.term(sb)
                            if tt[0] != "switch":
                                continue
                            for st in fb.blocks[sb]["s"]:
                                if st[0] == "a" and st[2][0] == "discr" and op_local(tt[1]) == st[1][0] and not st[2][1][1] and value_root(fb, st[2][1][0]) == root:
                                    err_t = [tb for v, tb in tt[2] if v == 1]
                                    err_t = err_t[0] if err_t else tt[3]
                                    if fb.dominates(sb, c.bb) and c.bb not in fb.reachable([err_t]):
                                        stores_result = False
                    ctx.instance("C33.5", "%s: loop at line %d pushes %s" % (i, nx.line, "Result<Row> (errors are buffered)" if stores_result else ty[:50]))
                    ctx.oblige(not stores_result, "C33.5", "%s:loop@%s:buffers-errors" % (fb.root or i, site_key(nx)),
                               "the loop stores Err items of the row stream in its buffer instead of failing at once: after sorting, a later "
                               "LIMIT / SKIP can slice the error away and the query returns a partial result as if it were complete", c.loc())
    ctx.floor("C33.5", "buffering pushes in materialising loops", nb, 3)

    # ---- clause 6: a size check must see the untruncated size ------------------------------------------------
    # `check_collection_size(stage, v.len())` fails cleanly when v is too large.  If v was built through `.take(n)` / `truncate(n)` (an
    # "early exit" bounded by the same limit) its length can never exceed the limit: the check is dead and an oversized result is silently
    # cut instead of being refused.
    from ..facts import op_local as _ol
    from ..mirutil import peel_refs as _peel
    ctx.rule("C33.6", "the collection measured by a check_collection_size call is not built through a length-limiting adaptor (take / truncate / step-limited range)")
    CHECK = "check_collection_size"
    LIMITERS6 = ("take", "truncate", "take_while")
    n6 = 0
    for i, b in sorted(F.bodies.items()):
        if not i.startswith("nervusdb_query::executor::") or "::tests::" in i:
            continue
        k = 0
        for c in b.calls():
            if c.name.split("::")[-1] != CHECK or len(c.args) < 3:
                continue
            n6 += 1
            # the measured vector: len(V) in the backward slice of the size argument
            sl = _ol(c.args[2])
            o = b.origin(sl) if sl is not None else None
            measured = None
            if o and o[0] == "call" and o[1].name.split("::")[-1] == "len" and o[1].args:
                measured = _peel(b, _ol(o[1].args[0])) if _ol(o[1].args[0]) is not None else None
            limited = []
            if measured is not None:
                # follow the construction chain of `measured` backwards: collect(adaptor(adaptor(...)))
                cur = measured
                for _ in range(8):
                    oc = b.origin(cur)
                    if not (oc and oc[0] == "call" and oc[1].args):
                        break
                    nm = oc[1].name.split("::")[-1]
                    if nm in LIMITERS6:
                        limited.append("%s at %s" % (nm, oc[1].loc()))
                    nxt = _ol(oc[1].args[0])
                    if nxt is None:
                        break
                    cur = _peel(b, nxt)
                # in-place truncation of the measured vector before the check
                for t_ in b.calls():
                    if t_.name.split("::")[-1] in ("truncate",) and t_.args and _ol(t_.args[0]) is not None and _peel(b, _ol(t_.args[0])) == measured and b.dominates(t_.bb, c.bb):
                        limited.append("truncate at %s" % t_.loc())
            ctx.instance("C33.6", "%s: check_collection_size #%d measures %s; length-limited before the check: %s" % (i, k, ("_%d" % measured) if measured is not None else "a computed size", limited or "no"))
            ctx.oblige(not limited, "C33.6", "%s:check#%d-on-truncated-collection" % (b.root or i, k),
                       "the measured collection was already cut (%s): the limit check can never fire and an oversized result is silently truncated instead of "
                       "failing with the limit error" % ", ".join(limited), c.loc())
            k += 1
    ctx.floor("C33.6", "check_collection_size sites in the executor", n6, 10)

    # ---- clauses 7 / 8: the guard's end of stream ------------------------------------------------------------------------
    # Blocking operators (aggregate, ORDER BY, optional-where fixup) consume their input while the plan is being built and park a limit
    # error in `once(Err(e))`; execute_plan wraps that in a fresh guard.  If the guard can answer None on its own before any error was
    # delivered (for instance because "a limit was already reported somewhere"), the parked error is never yielded and the query succeeds with a
    # truncated result.  Conversely, once the guard has yielded an error it must end the stream: the timeout check precedes the poll of the
    # input, so an unfused guard reports the timeout again on every pull and a consumer that drains the stream never finishes.
    ctx.rule("C33.7", "RuntimeGuardIter::next returns None only after polling its inner iterator, or on its own fuse flag (a bool field set only on paths that go on to return Some(Err))")
    ctx.rule("C33.8", "RuntimeGuardIter is fused: every path that returns Some(Err(..)) sets the fuse flag that makes the next call return None")
    gids = [i for i in F.bodies if "runtime_limits::RuntimeGuardIter" in i and i.endswith("::next")]
    if not gids:
        ctx.body("RuntimeGuardIter::next")
    gb = ctx.body(gids[0])
    GUARD_ADT = "nervusdb_query::executor::runtime_limits::RuntimeGuardIter"
    inner = [c for c in gb.calls() if c.name.endswith("::next") and c.name != gids[0]]
    ctx.floor("C33.7", "inner next() calls in the guard", len(inner), 1)

    def flag_of_place(pl):
        for p_ in pl[1]:
            if isinstance(p_, list) and p_[0] == "f" and str(p_[3]).startswith(GUARD_ADT):
                return p_[2]
        return None

    # fuse flags: bool fields of the guard assigned the constant true somewhere
    sets = {}
    for bi, blk in enumerate(gb.blocks):
        for st in blk["s"]:
            if st[0] == "a" and st[2][0] == "use" and st[2][1][0] == "k" and st[2][1][1].get("ty") == "bool" and st[2][1][1].get("v"):
                f_ = flag_of_place(st[1])
                if f_:
                    sets.setdefault(f_, []).append(bi)
    some_blocks = set()
    none_blocks = []
    err_some = []
    for bi, blk in enumerate(gb.blocks):
        for st in blk["s"]:
            if st[0] == "a" and st[1][0] == 0 and not st[1][1] and st[2][0] == "agg" and st[2][2] == "core::option::Option":
                if st[2][3] == "None":
                    none_blocks.append((bi, st[3]))
                else:
                    some_blocks.add(bi)
                    o = gb.origin(op_local(st[2][4][0])) if st[2][4] and op_local(st[2][4][0]) is not None else None
                    if o and o[0] == "agg" and o[1][2] == "core::result::Result" and o[1][3] == "Err":
                        err_some.append((bi, st[3]))
    rets7 = {bi for bi, blk in enumerate(gb.blocks) if blk["t"][0] == "ret"}
    good_flags = set()
    for f_, blks in sets.items():
        # every assignment of the flag goes on to a Some(..) result (never to a None)
        if all(not any(nb in gb.reachable([x]) and not any(sb in gb.reachable([x]) and gb.dominates(sb, nb) for sb in some_blocks) for nb, _ in none_blocks) for x in blks):
            good_flags.add(f_)
    n7 = 0
    from ..mirutil import switch_on as _swon
    for bi, line in none_blocks:
        n7 += 1
        ok = any(gb.dominates(c.bb, bi) for c in inner)
        how = "after polling the input" if ok else ""
        if not ok:
            # on the true arm of a test of a fuse flag
            for sb in range(len(gb.blocks)):
                sw = _swon(gb, sb)
                if not sw or not gb.dominates(sb, bi):
                    continue
                o = gb.origin(sw[0])
                pl = o[1] if o and o[0] == "place" else None
                f_ = flag_of_place(pl) if pl else None
                if f_ in good_flags:
                    ok, how = True, "on the fuse flag `%s`" % f_
        ctx.instance("C33.7", "RuntimeGuardIter::next: `None` at line %d %s" % (line, how or "WITHOUT polling the input"))
        ctx.oblige(ok, "C33.7", "guard-ends-stream-early#%d" % (n7 - 1),
                   "the limit guard can end the stream without asking its input and without having delivered an error itself: an error parked by a blocking "
                   "operator (aggregate / ORDER BY built during planning) is dropped and the query returns a truncated result without the limit error", "%s:%d" % (gb.file, line))
    ctx.floor("C33.7", "None results of the guard", n7, 1)
    ctx.floor("C33.8", "Some(Err) results of the guard", len(err_some), 3)
    for k, (bi, line) in enumerate(sorted(err_some)):
        fused = any(any(gb.dominates(x, bi) or x == bi for x in blks) and f_ in good_flags for f_, blks in sets.items())
        ctx.instance("C33.8", "RuntimeGuardIter::next: Some(Err) at line %d sets the fuse flag=%s" % (line, fused))
        ctx.oblige(fused, "C33.8", "guard-not-fused#%d" % k,
                   "the guard yields an error and does not mark itself finished: the timeout is checked before the input is polled, so the same error is yielded "
                   "on every further pull and a consumer that drains the stream (query_collect, execute_mixed) never returns", "%s:%d" % (gb.file, line))
