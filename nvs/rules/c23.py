"""C23 — Expression evaluation obeys Cypher laws: the `one overflow rule everywhere` clause (ops + casts)."""
from ..facts import op_local
from ..mirutil import narrowing_cast_guarded
from ..core import AnchorLost

EXPLANATION = (
    "Decides only the integer-overflow uniformity clause: in the numeric core of the evaluator (evaluator_numeric, evaluator_arithmetic, "
    "evaluator_scalars, the unary / range code of evaluator.rs and evaluator_collections) no raw overflow-capable i64 operation (`+ - * unary-` ) "
    "produces a value — integer results come from checked_* calls or from i128 widening whose narrowing cast back to i64 is dominated by a range "
    "test of the same value (comparison or RangeInclusive::contains). Index normalisation (`len + index`) and calendar-field arithmetic are named "
    "exceptions. Three-valued logic, equality and int/float comparison are value-level laws and are not decided."
    " Added with the TRUTH engine: C23.4 Kleene folds (a null element result never ends list / map equality or IN); C23.5 AND / OR / XOR / NOT truth tables on {true, false, null} (30 rows, decided by walking the match's MIR decision tree per abstract input); C23.6 null propagation — each arithmetic / comparison / equality / string operator arm dispatches to a function whose match returns null for a null operand, for all 16 operand variants; C23.7 range comparison, ordering and equality never convert an integer operand to f64 on the (Int, Int), (Int, Float), (Float, Int) paths. C23.9: list quantifiers any / all / none / single return a definite true / false after the fold only when no predicate result was null — the post-loop code is evaluated concretely for every (matches, saw-null) state. Equality / ordering inside lists, maps and strings and transitivity in general remain value-level."
)

CORE_PREFIX = ("nervusdb_query::evaluator::evaluator_numeric::", "nervusdb_query::evaluator::evaluator_arithmetic::",
               "nervusdb_query::evaluator::evaluator_scalars::", "nervusdb_query::evaluator::evaluator_collections::",
               "nervusdb_query::evaluator::evaluator_membership::", "nervusdb_query::evaluator::evaluator_compare::",
               "nervusdb_query::evaluator::evaluator_equality::")
CORE_TOP = "nervusdb_query::evaluator::"
RAW = {"Add", "Sub", "Mul", "AddWithOverflow", "SubWithOverflow", "MulWithOverflow"}
# functions whose i64 arithmetic is not Cypher integer arithmetic (reason each)
EXCEPT_FN = {
    "nervusdb_query::evaluator::evaluator_collections::evaluate_index": "negative-index normalisation `len + index`; result only indexes a list",
    "nervusdb_query::evaluator::evaluator_collections::evaluate_slice": "negative-bound normalisation `len + bound`; result only slices a list",
    "nervusdb_query::evaluator::evaluate_date_accessor": "calendar-field arithmetic on chrono components (bounded by the calendar)",
    "nervusdb_query::evaluator::evaluate_time_accessor": "time-of-day component arithmetic (bounded)",
}


def in_core(i):
    if i.startswith(CORE_PREFIX):
        return True
    # top-level evaluator.rs functions (not submodules)
    if i.startswith(CORE_TOP):
        rest = i[len(CORE_TOP):]
        return not rest.split("::")[0].startswith("evaluator_")
    return False


def run(ctx):
    F = ctx.facts
    ctx.rule("C23.1", "no raw overflow-capable i64 arithmetic in the evaluator's numeric core")
    ctx.rule("C23.2", "narrowing i128->i64 casts in the numeric core are range-checked")
    ctx.rule("C23.4", "three-valued folds (list / map equality = AND of element equalities, IN = OR of them): an unknown (null) element result never ends the fold — only the absorbing value (false for AND, true for OR) may leave the loop early")
    ctx.rule("C23.5", "AND / OR / XOR / NOT follow the Kleene truth tables on {true, false, null}: decided by walking the match's MIR decision tree once per abstract input")
    ctx.rule("C23.6", "null propagates through arithmetic, comparison, equality and string predicates: each operator arm dispatches to a function whose match returns null whenever either operand is null (decided per operand variant)")
    ctx.rule("C23.3", "checked integer operations present (floor on the repository's checked_* idiom)")
    bodies = [b for i, b in sorted(F.bodies.items()) if in_core(i) and "::tests::" not in i]
    ctx.floor("C23.1", "numeric-core bodies", len(bodies), 80)
    n_checked = 0
    n_raw = 0
    n_cast = 0
    for b in bodies:
        root = b.root or b.id
        ctx.analysed_fns.add(b.id)
        for c in b.calls():
            short = c.name.split("::")[-1]
            if short.startswith("checked_") and ("i64" in c.name or "num::<impl i64>" in c.name):
                n_checked += 1
            if short.startswith(("wrapping_", "overflowing_", "unchecked_")) and "num::<impl i64>" in c.name and root not in EXCEPT_FN:
                ctx.instance("C23.1", "%s: %s on i64" % (b.id, short))
                ctx.oblige(False, "C23.1", "%s:%s#%d" % (b.id, short, c.ordinal),
                           "`%s` in the evaluator's numeric core: integer overflow wraps silently instead of following the checked / widen-to-float rule" % short, c.loc())
        k = 0
        for bi, blk in enumerate(b.blocks):
            if blk["c"]:
                continue
            for st in blk["s"]:
                if st[0] != "a":
                    continue
                rv = st[2]
                is_raw = (rv[0] == "bin" and rv[1] in RAW and rv[4] == "i64") or (rv[0] == "un" and rv[1] == "Neg" and rv[3] == "i64")
                if is_raw and st[4] != "m":
                    n_raw += 1
                    if root in EXCEPT_FN:
                        ctx.instance("C23.1", "exception %s (%s): %s" % (root.split("::")[-1], rv[1], EXCEPT_FN[root]))
                        continue
                    ctx.instance("C23.1", "%s: raw %s on i64" % (b.id, rv[1]))
                    ctx.oblige(False, "C23.1", "%s:raw-%s#%d" % (b.id, rv[1].replace("WithOverflow", ""), k),
                               "raw i64 `%s` in the evaluator's numeric core: overflow panics in debug builds and wraps in release instead of "
                               "following the checked / widen-to-float rule used everywhere else" % rv[1], "%s:%d" % (b.file, st[3]))
                    k += 1
                if rv[0] == "cast" and rv[1] == "IntToInt" and rv[3] == "i128" and rv[4] == "i64":
                    n_cast += 1
                    ok = narrowing_cast_guarded(b, bi, op_local(rv[2]))
                    ctx.instance("C23.2", "%s: i128->i64 cast range-checked=%s" % (b.id, ok))
                    ctx.oblige(ok, "C23.2", "%s:cast(i128->i64)" % b.id,
                               "an i128 intermediate is narrowed to i64 without a dominating range test: the result wraps silently", "%s:%d" % (b.file, st[3]))
    ctx.instance("C23.3", "checked_* i64 calls in the numeric core: %d; raw ops seen: %d; narrowing casts: %d" % (n_checked, n_raw, n_cast))
    ctx.floor("C23.3", "checked_* i64 calls", n_checked, 4)
    ctx.floor("C23.2", "widen-then-narrow sites", n_cast, 1)
    ctx.oblige(True, "C23.3", "floor", "")

    # ---- clause 4: Kleene folds ----------------------------------------------------------------
    # `[a, b] = [c, d]` is `a = c AND b = d` and `x IN [..]` is an OR of equalities.  In Kleene logic null is never absorbing:
    # after a null element the fold must keep scanning, because a later false (AND) / true (OR) decides the result.  Structurally:
    # inside the element loop, the arm taken when cypher_equals returns Value::Null cannot reach a return without going through
    # the loop header again.
    EQ = "nervusdb_query::evaluator::evaluator_equality::cypher_equals"
    VAL = "nervusdb_query::executor::core_types::Value"
    null_discr = [v["discr"] for v in ctx.adt(VAL)["variants"] if v["name"] == "Null"][0]
    n4 = 0
    for i, b in sorted(F.bodies.items()):
        if not i.startswith("nervusdb_query::evaluator::") or "::tests::" in i:
            continue
        if b.local_ty(0) != VAL:
            continue  # a two-valued predicate (`matches!(.., Bool(true))`) is not a three-valued fold
        k = 0
        for c in b.calls():
            if c.name != EQ or c.target is None:
                continue
            # the loop header: an Iterator::next call block that dominates the call and is reachable from it
            hdrs = [h.bb for h in b.calls() if h.name.endswith("::next") and b.dominates(h.bb, c.bb) and h.bb in b.reachable([c.bb])]
            if not hdrs:
                continue
            hdr = hdrs[-1]
            # the switch on the discriminant of the result
            dl = c.dest[0]
            sw = None
            for bi in sorted(b.reachable([c.target], avoid=[hdr])):
                t_ = b.blocks[bi]["t"]
                if t_[0] != "switch":
                    continue
                sl = op_local(t_[1])
                sd = b.single_def(sl) if sl is not None else None
                if sd and sd[2] == "assign" and sd[3][2][0] == "discr" and sd[3][2][1][0] == dl and not sd[3][2][1][1]:
                    sw = t_
                    break
            if sw is None:
                continue
            n4 += 1
            tgt = None
            for v, tb in sw[2]:
                if v == null_discr:
                    tgt = tb
            explicit = tgt is not None
            if tgt is None:
                tgt = sw[3]
            region = b.reachable([tgt], avoid=[hdr])
            leaves = any(b.blocks[x]["t"][0] == "ret" for x in region)
            ctx.instance("C23.4", "%s: fold over cypher_equals at %s — null arm %s, leaves the loop early: %s" % (i, c.loc(), "explicit" if explicit else "default", leaves))
            ctx.oblige(not leaves, "C23.4", "%s:null-ends-fold#%d" % (b.root or i, k),
                       "an unknown (null) element comparison ends the fold: `[null, 1] = [null, 2]` answers null although a later element decides it (false)", c.loc())
            k += 1
    ctx.floor("C23.4", "three-valued folds over cypher_equals", n4, 3)

    # ---- clause 5: truth tables ------------------------------------------------------------------
    from .. import truth
    EV = ctx.body("nervusdb_query::evaluator::evaluate_expression_value")
    vadt = ctx.adt(VAL)
    dmap = {v["name"]: v["discr"] for v in vadt["variants"]}
    discr_of = {"Bool": dmap["Bool"], "Null": dmap["Null"], "other": dmap["Int"]}
    bop = {v["name"]: v["discr"] for v in ctx.adt("nervusdb_query::ast::BinaryOperator")["variants"]}
    uop = {v["name"]: v["discr"] for v in ctx.adt("nervusdb_query::ast::UnaryOperator")["variants"]}

    def k_and(a, b):
        return "F" if "F" in (a, b) else ("T" if (a, b) == ("T", "T") else "N")

    def k_or(a, b):
        return "T" if "T" in (a, b) else ("F" if (a, b) == ("F", "F") else "N")

    def k_xor(a, b):
        return "N" if "N" in (a, b) else ("T" if a != b else "F")

    NAMES = {"T": "true", "F": "false", "N": "null"}
    n5 = 0
    for opname, fn in (("And", k_and), ("Or", k_or), ("Xor", k_xor)):
        start = truth.operator_arm(EV, "BinaryExpression", bop[opname])
        tl = truth.tuple_local(EV, start) if start is not None else None
        if start is None or tl is None:
            raise AnchorLost("match over (left, right) for BinaryOperator::%s not found in evaluate_expression_value" % opname)
        for a in "TFN":
            for b_ in "TFN":
                n5 += 1
                try:
                    got = truth.eval_match(EV, start, {(tl, 0): "l", (tl, 1): "r"}, {"l": a, "r": b_}, discr_of)
                except truth.Undecided as e:
                    got = ("undecided", str(e))
                want = fn(a, b_)
                ctx.instance("C23.5", "%s %s %s = %s" % (NAMES[a], opname.upper(), NAMES[b_], NAMES.get(got, got)))
                ctx.oblige(got == want, "C23.5", "%s:%s,%s" % (opname, NAMES[a], NAMES[b_]),
                           "%s %s %s evaluates to %s, Kleene logic requires %s" % (NAMES[a], opname.upper(), NAMES[b_], NAMES.get(got, got), NAMES[want]),
                           "%s (match arm at bb%d)" % (EV.file, start))
    start = truth.operator_arm(EV, "UnaryExpression", uop["Not"])
    sl = truth.scrutinee_local(EV, start) if start is not None else None
    if start is None or sl is None:
        raise AnchorLost("match for UnaryOperator::Not not found in evaluate_expression_value")
    for a, want in (("T", "F"), ("F", "T"), ("N", "N")):
        n5 += 1
        try:
            got = truth.eval_match(EV, start, {(sl, None): "v"}, {"v": a}, discr_of)
        except truth.Undecided as e:
            got = ("undecided", str(e))
        ctx.instance("C23.5", "NOT %s = %s" % (NAMES[a], NAMES.get(got, got)))
        ctx.oblige(got == want, "C23.5", "Not:%s" % NAMES[a], "NOT %s evaluates to %s, Kleene logic requires %s" % (NAMES[a], NAMES.get(got, got), NAMES[want]), EV.file)
    ctx.floor("C23.5", "truth-table rows decided", n5, 30)

    # ---- clause 6: null propagation --------------------------------------------------------------
    E = "nervusdb_query::evaluator::"
    DISPATCH = {
        "Equals": E + "evaluator_equality::cypher_equals", "NotEquals": E + "evaluator_equality::cypher_equals",
        "LessThan": E + "evaluator_compare::compare_values", "LessEqual": E + "evaluator_compare::compare_values",
        "GreaterThan": E + "evaluator_compare::compare_values", "GreaterEqual": E + "evaluator_compare::compare_values",
        "Add": E + "evaluator_arithmetic::add_values", "Subtract": E + "evaluator_arithmetic::subtract_values",
        "Multiply": E + "evaluator_arithmetic::multiply_values", "Divide": E + "evaluator_arithmetic::divide_values",
        "Modulo": E + "evaluator_numeric::numeric_mod", "Power": E + "evaluator_numeric::numeric_pow",
        "StartsWith": E + "evaluator_membership::string_predicate", "EndsWith": E + "evaluator_membership::string_predicate",
        "Contains": E + "evaluator_membership::string_predicate",
    }
    full_discr = dict(dmap)
    full_discr["other"] = dmap["Int"]
    n6 = 0
    propagating = {}

    def null_propagates(fid):
        if fid in propagating:
            return propagating[fid]
        fb = ctx.body(fid)
        tl = truth.tuple_local(fb, 0)
        bad = []
        if tl is None:
            bad.append("no match over (left, right) at the top of the function")
        else:
            for x in dmap:
                xa = "T" if x == "Bool" else ("N" if x == "Null" else x)
                for a, c_ in (("N", xa), (xa, "N")):
                    try:
                        got = truth.eval_match(fb, 0, {(tl, 0): "l", (tl, 1): "r"}, {"l": a, "r": c_}, full_discr)
                    except truth.Undecided as e:
                        got = ("undecided", str(e))
                    if got != "N":
                        bad.append("(%s, %s) -> %s" % (a, c_, got))
        propagating[fid] = bad
        return bad

    for opname, fid in sorted(DISPATCH.items()):
        start = truth.operator_arm(EV, "BinaryExpression", bop[opname])
        # first call on the straight-line path of the arm
        x, callee, dest, tgt = start, None, None, None
        for _ in range(8):
            if x is None:
                break
            t_ = EV.blocks[x]["t"]
            if t_[0] == "call":
                callee, dest, tgt = t_[1].get("r") or t_[1].get("d"), t_[3], t_[4]
                break
            x = t_[1] if t_[0] == "goto" else None
        n6 += 1
        ok_dispatch = callee == fid
        ctx.instance("C23.6", "operator %s -> %s" % (opname, (callee or "?").split("::")[-1]))
        ctx.oblige(ok_dispatch, "C23.6", "dispatch:%s" % opname,
                   "BinaryOperator::%s no longer dispatches to %s (calls %s): its null behaviour is not the verified one" % (opname, fid.split("::")[-1], callee), EV.file)
        if not ok_dispatch:
            continue
        bad = null_propagates(fid)
        ctx.instance("C23.6", "%s: null in either operand -> null for all %d operand variants: %s" % (fid.split("::")[-1], len(dmap), "yes" if not bad else bad[:4]))
        ctx.oblige(not bad, "C23.6", "null-propagation:%s" % fid.split("::")[-1],
                   "%s does not return null for a null operand: %s" % (fid.split("::")[-1], "; ".join(bad[:4])), ctx.body(fid).file)
        if opname == "NotEquals":
            # result of cypher_equals is negated by a match: null stays null, true <-> false
            for a, want in (("N", "N"), ("T", "F"), ("F", "T")):
                try:
                    got = truth.eval_match(EV, tgt, {(dest[0], None): "e"}, {"e": a}, discr_of)
                except truth.Undecided as e:
                    got = ("undecided", str(e))
                ctx.instance("C23.6", "<> over an equality result %s = %s" % (NAMES[a], NAMES.get(got, got)))
                ctx.oblige(got == want, "C23.6", "NotEquals:%s" % NAMES[a], "`<>` maps an equality result of %s to %s (expected %s)" % (NAMES[a], NAMES.get(got, got), NAMES[want]), EV.file)
        elif dest[0] != 0:
            ctx.oblige(False, "C23.6", "dispatch-result:%s" % opname, "the result of %s is post-processed before it is returned" % fid.split("::")[-1], EV.file)
    # numeric_binop / numeric_div are what the arithmetic functions fall through to for non-temporal operands
    for fid in (E + "evaluator_numeric::numeric_binop", E + "evaluator_numeric::numeric_div"):
        bad = null_propagates(fid)
        n6 += 1
        ctx.instance("C23.6", "%s: null in either operand -> null: %s" % (fid.split("::")[-1], "yes" if not bad else bad[:4]))
        ctx.oblige(not bad, "C23.6", "null-propagation:%s" % fid.split("::")[-1], "%s does not return null for a null operand: %s" % (fid.split("::")[-1], "; ".join(bad[:4])), ctx.body(fid).file)
    ctx.floor("C23.6", "operator arms + helper functions checked", n6, 17)

    # ---- clause 7: numeric comparison is exact --------------------------------------------------------
    # `<, <=, >, >=` must agree with `=` and with each other, and `=` must be an equivalence, also between integers and floats.  An i64
    # above 2^53 is not representable as f64, so any comparison that converts an integer operand to f64 first (`as f64`, value_as_f64)
    # merges neighbours: `9007199254740993 > 9007199254740992` is false while `>=` and `<=` are true, and
    # `9007199254740993 = 9007199254740992.0 = 9007199254740992` breaks transitivity.  Decided per comparison entry point and per
    # integer-involving pair of kinds: the decision path (followed into the comparison helpers) contains no int->float conversion.
    quantifier_rule(ctx)
    ctx.rule("C23.7", "range comparison, ordering and equality never convert an integer operand to f64 on the (Int, Int), (Int, Float) and (Float, Int) paths")
    FAMILY = ("nervusdb_query::evaluator::evaluator_compare::", "nervusdb_query::evaluator::evaluator_equality::")
    LOSSY_CALLS = ("nervusdb_query::evaluator::evaluator_numeric::value_as_f64",)

    def int_to_float_casts(fb, blocks):
        out = []
        for bi in blocks:
            for st in fb.blocks[bi]["s"]:
                if st[0] == "a" and st[2][0] == "cast" and st[2][1] == "IntToFloat" and st[2][3] in ("i64", "i32", "i128", "u64"):
                    out.append("%s:%d" % (fb.file, st[3]))
        return out

    def walk(fid, la, ra, depth=3):
        """-> (verdict, why): verdict in exact | lossy | undecided"""
        fb = F.bodies.get(fid)
        if fb is None or depth < 0:
            return "undecided", "no body for %s" % fid
        tl = truth.tuple_local(fb, 0)
        slots = {(1, None): "l", (2, None): "r"}
        if tl is not None:
            slots[(tl, 0)] = "l"
            slots[(tl, 1)] = "r"
        tr = []
        try:
            got = truth.eval_match(fb, 0, slots, {"l": la, "r": ra}, full_discr, stop_at_call=True, trace=tr)
        except truth.Undecided as e:
            got = ("inline", str(e))
        casts = int_to_float_casts(fb, tr)
        if casts:
            return "lossy", "`as f64` of an integer at %s" % casts[0]
        if isinstance(got, tuple) and got[0] == "call":
            callee = got[1]
            if callee in LOSSY_CALLS:
                return "lossy", "calls %s in %s" % (callee.split("::")[-1], fid.split("::")[-1])
            if callee.startswith(FAMILY):
                cb = F.bodies.get(callee)
                # a helper over Values is walked with the same kinds; a scalar helper (i64 / f64 parameters) is scanned as a whole
                if cb is not None and cb.argc >= 2 and "core_types::Value" in cb.local_ty(1):
                    return walk(callee, la, ra, depth - 1)
                if cb is not None:
                    c2 = int_to_float_casts(cb, range(len(cb.blocks)))
                    inner = [x.name for x in cb.calls() if x.name.startswith(FAMILY)]
                    for x in inner:
                        xb = F.bodies.get(x)
                        if xb is not None:
                            c2 += int_to_float_casts(xb, range(len(xb.blocks)))
                    if c2:
                        return "lossy", "`as f64` of an integer in %s (%s)" % (callee.split("::")[-1], c2[0])
                    return "exact", "scalar helper %s has no int->float conversion" % callee.split("::")[-1]
            if "core::cmp::" in callee and ("for i64" in callee or "i64 as" in callee):
                return "exact", "exact i64 comparison"
            return "exact", "first call %s, no conversion before it" % callee.split("::")[-1]
        return "exact", "decided inline without conversion"

    n7 = 0
    for fid in (E + "evaluator_compare::compare_values", E + "evaluator_compare::order_compare_non_null", E + "evaluator_equality::cypher_equals"):
        ctx.body(fid)
        for la, ra in (("Int", "Int"), ("Int", "Float"), ("Float", "Int")):
            n7 += 1
            verdict, why = walk(fid, la, ra)
            ctx.instance("C23.7", "%s (%s, %s): %s — %s" % (fid.split("::")[-1], la, ra, verdict, why))
            ctx.oblige(verdict == "exact", "C23.7", "%s:(%s,%s)" % (fid.split("::")[-1], la, ra),
                       "%s compares (%s, %s) through a float conversion (%s): integers above 2^53 that round to the same f64 compare as equal, so "
                       "`>` disagrees with `>=` / `=` and equality with a float is not transitive" % (fid.split("::")[-1], la, ra, why), F.bodies[fid].file)
    ctx.floor("C23.7", "entry point x kind pairs", n7, 9)

    # ---- clause 8: narrowing casts of query integers --------------------------------------------------
    # `v as i32` / `v as u32` wraps silently: an out-of-range temporal component (`month: 4294967297`) lands back in the valid range and
    # a date is produced for it.  That is integer overflow with a third rule (neither checked nor widen-to-float).  Every narrowing cast
    # of a signed 64/128-bit value in the evaluator must be bounded by construction (BITS: clamp / rem / division by constants /
    # widening from narrower types) or dominated by a range test of the same value.
    from .. import bits as BITS
    ctx.rule("C23.8", "every narrowing cast of an i64 / i128 value in the evaluator is bounded by construction or range-tested (no silent wrap-around of query integers)")
    WIDTHS = {"i64": 64, "i128": 128, "i32": 32, "u32": 32, "i16": 16, "u16": 16, "i8": 8, "u8": 8, "u64": 64, "usize": 64, "isize": 64}
    n8 = 0
    for i, b in sorted(F.bodies.items()):
        if not i.startswith("nervusdb_query::evaluator::") or "::tests::" in i:
            continue
        k = 0
        for bi, blk in enumerate(b.blocks):
            if blk["c"]:
                continue
            for st in blk["s"]:
                if st[0] != "a":
                    continue
                rv = st[2]
                if not (rv[0] == "cast" and rv[1] == "IntToInt" and rv[3] in ("i64", "i128") and rv[4] in WIDTHS and WIDTHS[rv[4]] < WIDTHS[rv[3]]):
                    continue
                n8 += 1
                nb = BITS.bits(b, rv[2], rv[3])
                fits = nb <= BITS.width(rv[4])
                l = op_local(rv[2])
                guarded = narrowing_cast_guarded(b, bi, l) if l is not None else False
                ctx.instance("C23.8", "%s: %s -> %s at %s:%d — value fits %d signed bits, range-tested=%s" % (i, rv[3], rv[4], b.file, st[3], nb, guarded))
                ctx.oblige(fits or guarded, "C23.8", "%s:cast(%s->%s)#%d" % (b.root or i, rv[3], rv[4], k),
                           "a query-supplied %s is narrowed to %s with `as` and no range test: out-of-range values wrap silently into the valid range"
                           % (rv[3], rv[4]), "%s:%d" % (b.file, st[3]))
                k += 1
    ctx.floor("C23.8", "narrowing casts of i64 / i128 in the evaluator", n8, 8)


# ---------------------------------------------------------------------------------------------- C23.9
QUANT_FN = "nervusdb_query::evaluator::evaluator_comprehension::evaluate_quantifier"
# result after the loop, per (matches seen so far, a predicate result was null); a decisive element returns inside the loop
QUANT_TABLES = {
    "__quant_any": {(None, False): "F", (None, True): "N"},
    "__quant_all": {(None, False): "T", (None, True): "N"},
    "__quant_none": {(None, False): "T", (None, True): "N"},
    "__quant_single": {(0, False): "F", (1, False): "T", (0, True): "N", (1, True): "N"},
}


class _Undecided(Exception):
    pass


def _run_blocks(b, start, env, limit=200):
    """concrete evaluation of straight-line integer / bool code from `start` until the return place receives a Value aggregate"""
    from ..facts import op_local, op_const
    env = dict(env)

    def val(op):
        k = op_const(op)
        if k is not None:
            return k.get("v")
        if op[0] in ("c", "m") and not op[1][1]:
            if op[1][0] in env:
                return env[op[1][0]]
        raise _Undecided("value of %r is not known" % (op,))

    cur = start
    for _ in range(limit):
        for st in b.blocks[cur]["s"]:
            if st[0] != "a":
                continue
            dst, rv = st[1], st[2]
            if rv[0] == "agg" and rv[1] == "adt" and rv[2].endswith("core_types::Value") and not dst[1]:
                res = None
                if rv[3] == "Null":
                    res = "N"
                elif rv[3] == "Bool":
                    v = val(rv[4][0])
                    res = "T" if v else "F"
                else:
                    res = rv[3]
                if dst[0] == 0:
                    return res
                env[dst[0]] = ("value", res)
                continue
            if dst[1]:
                continue
            try:
                if rv[0] == "use":
                    v = val(rv[1])
                    if dst[0] == 0 and isinstance(v, tuple) and v[0] == "value":
                        return v[1]
                    env[dst[0]] = v
                elif rv[0] == "bin" and rv[1] in ("Lt", "Le", "Gt", "Ge", "Eq", "Ne", "BitAnd", "BitOr"):
                    x, y = val(rv[2]), val(rv[3])
                    env[dst[0]] = {"Lt": x < y, "Le": x <= y, "Gt": x > y, "Ge": x >= y, "Eq": x == y, "Ne": x != y,
                                   "BitAnd": bool(x) and bool(y), "BitOr": bool(x) or bool(y)}[rv[1]]
                    env[dst[0]] = 1 if env[dst[0]] is True else (0 if env[dst[0]] is False else env[dst[0]])
                elif rv[0] == "un" and rv[1] == "Not":
                    env[dst[0]] = 0 if val(rv[2]) else 1
                else:
                    env.pop(dst[0], None)
            except _Undecided:
                env.pop(dst[0], None)
        t = b.term(cur)
        if t[0] == "goto":
            cur = t[1]
        elif t[0] == "drop":
            cur = t[2]
        elif t[0] == "switch":
            v = val(t[1])
            v = int(v) if not isinstance(v, tuple) else v
            nxt = t[3]
            for k, tb in t[2]:
                if k == v:
                    nxt = tb
            cur = nxt
        elif t[0] == "assert":
            cur = t[5]
        else:
            raise _Undecided("cannot step over %s at bb%d" % (t[0], cur))
    raise _Undecided("no result within %d blocks" % limit)


def quantifier_rule(ctx, rid="C23.9"):
    from ..facts import op_local, op_const
    from ..mirutil import switch_on
    ctx.rule(rid, "list quantifiers (any / all / none / single): after the fold a definite true / false is returned only when no predicate result was null "
             "(a null element may be the deciding one); decided by evaluating the post-loop code for every (matches, saw-null) state")
    b = ctx.body(QUANT_FN)
    arms = {}
    for c in b.calls():
        if c.declared == "core::cmp::PartialEq::eq" and (c.callee.get("self") or "") == "str" and len(c.args) == 2:
            k = op_const(c.args[1]) or op_const(c.args[0])
            name = (k or {}).get("d", "").strip('"')
            if name in QUANT_TABLES and c.target is not None:
                sw = switch_on(b, c.target)
                if sw and len(sw[2]) == 1:
                    arms[name] = sw[3] if not sw[1] else sw[2][0][1]
    ctx.floor(rid, "quantifier arms found", len(arms), 4)
    for name, entry in sorted(arms.items()):
        region = [x for x in range(len(b.blocks)) if b.dominates(entry, x) and not b.is_cleanup(x)]
        nexts = [c for c in b.calls() if c.bb in region and c.declared == "core::iter::traits::iterator::Iterator::next"]
        if len(nexts) != 1:
            ctx.finding(rid, "%s:%s:loop" % (rid, name), "cannot find the fold loop of %s" % name, b.file)
            continue
        h = nexts[0].bb
        loop = {x for x in b.reachable([h]) if h in b.reachable([x])} | {h}
        # exit: the `None` arm of the switch on next()'s result
        t = b.term(nexts[0].target)
        if t[0] != "switch":
            ctx.finding(rid, "%s:%s:exit" % (rid, name), "cannot find the loop exit of %s" % name, b.file)
            continue
        exit_bb = dict((k, tb) for k, tb in t[2]).get(0, t[3])
        saw, cnt = set(), set()
        for x in loop:
            for st in b.blocks[x]["s"]:
                if st[0] != "a" or st[1][1] or st[1][0] == 0:
                    continue
                rv = st[2]
                if rv[0] == "use" and op_const(rv[1]) is not None and b.local_ty(st[1][0]) == "bool" and op_const(rv[1]).get("v") == 1 and b.local_name(st[1][0]):
                    saw.add(st[1][0])
                if rv[0] == "use" and rv[1][0] in ("c", "m") and rv[1][1][1] and b.local_ty(st[1][0]) == "usize":
                    sd = b.single_def(rv[1][1][0])
                    if sd and sd[2] == "assign" and sd[3][2][0] == "bin" and sd[3][2][1] == "AddWithOverflow" and op_local(sd[3][2][2]) == st[1][0]:
                        cnt.add(st[1][0])
        table = QUANT_TABLES[name]
        needs_count = any(k[0] is not None for k in table)
        if len(saw) != 1 or (needs_count and len(cnt) != 1):
            ctx.finding(rid, "%s:%s:roles" % (rid, name), "%s: expected one flag set for a null predicate result%s inside the loop, found %d / %d — a null element "
                        "does not seem to be remembered" % (name, " and one match counter" if needs_count else "", len(saw), len(cnt)), b.file)
            continue
        sv = list(saw)[0]
        cv = list(cnt)[0] if cnt else None
        for (m, n), want in sorted(table.items(), key=repr):
            env = {sv: 1 if n else 0}
            if cv is not None and m is not None:
                env[cv] = m
            try:
                got = _run_blocks(b, exit_bb, env)
            except _Undecided as e:
                got = "undecided (%s)" % e
            desc = "%s after the loop with %s%s" % (name.replace("__quant_", ""), "" if m is None else "%d match(es), " % m, "a null predicate result" if n else "no null predicate result")
            ctx.instance(rid, "%s -> %s" % (desc, got))
            ctx.oblige(got == want, rid, "%s:%s:%s:%s" % (rid, name, "-" if m is None else m, "null" if n else "nonull"),
                       "%s returns %s, three-valued logic requires %s (a null predicate result may be the deciding element)" %
                       (desc, {"T": "true", "F": "false", "N": "null"}.get(got, got), {"T": "true", "F": "false", "N": "null"}[want]), b.file)
