"""C23 — Expression evaluation obeys Cypher laws: the `one overflow rule everywhere` clause (ops + casts)."""
from ..facts import op_local
from ..mirutil import narrowing_cast_guarded

EXPLANATION = (
    "Decides only the integer-overflow uniformity clause: in the numeric core of the evaluator (evaluator_numeric, evaluator_arithmetic, "
    "evaluator_scalars, the unary / range code of evaluator.rs and evaluator_collections) no raw overflow-capable i64 operation (`+ - * unary-` ) "
    "produces a value — integer results come from checked_* calls or from i128 widening whose narrowing cast back to i64 is dominated by a range "
    "test of the same value (comparison or RangeInclusive::contains). Index normalisation (`len + index`) and calendar-field arithmetic are named "
    "exceptions. Three-valued logic, equality and int/float comparison are value-level laws and are not decided."
)

CORE_PREFIX = ("nervusdb_query::evaluator::evaluator_numeric::", "nervusdb_query::evaluator::evaluator_arithmetic::",
               "nervusdb_query::evaluator::evaluator_scalars::", "nervusdb_query::evaluator::evaluator_collections::",
               "nervusdb_query::evaluator::evaluator_membership::", "nervusdb_query::evaluator::evaluator_compare::",
               "nervusdb_query::evaluator::evaluator_equality::")
CORE_TOP = "nervusdb_query::evaluator::"
RAW = {"Add", "Sub", "Mul", "AddWithOverflow", "SubWithOverflow", "MulWithOverflow"}
# functions whose i64 arithmetic is not Cypher integer arithmetic (reason each)
EXCEPT_FN = {
    "nervusdb_query::evaluator::evaluator_collections::evaluate_index": "negative-index normalisation `len + index`; result only indexes a list",
    "nervusdb_query::evaluator::evaluator_collections::evaluate_slice": "negative-bound normalisation `len + bound`; result only slices a list",
    "nervusdb_query::evaluator::evaluate_date_accessor": "calendar-field arithmetic on chrono components (bounded by the calendar)",
    "nervusdb_query::evaluator::evaluate_time_accessor": "time-of-day component arithmetic (bounded)",
}


def in_core(i):
    if i.startswith(CORE_PREFIX):
        return True
    # top-level evaluator.rs functions (not submodules)
    if i.startswith(CORE_TOP):
        rest = i[len(CORE_TOP):]
        return not rest.split("::")[0].startswith("evaluator_")
    return False


def run(ctx):
    F = ctx.facts
    ctx.rule("C23.1", "no raw overflow-capable i64 arithmetic in the evaluator's numeric core")
    ctx.rule("C23.2", "narrowing i128->i64 casts in the numeric core are range-checked")
    ctx.rule("C23.3", "checked integer operations present (floor on the repository's checked_* idiom)")
    bodies = [b for i, b in sorted(F.bodies.items()) if in_core(i) and "::tests::" not in i]
    ctx.floor("C23.1", "numeric-core bodies", len(bodies), 80)
    n_checked = 0
    n_raw = 0
    n_cast = 0
    for b in bodies:
        root = b.root or b.id
        ctx.analysed_fns.add(b.id)
        for c in b.calls():
            short = c.name.split("::")[-1]
            if short.startswith("checked_") and ("i64" in c.name or "num::<impl i64>" in c.name):
                n_checked += 1
            if short.startswith(("wrapping_", "overflowing_", "unchecked_")) and "num::<impl i64>" in c.name and root not in EXCEPT_FN:
                ctx.instance("C23.1", "%s: %s on i64" % (b.id, short))
                ctx.oblige(False, "C23.1", "%s:%s#%d" % (b.id, short, c.ordinal),
                           "`%s` in the evaluator's numeric core: integer overflow wraps silently instead of following the checked / widen-to-float rule" % short, c.loc())
        k = 0
        for bi, blk in enumerate(b.blocks):
            if blk["c"]:
                continue
            for st in blk["s"]:
                if st[0] != "a":
                    continue
                rv = st[2]
                is_raw = (rv[0] == "bin" and rv[1] in RAW and rv[4] == "i64") or (rv[0] == "un" and rv[1] == "Neg" and rv[3] == "i64")
                if is_raw and st[4] != "m":
                    n_raw += 1
                    if root in EXCEPT_FN:
                        ctx.instance("C23.1", "exception %s (%s): %s" % (root.split("::")[-1], rv[1], EXCEPT_FN[root]))
                        continue
                    ctx.instance("C23.1", "%s: raw %s on i64" % (b.id, rv[1]))
                    ctx.oblige(False, "C23.1", "%s:raw-%s#%d" % (b.id, rv[1].replace("WithOverflow", ""), k),
                               "raw i64 `%s` in the evaluator's numeric core: overflow panics in debug builds and wraps in release instead of "
                               "following the checked / widen-to-float rule used everywhere else" % rv[1], "%s:%d" % (b.file, st[3]))
                    k += 1
                if rv[0] == "cast" and rv[1] == "IntToInt" and rv[3] == "i128" and rv[4] == "i64":
                    n_cast += 1
                    ok = narrowing_cast_guarded(b, bi, op_local(rv[2]))
                    ctx.instance("C23.2", "%s: i128->i64 cast range-checked=%s" % (b.id, ok))
                    ctx.oblige(ok, "C23.2", "%s:cast(i128->i64)" % b.id,
                               "an i128 intermediate is narrowed to i64 without a dominating range test: the result wraps silently", "%s:%d" % (b.file, st[3]))
    ctx.instance("C23.3", "checked_* i64 calls in the numeric core: %d; raw ops seen: %d; narrowing casts: %d" % (n_checked, n_raw, n_cast))
    ctx.floor("C23.3", "checked_* i64 calls", n_checked, 4)
    ctx.floor("C23.2", "widen-then-narrow sites", n_cast, 1)
    ctx.oblige(True, "C23.3", "floor", "")
