"""C03 — Snapshots are consistent and stable (structural necessary conditions)."""
from .. import locks
from .. import model as M
from .. import prov
from ..mirutil import recv_field, site_key
from ..facts import op_local

EXPLANATION = (
    "Decides: (1) atomic publication — a writer that updates two or more of the sources a snapshot is assembled from must hold, "
    "across all those updates, a lock that the snapshot constructor also holds across all its reads (lock-set intersection from the LOCKS engine); "
    "(2) captured state is immutable — (b) B-tree mutators reachable from reader-visible roots write only freshly allocated pages "
    "(provenance of every Pager::write_page target), (c) snapshot read methods acquire no lock of live mutable engine state; "
    "(3) snapshot types expose no `&mut self` method and no public field. It does not decide actual interleavings."
    " C03.2d: no online engine operation reaches Pager::free_page. C03.4: order protocol for the roots captured by value — snapshot constructors read published_runs before loading properties_root / stats_root, compaction stores those roots before replacing published_runs."
)

SNAP_TYPES = ("nervusdb_storage::snapshot::Snapshot", "nervusdb_storage::api::StorageSnapshot",
              "nervusdb_storage::snapshot::L0Run", "nervusdb::DbSnapshot")
BTREE = "nervusdb_storage::index::btree::BTree"
BTREE_MUTATORS = [BTREE + "::insert", BTREE + "::delete", BTREE + "::insert_into_parent"]
SOURCES = set(M.PUBLISHED_FIELDS) | {"properties_root", "stats_root", "idmap"}
LIVE_LOCKS = ("Mutex<IndexCatalog>", "Mutex<IdMap>", "Mutex<LabelInterner>", "Mutex<Wal>")


def _update_sites(F, b):
    """(call, source field) for every site of b that updates a snapshot source, helpers resolved"""
    out = []
    for c, what in M.publication_sites(b):
        n = c.name
        if n == M.PUBLISH_RUN:
            out.append((c, "published_runs"))
        elif n == M.UPDATE_NODE_LABELS:
            out.append((c, "published_node_labels"))
        elif n in M.IDMAP_APPLY:
            out.append((c, "idmap"))
        else:
            f = recv_field(b, c, 0)
            if f and f[0] in SOURCES:
                out.append((c, f[0]))
    return out

WITNESSES = ["SnapshotFieldsArePrivate", "RunFieldsArePrivate"]


def run(ctx):
    F = ctx.facts
    ctx.rule("C03.1", "multi-source publication happens under a lock the snapshot constructor holds across its reads")
    ctx.rule("C03.2b", "B-tree mutators write only freshly allocated pages (no in-place rewrite of pages a snapshot may read)")
    ctx.rule("C03.2c", "snapshot read methods acquire no lock of live mutable engine state")
    ctx.rule("C03.3", "snapshot types have no `&mut self` method and no public field")
    ctx.rule("C03.2d", "no engine operation frees a page: snapshots read roots lazily through the shared pager, so a freed page is observable")

    # ---- clause 1 ---------------------------------------------------------
    rb = ctx.body(F.impl_method("nervusdb_api::GraphStore", M.ENGINE, "snapshot") or "impl GraphStore for GraphEngine::snapshot")
    br = ctx.body(M.BEGIN_READ)
    reader_locksets = []
    read_sources = set()
    for b in (rb, br):
        bl = locks.BodyLocks(b)
        for c in b.calls():
            f = recv_field(b, c, 0)
            srcs = []
            if f and f[0] in SOURCES and f[1] == M.ENGINE:
                srcs.append(f[0])
            elif c.name == M.ENGINE + "::scan_i2e_records":
                srcs.append("idmap")
            if True:
                # atomics passed by reference to a helper
                for a in c.args[1:]:
                    l = op_local(a)
                    if l is not None:
                        o = b.origin(l)
                        if o and o[0] == "place":
                            for p in o[1][1]:
                                if isinstance(p, list) and p[0] == "f" and p[2] in SOURCES and p[3] == M.ENGINE:
                                    srcs.append(p[2])
            for src in srcs:
                read_sources.add(src)
                held = {a.cls for a in bl.acqs if bl.must_hold(a, c.bb) and a.call.bb != c.bb}
                reader_locksets.append((src, c.loc(), held))
                ctx.instance("C03.1", "reader %s reads %s holding %s" % (b.id.split("::")[-1], src, sorted(held) or "nothing"))
    ctx.floor("C03.1", "snapshot source reads", len(reader_locksets), 6)
    common_reader = None
    for _, _, held in reader_locksets:
        common_reader = held if common_reader is None else (common_reader & held)
    common_reader = common_reader or set()
    for fn in (M.COMMIT, M.COMPACT, M.GET_OR_CREATE_LABEL):
        b = ctx.body(fn)
        bl = locks.BodyLocks(b)
        ups = [(c, f) for c, f in _update_sites(F, b) if f in read_sources]
        fields = sorted({f for _, f in ups})
        ctx.instance("C03.1", "writer %s updates %s" % (fn.split("::")[-1], fields))
        if len(fields) < 2:
            ctx.oblige(True, "C03.1", fn + ":single-source", "")
            continue
        common_w = None
        for a in bl.acqs:
            if all(bl.must_hold(a, c.bb) for c, _ in ups):
                common_w = (common_w or set()) | {a.cls}
        if b.self_ty and "WriteTxn" in b.self_ty:
            common_w = (common_w or set()) | {"Mutex<()>"}  # WriteTxn owns the write_lock guard
        shared = (common_w or set()) & common_reader
        for f in fields:
            ctx.oblige(bool(shared), "C03.1", "%s:publishes(%s)" % (fn, f),
                       "snapshot source `%s` is republished together with %s, but the snapshot constructor reads its sources "
                       "without a lock the writer holds: a snapshot can combine states of two different transactions" % (f, [x for x in fields if x != f]),
                       b.file, sample={"writer": fn, "fields": fields, "writer_locks": sorted(common_w or []), "reader_locks": sorted(common_reader)})

    # ---- clause 2b --------------------------------------------------------
    n_sites = 0
    for fn in BTREE_MUTATORS:
        b = ctx.body(fn)

        def call_tag(c):
            if c.name == M.ALLOCATE_PAGE:
                return {"fresh"}
            return None

        def passthrough(c):
            return c.name != M.ALLOCATE_PAGE

        def field_tag(field, adt):
            if adt == BTREE and field == "root":
                return {"stored"}
            return None

        t = prov.Taint(b, call_tag=call_tag, field_tag=field_tag, call_passthrough=passthrough)
        for c in b.calls_named(M.WRITE_PAGE):
            n_sites += 1
            tags = t.of_operand(c.args[1])
            name = b.local_name(op_local(c.args[1])) if op_local(c.args[1]) is not None else None
            ctx.instance("C03.2b", "%s: write_page#%d target tags %s" % (fn.split("::")[-1], c.ordinal, sorted(tags)))
            fresh_only = tags == {"fresh"}
            ctx.oblige(fresh_only, "C03.2b", "%s:write_page#%d" % (fn, c.ordinal),
                       "an existing B-tree page is rewritten in place while snapshots keep the shared pager and an old root: "
                       "a live snapshot's property/index reads change under it", c.loc(),
                       sample={"fn": fn, "site": c.loc(), "target_tags": sorted(tags)})
    ctx.floor("C03.2b", "write_page sites in B-tree mutators", n_sites, 8)

    # ---- clause 2c --------------------------------------------------------
    G = locks.LockGraph(F)
    n_m = 0
    for i, b in sorted(F.bodies.items()):
        if b.kind == "closure" or not b.self_ty or b.self_ty not in SNAP_TYPES:
            continue
        n_m += 1
        acq = G.acq_star(i)
        bad = sorted({cls for cls, _ in acq if cls in LIVE_LOCKS})
        ctx.instance("C03.2c", "%s acquires %s" % (i, sorted({c for c, _ in acq}) or "no locks"))
        for cls in bad:
            ctx.oblige(False, "C03.2c", "%s:acquires(%s)" % (i, cls),
                       "a snapshot read goes to live engine state behind %s instead of state captured when the snapshot was taken" % cls, b.file,
                       sample={"method": i, "lock": cls})
        if not bad:
            ctx.oblige(True, "C03.2c", i, "")
    ctx.floor("C03.2c", "snapshot methods", n_m, 60)

    # ---- clause 3 ---------------------------------------------------------
    for ty in SNAP_TYPES:
        adt = ctx.adt(ty)
        for v in adt["variants"]:
            for fname, fty, vis in v["fields"]:
                ctx.instance("C03.3", "%s.%s vis=%s" % (ty, fname, vis))
                ctx.oblige(not vis.startswith("Public"), "C03.3", "%s.%s:public-field" % (ty, fname),
                           "public field on a snapshot type lets other crates mutate captured state", "")
    for i, b in sorted(F.bodies.items()):
        if b.kind == "closure" or not b.self_ty or b.self_ty not in SNAP_TYPES or b.argc == 0:
            continue
        a0 = b.local_ty(1)
        is_mut_self = a0.startswith("&") and a0[1:].lstrip().startswith("mut ") and b.self_ty in a0
        ctx.instance("C03.3", "%s self=%s" % (i, a0[:40]))
        ctx.oblige(not is_mut_self, "C03.3", i + ":mut-self",
                   "`&mut self` method on a snapshot type", b.file)

    # ---- clause 2d --------------------------------------------------------
    ONLINE = [M.COMMIT, M.COMPACT, M.CHECKPOINT_ON_CLOSE, M.GET_OR_CREATE_LABEL, M.ENGINE + "::create_index", M.ENGINE + "::insert_vector",
              M.ENGINE + "::search_vector", M.BEGIN_READ, M.BEGIN_WRITE]
    for fn in ONLINE:
        ctx.body(fn)
        path = F.reaches(fn, {M.FREE_PAGE})
        ctx.instance("C03.2d", "%s reaches Pager::free_page: %s" % (fn.split("::")[-1], [x.split("::")[-1] for x in path] if path else "no"))
        ctx.oblige(not path, "C03.2d", "%s=>free_page" % fn,
                   "this operation frees pages while snapshots that captured the old root can still read them lazily through the shared pager "
                   "(they see `page not allocated`, zeroed counts, or another structure's data once the page is reused): %s"
                   % (" -> ".join(x.split("::")[-1] for x in path) if path else ""), F.bodies[fn].file)

    # ---- clause 4: publication order of the by-value roots ---------------------------------------------
    # The snapshot constructor takes no common lock (C03.1, a known finding); what keeps the property-store root consistent with the
    # run list is an order protocol: the reader reads `published_runs` first and loads `properties_root` / `stats_root` afterwards, the
    # compactor stores the new roots first and clears the runs afterwards.  A reader that sees the cleared run list therefore sees the
    # root of the tree the runs were sunk into.  Either half reversed gives a snapshot with neither the runs nor the tree: committed
    # properties vanish for that snapshot's whole lifetime.
    ctx.rule("C03.4", "order protocol for the roots captured by value: snapshot constructors read published_runs before they load properties_root / stats_root; compaction stores those roots before it replaces published_runs")
    ROOTS = ("properties_root", "stats_root")

    def uses_root(b, c):
        """does this call load a root atomic (directly, or by taking a reference to the root field as an argument)"""
        hit = set()
        for ai in range(len(c.args)):
            f = recv_field(b, c, ai)
            if f and f[0] in ROOTS and f[1] == M.ENGINE:
                hit.add(f[0])
        return hit

    for rd in (br, rb):
        runs_reads = [c for c in rd.calls() if M.is_rw_read(c.name) and (recv_field(rd, c, 0) or ("",))[0] == "published_runs"]
        loads = [(c, uses_root(rd, c)) for c in rd.calls() if not M.is_atomic_store(c.name)]
        loads = [(c, h) for c, h in loads if h]
        if not loads:
            # the constructor delegates (GraphStore::snapshot -> begin_read): then begin_read's order is the order
            delegates = [c for c in rd.calls() if c.name == M.BEGIN_READ]
            ctx.instance("C03.4", "%s: delegates to begin_read=%s" % (rd.id.split("::")[-1], bool(delegates)))
            ctx.oblige(bool(delegates), "C03.4", "%s:roots-not-captured" % rd.id, "the snapshot constructor neither loads the roots nor delegates to begin_read", rd.file)
            continue
        for c, h in loads:
            ok = any(rd.dominates(r.bb, c.bb) and r.bb != c.bb for r in runs_reads)
            ctx.instance("C03.4", "%s: load of %s after the read of published_runs=%s" % (rd.id.split("::")[-1], sorted(h), ok))
            ctx.oblige(ok, "C03.4", "%s:loads(%s)-before-runs" % (rd.id, "+".join(sorted(h))),
                       "the snapshot constructor loads the store root before it reads the run list: a compaction in between gives a snapshot with the "
                       "old root and the cleared runs", c.loc())
    cb = ctx.body(M.COMPACT)
    sites = M.publication_sites(cb)
    runs_w = [c for c, w in sites if w == "write(published_runs)"]
    ctx.floor("C03.4", "compact: replacement of published_runs", len(runs_w), 1)
    for r in ROOTS:
        stores = [c for c, w in sites if w == "store(%s)" % r]
        ctx.floor("C03.4", "compact: stores of %s" % r, len(stores), 1)
        for k, s in enumerate(stores):
            ok = all(cb.dominates(s.bb, w.bb) and s.bb != w.bb for w in runs_w)
            ctx.instance("C03.4", "compact: store(%s)#%d before the runs are replaced=%s" % (r, k, ok))
            ctx.oblige(ok, "C03.4", "compact:store(%s)#%d-after-runs-cleared" % (r, k),
                       "compaction clears the run list before it publishes the new %s: a snapshot taken in between has neither the runs nor the tree "
                       "they were sunk into (committed properties / statistics missing for its whole lifetime)" % r, s.loc())

    # ---- clause 5: commit publishes the run last ------------------------------------------------------------------------
    # Same protocol on the commit side: begin_read samples published_runs first and the node table (published_node_labels / id map) last,
    # so commit must make the node table visible first and the run last — a reader that sees the run then also sees the nodes its edges and
    # properties refer to.  Publishing the run earlier shows a transaction partially (edges without their nodes), for good if a later
    # node-table step of that commit fails.
    ctx.rule("C03.5", "in WriteTxn::commit publish_run is the last publication: no node-table application or label publication is reachable after it")
    cm = ctx.body(M.COMMIT)
    psites = M.publication_sites(cm)
    runs_p = [c for c, w in psites if w == "publish_run"]
    ctx.floor("C03.5", "publish_run sites in commit", len(runs_p), 1)
    for k, pr in enumerate(runs_p):
        later = [(c, w) for c, w in psites if c is not pr and pr.target is not None and c.bb in cm.reachable([pr.target])]
        ctx.instance("C03.5", "commit: publish_run#%d followed by %s" % (k, [w for _, w in later] or "nothing"))
        ctx.oblige(not later, "C03.5", "commit:publish_run#%d-not-last" % k,
                   "the run is handed to readers before %s: a snapshot taken in between shows the transaction's edges and properties without its nodes "
                   "(and keeps showing them if that later step fails)" % sorted({w for _, w in later}), pr.loc())
