"""C34 — C API results match the Rust API: agreement of the write classifier with the planner (TABLES)."""
from .. import tables
from ..facts import op_const

EXPLANATION = (
    "Decides the `accept and refuse the same statements` clause structurally: the C API's write classifier (clause_contains_write) must answer "
    "true for every ast::Clause variant whose arm in the planner (compile_core::compile_m3_plan) reaches the construction of a write plan "
    "(the Plan variants for which plan_introspection::plan_contains_write returns true), and must recurse (call query_contains_write) in every arm "
    "where the planner recurses into a nested query; its wildcard arm may cover only read-only variants. Row / value / error-category parity between "
    "the two APIs is runtime behaviour and is not decided."
    " C34.4: json_to_query_value (parameters) keeps every array element and every object entry."
    " C34.3: every C-API function that rewinds a statement handle's cursor also assigns `executed` on that path (false = re-arm, true = just executed), so a reset or rebound statement is evaluated again on the current graph."
    " C34.2: in the C API's read path every value pushed into an outgoing row is dominated by the Ok arm of Value::reify / Row::reify."
)

CL = "nervusdb_query::ast::Clause"
PLAN = "nervusdb_query::executor::plan_types::Plan"
CLASSIFIER = "nervusdb_capi::clause_contains_write"
QUERY_CLASSIFIER = "nervusdb_capi::query_contains_write"
PLANNER = "nervusdb_query::query_api::compile_core::compile_m3_plan"
PCW = "nervusdb_query::query_api::plan_introspection::plan_contains_write"


def write_plan_variants(F, ctx):
    b = ctx.body(PCW)
    adt = ctx.adt(PLAN)
    names = [v["name"] for v in adt["variants"]]
    sw = tables.enum_switch(b, PLAN, F)
    out = set()
    for vi, tb in sw[1].items():
        region = tables.dominated_region(b, tb, sw[0])
        consts = set()
        calls = False
        for x in region:
            for st in b.blocks[x]["s"]:
                if st[0] == "a" and st[1][0] == 0 and st[2][0] == "use" and st[2][1][0] == "k":
                    consts.add(st[2][1][1].get("v"))
            if b.blocks[x]["t"][0] == "call":
                calls = True
        if consts == {1} and not calls:
            out.add(names[vi])
    return out, names


def constructs(F, fn_ids, write_variants, memo):
    """does any of fn_ids (transitively, within nervusdb_query::query_api) build a write Plan variant?"""
    seen = set()
    work = list(fn_ids)
    while work:
        x = work.pop()
        if x in seen:
            continue
        seen.add(x)
        b = F.bodies.get(x)
        if b is None:
            continue
        if x not in memo:
            built = set()
            for blk in b.blocks:
                for st in blk["s"]:
                    if st[0] == "a" and st[2][0] == "agg" and st[2][2] == PLAN and st[2][3] in write_variants:
                        built.add(st[2][3])
            memo[x] = built
        if memo[x]:
            return sorted(memo[x])
        for y in F.callees(x):
            if y.startswith(("nervusdb_query::query_api", "<nervusdb_query::query_api")) and y not in seen:
                work.append(y)
    return []


def run(ctx):
    F = ctx.facts
    ctx.rule("C34.1", "clause_contains_write is true (or recurses) for every Clause variant the planner turns into a write plan")
    wv, _ = write_plan_variants(F, ctx)
    ctx.floor("C34.1", "write Plan variants", len(wv), 6)
    adt = ctx.adt(CL)
    cnames = [v["name"] for v in adt["variants"]]
    pb = ctx.body(PLANNER)
    psw = tables.enum_switch(pb, CL, F)
    cb = ctx.body(CLASSIFIER)
    csw = tables.enum_switch(cb, CL, F)
    ctx.floor("C34.1", "planner arms over Clause", len(psw[1]) if psw else 0, 13)
    memo = {}
    for vi, name in enumerate(cnames):
        ptb = psw[1].get(vi, psw[2])
        pregion = tables.dominated_region(pb, ptb, psw[0])
        direct = set()
        callees = set()
        recurses = False
        for x in pregion:
            for st in pb.blocks[x]["s"]:
                if st[0] == "a" and st[2][0] == "agg" and st[2][2] == PLAN and st[2][3] in wv:
                    direct.add(st[2][3])
            c = pb.call_at(x)
            if c is not None:
                for t in F.call_targets(c):
                    if t == PLANNER or t.endswith("compile_m3_plan") or "compile_subquery" in t or "compile_union" in t:
                        recurses = True
                    callees.add(t)
        built = sorted(direct) or constructs(F, [c for c in callees if c.startswith("nervusdb_query::query_api") and c != PLANNER], wv, memo)
        # classifier arm
        ctb = csw[1].get(vi, csw[2])
        cregion = tables.dominated_region(cb, ctb, csw[0])
        ctrue = False
        crec = False
        for x in cregion:
            for st in cb.blocks[x]["s"]:
                if st[0] == "a" and st[1][0] == 0 and st[2][0] == "use" and st[2][1][0] == "k" and st[2][1][1].get("v") == 1:
                    ctrue = True
            c = cb.call_at(x)
            if c is not None and c.name == QUERY_CLASSIFIER:
                crec = True
        ctx.instance("C34.1", "Clause::%s planner builds %s recurses=%s | classifier true=%s recurses=%s" % (name, built or "-", recurses, ctrue, crec))
        if built:
            ctx.oblige(ctrue or crec, "C34.1", "Clause::%s:write-not-classified" % name,
                       "the planner compiles Clause::%s into write plan(s) %s but the C API's write classifier answers false for it: ndb_query runs "
                       "(or ndb_execute_write refuses) a statement the Rust API treats the other way" % (name, built), cb.file,
                       sample={"clause": name, "planner_builds": built})
        elif recurses:
            ctx.oblige(crec or not recurses, "C34.1", "Clause::%s:nested-query-not-inspected" % name,
                       "the planner recurses into the nested query of Clause::%s but the write classifier does not" % name, cb.file)
        else:
            ctx.oblige(True, "C34.1", "Clause::%s" % name, "")

    # ---- clause 2: every value the C API hands out was reified -------------------------------------------------------
    # Rows leave the executor with raw graph references (NodeId, EdgeKey, paths), possibly nested in lists and maps.  The Rust API users
    # call Row::reify / Value::reify, which walks every nesting level.  The C API must do the same for every column value on every path:
    # a "skip scalars" shortcut that forgets one container kind returns `{"type":"node_id"}` where the Rust API returns the full node.
    from .. import paths
    from ..facts import op_local
    ctx.rule("C34.2", "in the C API's read path every (key, value) pushed into an outgoing row is dominated by the Ok arm of Value::reify / Row::reify (no per-kind shortcut)")
    rb = ctx.body("nervusdb_capi::execute_read_rows")
    reifies = [c for c in rb.calls() if c.name.endswith("core_types::Value::reify") or c.name.endswith("core_types::Row::reify")]
    oks = [o for o in (paths.ok_arm(rb, c) for c in reifies) if o is not None]
    pushes = [c for c in rb.calls() if c.name.endswith("::push") and len(c.args) > 1 and "core_types::Value" in rb.local_ty(op_local(c.args[1]) if op_local(c.args[1]) is not None else 0) and "Row" not in rb.local_ty(op_local(c.args[1]) if op_local(c.args[1]) is not None else 0).split("(")[0]]
    ctx.floor("C34.2", "reify calls in execute_read_rows", len(reifies), 1)
    ctx.floor("C34.2", "value pushes in execute_read_rows", len(pushes), 1)
    for k, p in enumerate(pushes):
        ok = any(rb.dominates(o, p.bb) for o in oks)
        ctx.instance("C34.2", "execute_read_rows: value push #%d dominated by Ok(reify)=%s" % (k, ok))
        ctx.oblige(ok, "C34.2", "execute_read_rows:push#%d-unreified" % k,
                   "a column value can reach the outgoing row without passing Value::reify: nested graph references (e.g. a node inside a map) are returned as raw "
                   "ids by the C API while the Rust API returns the materialised entity", p.loc())

    stmt_rearm_rule(ctx)
    param_conv_rule(ctx)

STMT = "nervusdb_capi::StmtHandle"


def stmt_rearm_rule(ctx, rid="C34.3"):
    """a statement handle whose cursor is rewound is re-armed (executed = false) or freshly executed (executed = true) on the same path"""
    from .. import paths
    from ..facts import op_const
    F = ctx.facts
    ctx.rule(rid, "every C-API function that rewinds a statement's cursor also decides the row cache's validity on that path (re-arm or re-execute), "
             "so a stepped, reset statement evaluates on the current graph like a Rust prepare + execute does")
    n = 0
    for i, b in sorted(F.bodies.items()):
        if not i.startswith("nervusdb_capi"):
            continue
        rew, dec, rearm = set(), set(), set()
        for bi, blk in enumerate(b.blocks):
            if b.is_cleanup(bi):
                continue
            for st in blk["s"]:
                if st[0] != "a" or not st[1][1]:
                    continue
                last = st[1][1][-1]
                if not (isinstance(last, list) and last[0] == "f" and last[3] == STMT):
                    continue
                k = op_const(st[2][1]) if st[2][0] == "use" else None
                if last[2] == "cursor" and k is not None and k.get("v") == 0:
                    rew.add(bi)
                if last[2] == "executed":
                    dec.add(bi)
                    if k is not None and k.get("v") == 0:
                        rearm.add(bi)
        if not rew:
            continue
        fn = (b.root or b.id).split("::")[-1]
        fails = paths.fail_blocks(b)
        for r in sorted(rew):
            n += 1
            ctx.instance(rid, "%s: cursor rewound at bb%d; validity decided at %s" % (fn, r, sorted(dec)))
            if r in dec:
                continue
            before = r in (b.reachable([0], avoid=dec) | {0}) and 0 not in dec
            after = [x for x in b.return_blocks() if x in b.reachable([r], avoid=dec | fails)]
            ctx.oblige(not (before and after), rid, "%s:%s:rewind-without-rearm" % (rid, fn),
                       "%s rewinds the statement's cursor on a path that neither clears nor sets `executed`: the next step replays rows cached by an "
                       "earlier execution instead of evaluating on the current graph" % fn, "%s:%d" % (b.file, b.line_of_block(r)))
    ctx.floor(rid, "cursor rewinds in the C API", n, 4)


JSON_CONV = "nervusdb_capi::json_to_query_value"


def param_conv_rule(ctx, rid="C34.4"):
    """the JSON -> value conversion of parameters keeps every element of a list and every entry of a map"""
    from .. import paths
    ctx.rule(rid, "json_to_query_value keeps every array element and every object entry: from the `Some` arm of each element loop no path returns to the iterator "
             "without passing the push / insert (error exits aside) — a parameter map that loses entries makes keys(), size() and map equality differ from the Rust API")
    b = ctx.body(JSON_CONV)
    fails = paths.fail_blocks(b)
    nexts = [c for c in b.calls() if c.declared == "core::iter::traits::iterator::Iterator::next"]
    sinks = [c for c in b.calls() if c.name.endswith(("Vec::<T, A>::push", "BTreeMap::<K, V, A>::insert"))]
    n = 0
    for sk in sinks:
        hs = [h for h in nexts if sk.bb in b.reachable([h.bb]) and h.bb in b.reachable([sk.bb])]
        if not hs:
            continue
        h = min(hs, key=lambda h: len([x for x in b.reachable([h.bb]) if h.bb in b.reachable([x])]))
        t = b.term(h.target) if h.target is not None else None
        if not t or t[0] != "switch":
            continue
        some = dict((k, tb) for k, tb in t[2]).get(1, None)
        if some is None:
            continue
        n += 1
        back = h.bb in (b.reachable([some], avoid={sk.bb} | fails) | {some})
        ctx.instance(rid, "json_to_query_value: %s reached for every element=%s" % (sk.name.split("::")[-1], not back))
        ctx.oblige(not back, rid, "%s:json_to_query_value:%s#%d:element-skipped" % (rid, sk.name.split("::")[-1], sk.ordinal),
                   "the parameter conversion can skip an element of a JSON %s: the value the query sees is not the value the caller passed" %
                   ("object" if sk.name.endswith("insert") else "array"), sk.loc())
    ctx.floor(rid, "element loops in json_to_query_value", n, 2)
