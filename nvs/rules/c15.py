"""C15 — Indexes never change query results (PATH, PROV, ERRFLOW)."""
from .. import errflow
from .. import model as M
from .. import paths
from ..facts import op_local
from ..mirutil import backward_slice, site_key

EXPLANATION = (
    "Decides: (1) completeness at creation — GraphEngine::create_index reaches an insertion into the new tree (a back-fill of existing nodes); "
    "(2) maintenance covers every membership change — the node ids fed into the index operations of commit derive not only from set/removed "
    "properties but also from label additions, label removals and deleted nodes (backward data slice of every IndexOp tuple); "
    "(3) index updates never drop an error; (4) every Plan::IndexSeek construction is followed on every path by the re-applied property and label "
    "filters, and execute_index_seek leaves only through the index lookup or the fallback plan. Key equivalence classes (1 vs 1.0) are not decided."
    " C15.6: lookup_index returns Some(results) only on a path where results was tested non-empty (an empty answer must be None so that the seek falls back to the scan)."
    " C15.8: every label re-filter the MATCH compiler puts on top of a scan / index seek receives the whole label list of the pattern node."
)

CREATE_INDEX = M.ENGINE + "::create_index"
BTREE = "nervusdb_storage::index::btree::BTree"
INSERTERS = {BTREE + "::insert", BTREE + "::build_from_sorted_entries"}
PLAN = "nervusdb_query::executor::plan_types::Plan"
SEEK_EXEC = "nervusdb_query::executor::index_seek_plan::execute_index_seek"
ERR = ("nervusdb_storage::error::Error", "std::io::error::Error")


def run(ctx):
    F = ctx.facts
    ctx.rule("C15.1", "create_index back-fills: its call closure reaches an insertion into the new B-tree")
    ctx.rule("C15.2", "index maintenance in commit is fed by property sets/removals AND label additions/removals AND node deletions")
    ctx.rule("C15.3", "index updates in commit do not discard errors")
    ctx.rule("C15.4", "IndexSeek plans are re-filtered; execute_index_seek exits only via lookup or fallback")
    full_label_filter_rule(ctx)
    ctx.rule("C15.5", "every update of an index root in the catalog is followed by IndexCatalog::flush before the transaction's CommitTx record")

    b = ctx.body(CREATE_INDEX)
    path = F.reaches(CREATE_INDEX, INSERTERS)
    ctx.instance("C15.1", "create_index reaches inserter: %s" % (path or "no"))
    ctx.oblige(bool(path), "C15.1", "create_index:no-backfill",
               "an index created after the data exists stays empty for existing nodes; the planner then answers equality matches from it "
               "and returns fewer rows than a scan", b.file, sample={"closure_reaches_insert": bool(path)})

    # ---- clause 2 ---------------------------------------------------------
    cb = ctx.body(M.COMMIT)
    # tuples (IndexOp, node) pushed to index_ops: aggregates of kind tuple whose first operand is an IndexOp enum value
    tuples = []
    for bi, blk in enumerate(cb.blocks):
        for st in blk["s"]:
            if st[0] == "a" and st[2][0] == "agg" and st[2][1] == "tuple" and len(st[2][4]) == 2:
                l0 = op_local(st[2][4][0])
                if l0 is not None and "IndexOp" in cb.local_ty(l0):
                    tuples.append((bi, st))
    ctx.floor("C15.2", "IndexOp tuples in commit", len(tuples), 3)
    src_calls, src_fields = set(), set()
    for bi, st in tuples:
        l1 = op_local(st[2][4][1])
        calls, fields = backward_slice(cb, l1) if l1 is not None else ([], set())
        src_calls |= {c.name.split("::")[-1] for c in calls}
        src_fields |= {f for f, adt in fields if adt == M.WTXN}
    ctx.instance("C15.2", "index-op node ids derive from calls %s and WriteTxn fields %s" % (sorted(x for x in src_calls if "for_wal" in x or "tombston" in x), sorted(src_fields)))
    needs = [("label additions", lambda: "pending_label_additions" in src_fields),
             ("label removals", lambda: "pending_label_removals" in src_fields),
             ("deleted nodes", lambda: any("tombstoned_nodes" in x for x in src_calls))]
    for what, pred in needs:
        ok = pred()
        ctx.instance("C15.2", "index maintenance fed by %s=%s" % (what, ok))
        ctx.oblige(ok, "C15.2", "commit:index-not-maintained-on(%s)" % what.replace(" ", "-"),
                   "index entries are maintained only for property sets/removals; %s never update the index, so an index seek returns nodes "
                   "that a scan would not (or misses nodes it would)" % what, cb.file, sample={"missing_source": what})

    # ---- clause 3 ---------------------------------------------------------
    n = 0
    for it in errflow.scan(F, cb, err_substr=ERR):
        c = it.get("call")
        if c is None or not c.name.startswith("nervusdb_storage::index::"):
            continue
        n += 1
        ctx.oblige(False, "C15.3", "commit:%s" % errflow.key_of(it),
                   "an index update error is discarded: the commit succeeds with the index out of step with the data", c.loc(),
                   sample={"site": c.loc(), "callee": c.name})
    idx_calls = [c for c in cb.calls() if c.name.startswith("nervusdb_storage::index::") and errflow.is_result_ty(cb.local_ty(c.dest[0]), ERR)]
    ctx.instance("C15.3", "%d fallible index calls in commit" % len(idx_calls))
    ctx.floor("C15.3", "fallible index calls in commit", len(idx_calls), 5)
    ctx.obligations += len(idx_calls) - n
    ctx.discharged += len(idx_calls) - n

    # ---- clause 4 ---------------------------------------------------------
    nseek = 0
    for i, qb in sorted(F.bodies.items()):
        if not i.startswith("nervusdb_query::query_api"):
            continue
        for bi, blk in enumerate(qb.blocks):
            for st in blk["s"]:
                if st[0] == "a" and st[2][0] == "agg" and st[2][2] == PLAN and st[2][3] == "IndexSeek":
                    nseek += 1
                    ctx.analysed_fns.add(i)
                    filt = [c.bb for c in qb.calls() if c.name.endswith("::apply_filters_for_alias")]
                    lfilt = [c.bb for c in qb.calls() if c.name.endswith("::apply_label_filters_for_alias")]
                    r1 = paths.success_returns_reachable(qb, [bi], avoid=filt)
                    r2 = paths.success_returns_reachable(qb, [bi], avoid=lfilt)
                    ctx.instance("C15.4", "%s: IndexSeek construction at line %d" % (i, st[3]))
                    ctx.oblige(not r1 and not r2 and filt and lfilt, "C15.4", "%s:IndexSeek-not-refiltered" % i,
                               "an IndexSeek plan can leave the compiler without the property/label filters being re-applied on top of it",
                               "%s:%d" % (qb.file, st[3]), sample={"fn": i, "filter_blocks": filt, "label_filter_blocks": lfilt})
    ctx.floor("C15.4", "IndexSeek constructions", nseek, 1)
    sb = ctx.body(SEEK_EXEC)
    exits = [c.bb for c in sb.calls() if c.declared.endswith("GraphSnapshot::lookup_index") or c.name.endswith("::execute_plan") or c.name.endswith("iter::sources::once::once")]
    rets = paths.success_returns_reachable(sb, [0], avoid=exits)
    ctx.instance("C15.4", "execute_index_seek exits via %d lookup/fallback/error sites" % len(exits))
    ctx.oblige(not rets and len(exits) >= 3, "C15.4", "execute_index_seek:exit-without-lookup-or-fallback",
               "execute_index_seek can return rows that come neither from the index lookup nor from the fallback scan", sb.file)

    # ---- clause 5 ---------------------------------------------------------
    root_flush_rule(ctx, "C15.5")

    # ---- clause 6: "the index has nothing" must reach the scan fallback ------------------------------------------
    # execute_index_seek falls back to a label scan when lookup_index answers None.  Because indexes are not back-filled and not maintained
    # on every change (C15.1 / C15.2, known findings), "no entry in the index" does not mean "no matching node": the fallback is what keeps
    # query results equal with and without the index in those cases.  So lookup_index may answer Some(list) only for a non-empty list.
    from ..mirutil import switch_on as _sw, peel_refs as _pr
    ctx.rule("C15.6", "GraphSnapshot::lookup_index returns Some(results) only on a path where results was tested non-empty (an empty answer must be None so that the seek falls back to a scan)")
    n6 = 0
    for ty in ("nervusdb_storage::api::StorageSnapshot",):
        fid = F.impl_method("nervusdb_api::GraphSnapshot", ty, "lookup_index")
        lb = ctx.body(fid or (ty + "::lookup_index"))
        for bi, blk in enumerate(lb.blocks):
            for st in blk["s"]:
                if not (st[0] == "a" and st[1][0] == 0 and not st[1][1] and st[2][0] == "agg" and st[2][2] == "core::option::Option" and st[2][3] == "Some"):
                    continue
                n6 += 1
                rl = op_local(st[2][4][0]) if st[2][4] else None
                from ..mirutil import value_root as _vr
                rl = _vr(lb, rl) if rl is not None else None  # `Some(move results)` goes through a temporary
                ok = False
                for c in lb.calls():
                    if not c.name.endswith("::is_empty") or c.target is None or not c.args:
                        continue
                    al = op_local(c.args[0])
                    if al is None or _pr(lb, al) != rl:
                        continue
                    sw = _sw(lb, c.target)
                    if not sw:
                        continue
                    t_false = [tb for v, tb in sw[2] if v == 0]
                    t_true = sw[3]
                    if sw[1]:
                        t_true, t_false = (t_false[0] if t_false else None), [t_true]
                    if lb.dominates(c.bb, bi) and t_true is not None and bi not in lb.reachable([t_true]):
                        ok = True
                ctx.instance("C15.6", "%s: `Some(results)` at line %d guarded by a non-empty test=%s" % (ty.split("::")[-1], st[3], ok))
                ctx.oblige(ok, "C15.6", "%s:lookup_index:some-without-nonempty-test#%d" % (ty.split("::")[-1], n6 - 1),
                           "lookup_index can answer Some(empty list): the index seek then returns no rows instead of falling back to the scan, although nodes the "
                           "index does not (yet) contain match", "%s:%d" % (lb.file, st[3]))
    ctx.floor("C15.6", "Some(..) returns of lookup_index", n6, 1)

    # ---- clause 7: the index is named after the creation label ------------------------------------------------------------
    # Index maintenance at commit files an existing node under "<primary label>.<key>", and the primary label comes from
    # GraphSnapshot::node_label.  Index entries written earlier (and the planner's IndexSeek) use the label the node was created with, which
    # is what the node-table record stores.  If node_label answers from the node's *current* label list instead, the primary label drifts
    # when a label with a smaller id is added: later SETs update another (or no) index and the seek misses the node.
    ctx.rule("C15.7", "StorageSnapshot::node_label answers from the node-table record (I2eRecord.label_id, the creation label), not from the live label list")
    nid = F.impl_method("nervusdb_api::GraphSnapshot", "nervusdb_storage::api::StorageSnapshot", "node_label")
    nlb = ctx.body(nid or "StorageSnapshot::node_label")
    import json as _json
    reads_record = False
    for i2, b2 in [(nid, nlb)] + [(x, F.bodies[x]) for x in F.bodies if F.bodies[x].root == nid]:
        for blk in b2.blocks:
            for st in blk["s"]:
                if st[0] == "a" and '"label_id"' in _json.dumps(st) and "I2eRecord" in _json.dumps(st):
                    reads_record = True
    delegates = [c.name for c in nlb.calls() if c.name.endswith("::node_label") or c.name.endswith("::resolve_node_labels") or "i2l" in c.name]
    ctx.instance("C15.7", "StorageSnapshot::node_label reads I2eRecord.label_id=%s; delegates to %s" % (reads_record, [d.split("::")[-2:] for d in delegates] or "nothing"))
    ctx.oblige(reads_record and not delegates, "C15.7", "StorageSnapshot::node_label:not-creation-label",
               "node_label no longer answers with the creation label stored in the node-table record: the label under which commit maintains a node's index "
               "entries drifts when labels are added or removed, and IndexSeek misses rows a scan returns", nlb.file)


def root_flush_rule(ctx, rid="C15.5"):
    """every update of an index root in the catalog is followed by IndexCatalog::flush before the CommitTx record (shared as C01.10)"""
    cb = ctx.body(M.COMMIT)
    # ---- clause 5 ---------------------------------------------------------
    INDEXDEF = "nervusdb_storage::index::catalog::IndexDef"
    FLUSH = "nervusdb_storage::index::catalog::IndexCatalog::flush"
    flushes = [c.bb for c in cb.calls() if c.name == FLUSH]
    commits = [c.bb for c in cb.calls() if c.name == M.WAL_APPEND and M.wal_append_variant(cb, c) == "CommitTx"]
    roots = []
    for bi, blk in enumerate(cb.blocks):
        for st in blk["s"]:
            if st[0] == "a" and any(isinstance(p_, list) and p_[0] == "f" and p_[2] == "root" and p_[3] == INDEXDEF for p_ in st[1][1]):
                roots.append((bi, st[3]))
    ctx.floor(rid, "index root updates in commit", len(roots), 3)
    for k, (bi, line) in enumerate(roots):
        seen = cb.reachable([bi], avoid=set(flushes) | paths.fail_blocks(cb))
        bad = [c for c in commits if c in seen]
        if bad and flushes:
            # accepted idiom: the flush is guarded by a boolean flag that this path has set to true
            from ..mirutil import value_root
            guards = []
            for sb in range(len(cb.blocks)):
                tt = cb.term(sb)
                if tt[0] != "switch" or tt[4] != "bool":
                    continue
                arms = [tb for _, tb in tt[2]] + [tt[3]]
                reach = [any(f in cb.reachable([a]) for f in flushes) for a in arms]
                if any(reach) and not all(reach):
                    lv = op_local(tt[1])
                    if lv is not None:
                        guards.append((sb, value_root(cb, lv)))
            if guards:
                ok_all = True
                for sb, flag in guards:
                    if sb not in seen:
                        continue
                    setters = set()
                    for x, blk2 in enumerate(cb.blocks):
                        for st2 in blk2["s"]:
                            if st2[0] == "a" and st2[1][0] == flag and not st2[1][1] and st2[2][0] == "use" and st2[2][1][0] == "k" and st2[2][1][1].get("v") == 1:
                                setters.add(x)
                    if sb in cb.reachable([bi], avoid=setters - {bi}) and bi not in setters:
                        ok_all = False
                if ok_all:
                    bad = []
        ctx.instance(rid, "commit: root update #%d flushed before CommitTx=%s" % (k, not bad))
        ctx.oblige(not bad and flushes, rid, "commit:root-update#%d-not-flushed" % k,
                   "an index root moved in memory can reach the commit record without the catalog page being rewritten: after reopen the catalog "
                   "names the pre-split root and equality lookups return a strict subset", "%s:%d" % (cb.file, line))


def full_label_filter_rule(ctx, rid="C15.8"):
    """the per-row label filter applied on top of a scan / index seek covers every label of the pattern node (an index holds entries of nodes that lost the label)"""
    from ..mirutil import backward_calls
    F = ctx.facts
    ctx.rule(rid, "every apply_label_filters_for_alias call of the MATCH compiler receives the pattern node's whole label list (no sub-slice / skip / split in the "
             "argument's derivation): the index behind an IndexSeek is not label-aware, so dropping the first label from the re-filter returns nodes that lost it")
    SUB = ("::get", "::get_unchecked", "::split_first", "::split_at", "::skip", "::index", "::split_off", "::drain", "::truncate", "::remove", "::pop", "::retain")
    n = 0
    for i, b in sorted(F.bodies.items()):
        if not i.startswith("nervusdb_query::query_api::match_compile"):
            continue
        for c in b.calls():
            if not c.name.endswith("::apply_label_filters_for_alias") or len(c.args) < 3:
                continue
            n += 1
            srcs = backward_calls(b, op_local(c.args[2]), depth=10)
            def on_labels(x):
                l0 = op_local(x.args[0]) if x.args else None
                ty = b.local_ty(l0) if l0 is not None else ""
                return "alloc::string::String" in ty and "NodePattern" not in ty and "PathElement" not in ty
            bad = [x.name for x in srcs if (x.name.endswith(SUB) or x.declared.endswith(SUB)) and on_labels(x)]
            ctx.instance(rid, "%s: labels argument derived through %s" % (c.loc(), sorted({x.name.split("::")[-1] for x in srcs})))
            ctx.oblige(not bad, rid, "%s:%s:label-filter#%d:partial" % (rid, (b.root or i).split("::")[-1], c.ordinal),
                       "the label re-filter is applied to a part of the pattern node's labels only (%s): a node that lost the omitted label is still returned when "
                       "the start plan is an index seek" % bad[0].split("::")[-1] if bad else "", c.loc())
    ctx.floor(rid, "label re-filter sites in the MATCH compiler", n, 4)
