"""C22 — Runtime errors are never swallowed (ERRFLOW over rows + EVALGUARD)."""
from .. import errflow, evalguard, mustguard, rowflow
from ..facts import op_local
from ..mirutil import site_key

EXPLANATION = (
    "Decides: (1) row-stream error flow — every iterator adaptor applied in the executor to a stream whose items are Result<Row, Error> keeps "
    "Err items: predicate adaptors (filter / take_while / skip_while) must return true on the Err arm, by-value mappers (flat_map / filter_map) must "
    "read and forward the Err payload, positional adaptors (skip, step_by, nth, last, flatten) are violations because they discard items by position; "
    "(2) ERRFLOW — no query/storage Result is dropped, `.ok()`-ed, defaulted or `.or_else(|_| ..)`-ed in executor::* and query_api; "
    "(3) EVALGUARD — the repository's own pairing idiom: runtime type errors are raised only by the pre-pass ensure_runtime_expression_compatible, so "
    "every evaluation of a user expression in executor::* must be preceded by it (same body, enclosing closure, guarding loop, listed wrapper, or "
    "every caller). Errors the evaluator turns into null by design are not decided."
    " C22.6: every non-null Ok result of the percentile aggregates is dominated by the Ok arm of resolve_percentile (the range check of the percentile argument)."
    " C22.7: every evaluator construct that binds a variable per element (list comprehension, quantifiers, reduce, pattern comprehension) has a scoped re-check in the runtime pre-pass (a recursive call on a row extended by Row::with inside the region that recognises the construct)."
)

QERR = ("nervusdb_query::error::Error", "nervusdb_storage::error::Error")
EXEC = "nervusdb_query::executor"
# one line of reason per exception
ERRFLOW_EXCEPTIONS = {
    "nervusdb_query::evaluator::evaluate_expression_value:match-discards-err:query_api::exists_subquery_has_rows#0":
        "EXISTS { subquery } maps an inner error to null by design (evaluator returns Value, not Result)",
}
# evaluation sites that are not row-level user-expression evaluation (reason each)
EVAL_WINDOW = "nervusdb_query::executor::plan_tail::evaluate_row_window_expression"


def run(ctx):
    F = ctx.facts
    ctx.rule("C22.1", "adaptors over Result<Row> streams keep Err items")
    ctx.rule("C22.2", "no query/storage Result is discarded in the executor / query API")
    ctx.rule("C22.3", "every row-level expression evaluation is preceded by the runtime-compatibility pre-pass")
    percentile_rule(ctx)
    scoped_prepass_rule(ctx)
    ctx.rule("C22.4", "an operator that runs the pre-pass runs it on every path that can yield rows (only error exits bypass it)")

    sites, its = rowflow.adaptor_sites(F, EXEC)
    ctx.floor("C22.1", "row-stream iterator types", len(its), 8)
    ctx.floor("C22.1", "adaptor sites on row streams", len(sites), 60)
    for b, c, ad in sites:
        ctx.analysed_fns.add(b.id)
        if ad in ("collect", "next", "take", "chain", "map", "by_ref", "into_iter", "peekable", "size_hint", "fuse", "enumerate", "inspect", "zip", "count", "for_each", "fold", "try_fold", "rev", "extend"):
            if ad in ("map",):
                pass
            ctx.obligations += 1
            ctx.discharged += 1
            continue
        key = "%s:%s" % (b.id, site_key(c))
        if ad in rowflow.PREDICATE:
            cb = rowflow.closure_of_arg(F, b, c.args[1]) if len(c.args) > 1 else None
            keeps = rowflow.predicate_keeps_err(cb) if cb is not None else None
            ctx.instance("C22.1", "%s: %s closure keeps Err=%s" % (b.id, ad, keeps))
            ctx.oblige(keeps is True, "C22.1", key + ":drops-err-rows",
                       "`.%s(..)` over a Result<Row> stream returns false (or does not look) on Err items: a runtime error raised by an "
                       "upstream operator is silently dropped and the query returns a truncated result" % ad, c.loc(),
                       sample={"fn": b.id, "adaptor": ad, "site": c.loc(), "keeps_err": keeps})
        elif ad in rowflow.MAPPING:
            cb = rowflow.closure_of_arg(F, b, c.args[1]) if len(c.args) > 1 else None
            uses = rowflow.mapping_uses_err(cb) if cb is not None else None
            ctx.instance("C22.1", "%s: %s closure forwards Err=%s" % (b.id, ad, uses))
            ctx.oblige(uses is True, "C22.1", key + ":drops-err-rows",
                       "`.%s(..)` over a Result<Row> stream does not forward the Err payload" % ad, c.loc(),
                       sample={"fn": b.id, "adaptor": ad, "site": c.loc()})
        elif ad in rowflow.POSITIONAL:
            ctx.instance("C22.1", "%s: positional adaptor %s" % (b.id, ad))
            ctx.oblige(False, "C22.1", key + ":positional-discard",
                       "`.%s(..)` over a Result<Row> stream discards items by position: an Err among the discarded rows disappears" % ad, c.loc(),
                       sample={"fn": b.id, "adaptor": ad, "site": c.loc()})
        else:
            ctx.instance("C22.1", "%s: unclassified adaptor %s" % (b.id, ad))
            ctx.oblige(False, "C22.1", key + ":unclassified-adaptor(%s)" % ad,
                       "adaptor `%s` on a Result<Row> stream is not in the checker's table: classify it" % ad, c.loc())

    # ---- clause 2 ---------------------------------------------------------
    scoped = [i for i in sorted(F.bodies) if i.startswith((EXEC, "nervusdb_query::query_api", "nervusdb_query::evaluator", "<nervusdb_query")) and "::tests::" not in i]
    ctx.floor("C22.2", "bodies scanned", len(scoped), 900)
    nres = 0
    seen = set()
    for i in scoped:
        b = F.bodies[i]
        nres += len([c for c in b.calls() if errflow.is_result_ty(b.local_ty(c.dest[0]), QERR)])
        for it in errflow.scan(F, b, err_substr=QERR):
            k = "%s:%s" % (b.root or i, errflow.key_of(it))
            if k in seen:
                continue
            seen.add(k)
            c = it.get("call")
            if k in ERRFLOW_EXCEPTIONS:
                ctx.instance("C22.2", "exception %s — %s" % (k, ERRFLOW_EXCEPTIONS[k]))
                continue
            ctx.oblige(False, "C22.2", k, "a query error is discarded (%s): execution continues as if the failing sub-plan had succeeded or produced nothing"
                       % it["kind"], c.loc() if c else b.file, sample={"fn": i, "kind": it["kind"]})
    ctx.instance("C22.2", "%d fallible call sites in %d bodies" % (nres, len(scoped)))
    ctx.obligations += nres
    ctx.discharged += nres

    # ---- clause 3 ---------------------------------------------------------
    evs = evalguard.scan(F)
    ctx.floor("C22.3", "evaluation sites", len(evs), 28)
    for b, c, g in evs:
        root = b.root or b.id
        ctx.instance("C22.3", "%s: %s guarded=%s" % (b.id, site_key(c), g))
        if root == EVAL_WINDOW:
            # SKIP/LIMIT operand: evaluated once on an empty row; the result is type-checked right after, so no type error is swallowed.
            # (its bypass of the range()/collection limit is judged under C33.)
            ctx.observe("%s evaluates the SKIP/LIMIT operand without the pre-pass (see C33.3)" % root)
            ctx.oblige(True, "C22.3", "%s:%s" % (b.id, site_key(c)), "")
            continue
        ctx.oblige(g, "C22.3", "%s:%s:unguarded-evaluation" % (b.id, site_key(c)),
                   "a user expression is evaluated without the runtime-compatibility pre-pass: a runtime type error in it becomes null "
                   "instead of failing the query", c.loc(), sample={"fn": b.id, "site": c.loc()})

    # ---- clause 4 ---------------------------------------------------------
    ops = mustguard.operators(F)
    ctx.floor("C22.4", "expression-carrying operators with a pre-pass", len(ops), 10)
    for b in ops:
        rets = mustguard.unguarded_returns(F, b)
        ctx.analysed_fns.add(b.id)
        ctx.instance("C22.4", "%s: returns that bypass the pre-pass: %s" % (b.id, rets or "none"))
        ctx.oblige(not rets, "C22.4", "%s:return-bypasses-prepass" % b.id,
                   "this operator can hand rows on without running ensure_runtime_expression_compatible on its expressions (a fast path / early "
                   "return around the pre-pass): a runtime type error in them is not reported for the inputs that take that path", b.file,
                   sample={"operator": b.id, "bypassing_return_blocks": rets})


PCT_FNS = ("nervusdb_query::executor::projection_sort::evaluate_percentile_cont", "nervusdb_query::executor::projection_sort::evaluate_percentile_disc")
RESOLVE_PCT = "nervusdb_query::executor::projection_sort::resolve_percentile"


def percentile_rule(ctx, rid="C22.6"):
    """a percentile aggregate returns a value only after the percentile argument passed its range check"""
    from .. import paths
    ctx.rule(rid, "every non-null Ok result of evaluate_percentile_cont / evaluate_percentile_disc is dominated by the Ok arm of resolve_percentile — the only "
             "place the percentile argument is range-checked (NumberOutOfRange); a shortcut for special groups must not bypass it")
    n = 0
    for fn in PCT_FNS:
        b = ctx.body(fn)
        short = fn.split("::")[-1]
        rps = [c for c in b.calls() if c.name == RESOLVE_PCT]
        oks = [paths.ok_arm(b, c) for c in rps]
        ctx.oblige(bool(rps) and all(o is not None for o in oks), rid, "%s:%s:no-range-check" % (rid, short), "%s does not call resolve_percentile" % short, b.file)
        for bi, blk in enumerate(b.blocks):
            if b.is_cleanup(bi):
                continue
            for st in blk["s"]:
                if not (st[0] == "a" and st[1][0] == 0 and not st[1][1] and st[2][0] == "agg" and st[2][2] == "core::result::Result" and st[2][3] == "Ok"):
                    continue
                pl = op_local(st[2][4][0]) if st[2][4] else None
                o = b.origin(pl) if pl is not None else None
                is_null = bool(o and o[0] == "agg" and o[1][2].endswith("core_types::Value") and o[1][3] == "Null")
                if is_null:
                    continue
                n += 1
                ok = any(x is not None and b.dominates(x, bi) for x in oks)
                ctx.instance(rid, "%s: value result at line %d after the range check=%s" % (short, b.line_of_block(bi), ok))
                ctx.oblige(ok, rid, "%s:%s:value-before-range-check#%d" % (rid, short, n),
                           "%s returns a value on a path that never validated the percentile argument: an out-of-range percentile yields a result instead of "
                           "the NumberOutOfRange runtime error" % short, "%s:%d" % (b.file, b.line_of_block(bi)))
    ctx.floor(rid, "value results of the percentile aggregates", n, 2)


PREPASS = "nervusdb_query::executor::plan_mid::ensure_runtime_expression_compatible"
EXPR = "nervusdb_query::ast::Expression"
# evaluator functions that evaluate a body once per element with a variable bound  ->  how the pre-pass recognises the construct
BINDERS = {
    "nervusdb_query::evaluator::evaluator_comprehension::evaluate_list_comprehension": ("variant", "ListComprehension"),
    "nervusdb_query::evaluator::evaluator_comprehension::evaluate_quantifier": ("name", "__quant_"),
    "nervusdb_query::evaluator::evaluator_comprehension::evaluate_reduce": ("name", "__reduce"),
    "nervusdb_query::evaluator::evaluator_pattern::evaluate_pattern_comprehension": ("variant", "PatternComprehension"),
}


def scoped_prepass_rule(ctx, rid="C22.7"):
    """every construct whose body is evaluated with a variable bound per element is checked by the pre-pass in that scope"""
    from .. import tables
    from ..facts import op_const
    from ..mirutil import switch_on
    F = ctx.facts
    ctx.rule(rid, "for every evaluator construct that evaluates a body once per element with a variable bound (list comprehension, quantifiers, reduce, pattern "
             "comprehension) the runtime pre-pass re-checks the body under a row extended with that variable (a recursive call whose row comes from Row::with): "
             "checked against the outer row the variable is unbound, the body sees null and a real runtime error is swallowed")
    # completeness of the table: every evaluator function that binds a row variable is listed
    found = set()
    for i, b in F.bodies.items():
        if i.startswith("nervusdb_query::evaluator::") and any(c.name.endswith("Row::with") for c in b.calls()):
            found.add(b.root or i)
    listed = set(BINDERS) | {"nervusdb_query::evaluator::evaluator_pattern::collect_pattern_comprehension_matches_from",
                             "nervusdb_query::evaluator::evaluator_pattern::collect_variable_length_pattern_comprehension_matches"}
    found = {x for x in found if not any(x == y or x.startswith(y + "::") for y in listed)}
    for x in sorted(found):
        ctx.finding(rid, "%s:unlisted-binder:%s" % (rid, x.split("::")[-1]), "%s binds a row variable but is not in the table of binding constructs" % x, F.bodies[x].file)
    pb = ctx.body(PREPASS)
    adt = ctx.adt(EXPR)
    names = [v["name"] for v in adt["variants"]]
    sw = tables.enum_switch(pb, EXPR, F)
    withs = [c for c in pb.calls() if c.name.endswith("Row::with")]
    recs = [c for c in pb.calls() if c.name == PREPASS]

    def scoped_in(region):
        """a recursive call in `region` whose row argument derives from a Row::with in `region`"""
        from .c26 import bslice
        for r in recs:
            if r.bb not in region or len(r.args) < 2:
                continue
            _, cs = bslice(pb, op_local(r.args[1]), depth=12)
            if any(w.bb in region for w in cs if w.name.endswith("Row::with")):
                return True
        return False

    n = 0
    for fn, (kind, key) in sorted(BINDERS.items()):
        ctx.body(fn)
        n += 1
        region = set()
        if kind == "variant" and sw and key in names and names.index(key) in sw[1]:
            region = set(tables.dominated_region(pb, sw[1][names.index(key)], sw[0]))
        elif kind == "name":
            for c in pb.calls():
                ks = []
                for a in c.args:
                    k = op_const(a)
                    if k is None and op_local(a) is not None:
                        o = pb.origin(op_local(a))
                        k = o[1] if o and o[0] == "const" else None
                    ks.append(k)
                if any(k is not None and key in str(k.get("d", "")) for k in ks) and c.target is not None:
                    sw2 = switch_on(pb, c.target)
                    if sw2 and len(sw2[2]) == 1:
                        tb = sw2[3] if not sw2[1] else sw2[2][0][1]
                        region |= {x for x in range(len(pb.blocks)) if pb.dominates(tb, x)}
        ok = bool(region) and scoped_in(region)
        ctx.instance(rid, "%s (%s %s): scoped re-check in the pre-pass=%s" % (fn.split("::")[-1], kind, key, ok))
        ctx.oblige(ok, rid, "%s:%s:unscoped" % (rid, key),
                   "the pre-pass has no scoped re-check for %s (%s): its body is checked against the outer row only, so a runtime type error that depends on the "
                   "bound element is turned into null instead of failing the query" % (fn.split("::")[-1], key), pb.file)
    ctx.floor(rid, "binding constructs", n, 4)
