"""C20 — ORDER BY sorts and SKIP/LIMIT slice it: the variant-level skeleton of the ordering (TRUTH)."""
from .. import truth
from ..core import AnchorLost

EXPLANATION = (
    "Decides the part of the ordering that depends only on the *kinds* of the two values, by walking the comparator's MIR decision tree once per "
    "pair of Value variants (no execution): (1) order_compare places null after every non-null value, symmetrically, and null = null; "
    "(2) value_order_rank is total, gives one rank per Cypher type class and orders the classes Map < Node < Relationship < List < Path < String < "
    "Boolean < Number, with null above all; (3) order_compare_non_null dispatches (A, B) and (B, A) to the same comparison procedure for all 225 "
    "pairs of non-null variants — the necessary condition for cmp(a, b) = reverse(cmp(b, a)); (4) the sort in execute_order_by compares through "
    "order_compare. Not decided: the comparisons inside one kind (large integers against floats, NaN, strings that look like temporals, lists, "
    "maps), transitivity, stability of the sort and the exact SKIP/LIMIT positions — all value-level."
    " C20.5: (Int, Int) ends in the exact i64 comparison and (Bool, Bool) in the bool comparison."
    " C20.6: in parse_order_by the direction stored in an item is assigned on every path of the current loop iteration."
    " C20.9: in the ORDER BY comparator a direction test sits on the same iteration as the order_compare call and reads the direction of the key whose values are compared. C20.8: compile_return_plan and compile_with_plan build the Distinct node before the OrderBy / Skip / Limit nodes, so the window is cut from the distinct rows. C20.7: every Plan::Skip handler (each Skip arm of a switch over Plan in the executor, and execute_skip) uses no end-removing primitive and every Plan::Limit handler no front-removing one."
)

VAL = "nervusdb_query::executor::core_types::Value"
OC = "nervusdb_query::evaluator::order_compare"
OCNN = "nervusdb_query::evaluator::evaluator_compare::order_compare_non_null"
RANK = "nervusdb_query::evaluator::evaluator_compare::value_order_rank"
ORDER_BY = "nervusdb_query::executor::plan_mid::execute_order_by"

CLASSES = [("Map", ["Map"]), ("Node", ["NodeId", "ExternalId", "Node"]), ("Relationship", ["EdgeKey", "Relationship"]), ("List", ["List"]),
           ("Path", ["Path", "ReifiedPath"]), ("String", ["String"]), ("Boolean", ["Bool"]), ("Number", ["Int", "Float"])]


def _abs(name):
    return "T" if name == "Bool" else ("N" if name == "Null" else name)


def run(ctx):
    F = ctx.facts
    ctx.rule("C20.1", "order_compare: null = null, null after every non-null value, and the mirror image for (x, null)")
    ctx.rule("C20.2", "value_order_rank is total, constant per type class, ordered Map < Node < Relationship < List < Path < String < Boolean < Number < null")
    ctx.rule("C20.3", "order_compare_non_null dispatches (A, B) and (B, A) to the same comparison procedure for every pair of non-null variants")
    ctx.rule("C20.4", "the ORDER BY sort compares through order_compare")
    window_rule(ctx)
    distinct_order_rule(ctx)
    per_key_direction_rule(ctx)
    vadt = ctx.adt(VAL)
    dmap = {v["name"]: v["discr"] for v in vadt["variants"]}
    discr_of = dict(dmap)
    discr_of["other"] = dmap["Int"]
    names = list(dmap)

    # ---- 1
    oc = ctx.body(OC)
    tl = truth.tuple_local(oc, 0)
    if tl is None:
        raise AnchorLost("order_compare no longer matches on (left, right)")
    for a in names:
        for l, r, want in ((a, "Null", "Ordering::Less"), ("Null", a, "Ordering::Greater")):
            if a == "Null":
                want = "Ordering::Equal"
            try:
                got = truth.eval_match(oc, 0, {(tl, 0): "l", (tl, 1): "r"}, {"l": _abs(l), "r": _abs(r)}, discr_of)
            except truth.Undecided as e:
                got = ("undecided", str(e))
            got_s = got[1] if isinstance(got, tuple) else got
            ctx.instance("C20.1", "order_compare(%s, %s) = %s" % (l, r, got_s))
            ctx.oblige(got == ("adt", want), "C20.1", "null-order:%s,%s" % (l, r),
                       "order_compare(%s, %s) yields %s, expected %s: nulls are not placed consistently after all values" % (l, r, got_s, want), oc.file)
    ctx.floor("C20.1", "null placements decided", len(ctx.instances["C20.1"]), 32)
    # non-null pairs go to order_compare_non_null
    try:
        got = truth.eval_match(oc, 0, {(tl, 0): "l", (tl, 1): "r"}, {"l": "Int", "r": "String"}, discr_of, stop_at_call=True)
    except truth.Undecided as e:
        got = ("undecided", str(e))
    ctx.instance("C20.1", "non-null pair dispatches to %s" % (got[1] if isinstance(got, tuple) else got))
    ctx.oblige(got == ("call", OCNN), "C20.1", "non-null-dispatch", "order_compare no longer hands non-null pairs to order_compare_non_null", oc.file)

    # ---- 2
    rb = ctx.body(RANK)
    ranks = {}
    for a in names:
        try:
            got = truth.eval_match(rb, 0, {(1, None): "v"}, {"v": _abs(a)}, discr_of)
        except truth.Undecided as e:
            got = ("undecided", str(e))
        ranks[a] = got[1] if isinstance(got, tuple) and got[0] == "int" else None
        ctx.instance("C20.2", "rank(%s) = %s" % (a, ranks[a] if ranks[a] is not None else got))
        ctx.oblige(ranks[a] is not None, "C20.2", "rank-total:%s" % a, "value_order_rank gives no constant rank for %s" % a, rb.file)
    prev = None
    for cname, members in CLASSES:
        rs = {ranks.get(m) for m in members}
        ctx.oblige(len(rs) == 1 and None not in rs, "C20.2", "rank-class:%s" % cname,
                   "the variants of type class %s do not share one rank (%s): values of one type are ordered by their representation" % (cname, sorted(map(str, rs))), rb.file)
        r = next(iter(rs))
        if prev is not None and r is not None and prev[1] is not None:
            ctx.oblige(prev[1] < r, "C20.2", "rank-order:%s<%s" % (prev[0], cname),
                       "type class %s (rank %s) is not ordered before %s (rank %s) as Cypher's ORDER BY requires" % (prev[0], prev[1], cname, r), rb.file)
        prev = (cname, r)
    others = [ranks[a] for a in names if a != "Null" and ranks[a] is not None]
    ctx.oblige(ranks.get("Null") is not None and all(ranks["Null"] > x for x in others), "C20.2", "rank-null-last", "null does not have the highest rank", rb.file)
    # distinct classes never share a rank
    seen = {}
    for cname, members in CLASSES + [("DateTime", ["DateTime"]), ("Blob", ["Blob"]), ("Null", ["Null"])]:
        r = ranks.get(members[0])
        ctx.oblige(r not in seen, "C20.2", "rank-distinct:%s" % cname, "type classes %s and %s share rank %s" % (cname, seen.get(r), r), rb.file)
        seen[r] = cname

    # ---- 3
    nb = ctx.body(OCNN)
    tl = truth.tuple_local(nb, 0)
    if tl is None:
        raise AnchorLost("order_compare_non_null no longer matches on (left, right)")
    nn = [a for a in names if a != "Null"]
    out = {}
    for a in nn:
        for b_ in nn:
            try:
                got = truth.eval_match(nb, 0, {(tl, 0): "l", (tl, 1): "r"}, {"l": _abs(a), "r": _abs(b_)}, discr_of, stop_at_call=True)
            except truth.Undecided as e:
                got = ("undecided", str(e))
            out[(a, b_)] = got
    n3 = 0
    for i, a in enumerate(nn):
        for b_ in nn[i:]:
            n3 += 1
            g1, g2 = out[(a, b_)], out[(b_, a)]
            s1 = g1[1].split("::")[-1] if isinstance(g1, tuple) else g1
            s2 = g2[1].split("::")[-1] if isinstance(g2, tuple) else g2
            if a != b_ or True:
                ctx.instance("C20.3", "(%s, %s) -> %s ; (%s, %s) -> %s" % (a, b_, s1, b_, a, s2))
            ok = g1 == g2 and not (isinstance(g1, tuple) and g1[0] == "undecided")
            ctx.oblige(ok, "C20.3", "dispatch:%s,%s" % (a, b_),
                       "(%s, %s) is compared by %s but (%s, %s) by %s: the comparator is not antisymmetric for this pair of kinds, so the sort order "
                       "depends on the input order" % (a, b_, s1, b_, a, s2), nb.file)
    ctx.floor("C20.3", "unordered variant pairs decided", n3, 120)

    # ---- 4
    ob = ctx.body(ORDER_BY)
    closure = F.reach([ORDER_BY], stop=lambda x: not x.startswith("nervusdb_query"))
    sorts = [c for c in ob.calls() if c.name.split("::")[-1] in ("sort_by", "sort_unstable_by", "sort_by_key", "sort_by_cached_key", "sort", "sort_unstable")]
    ctx.instance("C20.4", "execute_order_by: sort calls %s; order_compare reachable=%s" % ([c.name.split("::")[-1] for c in sorts], OC in closure))
    ctx.oblige(bool(sorts) and OC in closure, "C20.4", "order-by-uses-order_compare",
               "execute_order_by does not sort through order_compare (it would use the derived, representation-level ordering of Value)", ob.file)
    stable = all(c.name.split("::")[-1] in ("sort_by", "sort_by_key", "sort_by_cached_key", "sort") for c in sorts)
    ctx.oblige(stable, "C20.4", "order-by-unstable-sort", "ORDER BY uses an unstable sort: rows with equal keys change their relative order between runs, so SKIP/LIMIT windows are not reproducible", ob.file)

    # ---- clause 5: integers are compared exactly ------------------------------------------------------
    # i64 values above 2^53 are not representable in f64: a comparator that converts both integers to f64 makes neighbours compare equal,
    # and the (stable) sort then leaves them in input order.  For the (Int, Int) pair the decision tree must end in the exact integer
    # comparison (`<i64 as Ord>::cmp`), never in a float conversion / float comparison helper.
    ctx.rule("C20.5", "(Int, Int) is ordered by the exact integer comparison (`<i64 as Ord>::cmp`); (Bool, Bool) by the bool comparison")
    for a, want in (("Int", "i64"), ("Bool", "bool")):
        g = out[(a, a)]
        name = g[1] if isinstance(g, tuple) else str(g)
        exact = isinstance(g, tuple) and g[0] == "call" and name.endswith("::cmp") and ("impl core::cmp::Ord for %s" % want in name or "<%s as core::cmp::Ord>" % want in name)
        ctx.instance("C20.5", "(%s, %s) is compared by %s" % (a, a, name))
        ctx.oblige(exact, "C20.5", "exact:%s" % a,
                   "(%s, %s) is ordered through %s instead of the exact %s comparison: integers beyond 2^53 that round to the same float compare as equal "
                   "and keep their input order" % (a, a, name.split("::")[-1], want), nb.file)

    # ---- clause 6: each ORDER BY key gets its own direction -------------------------------------------------------------
    # `ORDER BY a DESC, b` sorts b ascending: a key without ASC / DESC defaults to ascending, per key.  In the parser the direction value that
    # goes into an OrderByItem must therefore be (re)assigned on every path of the same loop iteration; a direction variable that lives
    # across iterations and is only overwritten when a keyword is present makes a bare key inherit the previous key's direction.
    ctx.rule("C20.6", "in parse_order_by the direction stored in an item is assigned on every path of the current loop iteration (no value carried over from the previous sort key)")
    pb = ctx.body("nervusdb_query::parser::TokenParser::parse_order_by")
    DIR = "nervusdb_query::ast::Direction"
    pushes = [c for c in pb.calls() if c.name.endswith("::push") and c.bb in pb.reachable(pb.succs(c.bb))]
    ctx.floor("C20.6", "item pushes in the ORDER BY loop", len(pushes), 1)
    for k, p in enumerate(pushes):
        cyc = pb.reachable(pb.succs(p.bb))
        # the loop head: the in-cycle block that dominates every other in-cycle block
        heads = [x for x in cyc if all(pb.dominates(x, y) for y in cyc)]
        head = heads[0] if heads else None
        carried = []
        for l in range(len(pb.locals)):
            if pb.local_ty(l) != DIR:
                continue
            ds = [x for x in pb.defs().get(l, []) if x[2] in ("assign", "call")]
            us = [u for u in pb.uses().get(l, []) if u[2] != "drop" and u[0] in cyc]
            if not us or head is None:
                continue
            # is there a path from the loop head to a use that passes no definition of l in this iteration?
            def_blocks = {x[0] for x in ds if x[0] in cyc}
            for u in us:
                if u[0] in def_blocks:
                    continue
                if head in def_blocks:
                    continue
                if u[0] in pb.reachable([head], avoid=def_blocks) or u[0] == head:
                    carried.append((pb.local_name(l) or "_%d" % l, u[0]))
        ctx.instance("C20.6", "parse_order_by push #%d: direction values that can reach the item unassigned in this iteration: %s" % (k, carried or "none"))
        ctx.oblige(not carried, "C20.6", "parse_order_by:direction-carried-over#%d" % k,
                   "the direction of a sort key can come from the previous loop iteration (%s): a key written without ASC / DESC inherits the previous key's "
                   "direction, so `ORDER BY a DESC, b` sorts b descending" % carried, pb.file)


PLAN = "nervusdb_query::executor::plan_types::Plan"
BACK = ("::truncate", "Iterator::take", "::pop", "::pop_back", "Iterator::take_while", "::step_by")
FRONT = ("Iterator::skip", "::drain", "Iterator::skip_while", "::pop_front", "::remove", "::swap_remove")


def window_rule(ctx, rid="C20.7"):
    """SKIP removes rows from the front and LIMIT from the back, wherever a Plan::Skip / Plan::Limit arm slices rows itself"""
    from .. import tables
    F = ctx.facts
    ctx.rule(rid, "every Plan::Skip arm (and execute_skip) uses no end-removing primitive (truncate / take / pop) and every Plan::Limit arm (and execute_limit) no "
             "front-removing one (skip / drain / remove): `skip` that keeps the right number of rows but drops them from the wrong end returns the wrong window")
    adt = ctx.adt(PLAN)
    names = [v["name"] for v in adt["variants"]]
    n = 0

    def judge(where, kind, calls, loc):
        bad = [c for c in calls if c.name.endswith(BACK if kind == "Skip" else FRONT) or c.declared.endswith(BACK if kind == "Skip" else FRONT)]
        ctx.instance(rid, "%s %s: %d calls, wrong-end primitives: %s" % (where, kind, len(calls), [c.name.split("::")[-1] for c in bad] or "none"))
        for c in bad:
            ctx.finding(rid, "%s:%s:%s:%s" % (rid, where, kind, c.name.split("::")[-1]),
                        "%s handles %s with `%s`, which removes rows from the %s: the window has the right size but the wrong rows" %
                        (where, kind.upper(), c.name.split("::")[-1], "end" if kind == "Skip" else "front"), c.loc())

    for i, b in sorted(F.bodies.items()):
        if not i.startswith("nervusdb_query::executor") or b.kind == "closure":
            continue
        sw = tables.enum_switch(b, PLAN, F)
        if not sw:
            continue
        for vi, tb in sw[1].items():
            if names[vi] not in ("Skip", "Limit"):
                continue
            region = tables.dominated_region(b, tb, sw[0])
            calls = [b.call_at(x) for x in region if b.call_at(x) is not None]
            n += 1
            judge(i.split("::")[-1], names[vi], calls, b.file)
    for fn, kind in (("nervusdb_query::executor::plan_tail::execute_skip", "Skip"), ("nervusdb_query::executor::plan_tail::execute_limit", "Limit")):
        b = ctx.body(fn)
        calls = list(b.calls())
        for cb in F.closures_of(fn):
            calls += list(cb.calls())
        n += 1
        judge(fn.split("::")[-1], kind, calls, b.file)
    ctx.floor(rid, "Skip / Limit handlers inspected", n, 10)


RW = "nervusdb_query::query_api::return_with::"


def distinct_order_rule(ctx, rid="C20.8"):
    """the planner puts DISTINCT below ORDER BY / SKIP / LIMIT: the window is cut from the distinct rows"""
    ctx.rule(rid, "in compile_return_plan / compile_with_plan the Plan::Distinct node is built before the OrderBy / Skip / Limit nodes (it becomes their input), "
             "so duplicates do not take up positions of the SKIP / LIMIT window")
    n = 0
    for fn in (RW + "compile_return_plan", RW + "compile_with_plan"):
        b = ctx.body(fn)
        built = {}
        for bi, blk in enumerate(b.blocks):
            if b.is_cleanup(bi):
                continue
            for st in blk["s"]:
                if st[0] == "a" and st[2][0] == "agg" and st[2][1] == "adt" and st[2][2] == PLAN and st[2][3] in ("Distinct", "OrderBy", "Skip", "Limit"):
                    built.setdefault(st[2][3], []).append(bi)
        short = fn.split("::")[-1]
        ctx.oblige(all(k in built for k in ("Distinct", "Skip", "Limit", "OrderBy")), rid, "%s:%s:nodes" % (rid, short),
                   "%s does not build all of Distinct / OrderBy / Skip / Limit (found %s)" % (short, sorted(built)), b.file)
        for later in ("OrderBy", "Skip", "Limit"):
            for d in built.get("Distinct", []):
                for x in built.get(later, []):
                    n += 1
                    after = d in b.reachable([x])
                    ctx.instance(rid, "%s: Distinct built %s %s" % (short, "after" if after else "before", later))
                    ctx.oblige(not after, rid, "%s:%s:distinct-after-%s" % (rid, short, later),
                               "%s wraps the %s node into Distinct: rows are sorted / sliced first and deduplicated afterwards, so `RETURN DISTINCT x ORDER BY x "
                               "LIMIT 2` over [1,1,2,3] returns [1] instead of [1,2]" % (short, later), "%s:%d" % (b.file, b.line_of_block(d)))
    ctx.floor(rid, "Distinct vs OrderBy / Skip / Limit construction pairs", n, 6)


def _split_tuple(ty):
    """top-level components of a tuple type string "(A, B)"; None when ty is not a tuple"""
    ty = ty.strip()
    if not (ty.startswith("(") and ty.endswith(")")):
        return None
    out, depth, cur = [], 0, ""
    for ch in ty[1:-1]:
        if ch in "(<[":
            depth += 1
        elif ch in ")>]":
            depth -= 1
        if ch == "," and depth == 0:
            out.append(cur.strip())
            cur = ""
        else:
            cur += ch
    if cur.strip():
        out.append(cur.strip())
    return out


def _place_ty(b, pl):
    """type of a place as far as '*' and tuple-field projections decide it; None when another projection is involved"""
    ty = b.local_ty(pl[0])
    for pr in pl[1]:
        if pr == "*":
            if ty.startswith("&mut "):
                ty = ty[5:]
            elif ty.startswith("&"):
                ty = ty[1:]
                if ty.startswith("'"):
                    ty = ty.split(" ", 1)[1] if " " in ty else ty
            else:
                return None
        elif isinstance(pr, list) and pr[0] == "f" and pr[-1] == "(tuple)":
            parts = _split_tuple(ty)
            if parts is None or pr[1] >= len(parts):
                return None
            ty = parts[pr[1]]
        else:
            return None
    return ty


def per_key_direction_rule(ctx, rid="C20.9"):
    """every ORDER BY key is compared under its own direction"""
    F = ctx.facts
    DIR = "nervusdb_query::ast::Direction"
    ctx.rule(rid, "in the ORDER BY comparator every test of a sort direction sits in the body that calls order_compare, on the same iteration "
             "(one dominates the other), and the direction tested is projected out of the same per-key element as the compared values "
             "(`ORDER BY a DESC, b` applies DESC to a only)")
    bodies = [ctx.body(ORDER_BY)] + [b for b in F.bodies.values() if b.root == ORDER_BY]

    def key_block(b, local):
        """block in which the element a value was projected from was bound (follows reborrows)"""
        o = b.origin(local)
        if o and o[0] == "place":
            base = o[1][0]
            ds = [d for d in b.defs().get(base, []) if d[2] in ("assign", "call")]
            if len(ds) == 1:
                return ("bb", ds[0][0])
            return ("place-bb", o[2])
        if o and o[0] == "call":
            return ("call", o[1].bb)
        if o and o[0] == "arg":
            return ("arg", o[1])
        return ("?", local)

    tests = []
    for b in bodies:
        cmps = [c for c in b.calls() if c.name == OC]
        for c in b.calls():
            if c.name.startswith("<%s as core::cmp::PartialEq>::" % DIR) and c.args and c.args[0][0] in ("c", "m"):
                tests.append((b, c.bb, c.args[0][1][0], cmps))
        for bi, blk in enumerate(b.blocks):
            if b.is_cleanup(bi):
                continue
            for st in blk["s"]:
                if st[0] == "a" and st[2][0] == "discr" and _place_ty(b, st[2][1]) == DIR:
                    pl = st[2][1]
                    tests.append((b, bi, pl, cmps))
    ctx.floor(rid, "direction tests in the ORDER BY comparator", len(tests), 1)
    for k, (b, bi, what, cmps) in enumerate(tests):
        short = b.id.split("execute_order_by")[-1] or "(fn)"
        where = "%s:%d" % (b.file, b.line_of_block(bi))
        same = [c for c in cmps if b.dominates(c.bb, bi) or b.dominates(bi, c.bb)]
        ctx.instance(rid, "direction test #%d in execute_order_by%s bb%d: order_compare calls on the same iteration: %d" % (k, short, bi, len(same)))
        if not ctx.oblige(bool(same), rid, "%s:direction-test-away-from-compare#%d" % (rid, k),
                          "execute_order_by%s tests a sort direction in a body / on a path with no order_compare call of the same iteration: the direction "
                          "applied is not the one of the key that decided the comparison (`ORDER BY a DESC, b` would sort b descending too)" % short, where):
            continue
        if isinstance(what, list):      # a discriminant read on a projected place: the element is the base local
            base = what[0]
            if all(p == "*" for p in what[1]):
                dk = key_block(b, base)
            else:
                ds = [d for d in b.defs().get(base, []) if d[2] in ("assign", "call")]
                dk = ("bb", ds[0][0]) if len(ds) == 1 else ("?", base)
        else:
            dk = key_block(b, what)
        vks = []
        for c in same:
            for a in c.args[:2]:
                if a[0] in ("c", "m"):
                    vks.append(key_block(b, a[1][0]))
        ctx.instance(rid, "direction test #%d: direction bound at %s, compared values bound at %s" % (k, dk, sorted(set(vks))))
        ctx.oblige(dk in vks, rid, "%s:direction-of-another-key#%d" % (rid, k),
                   "execute_order_by%s: the direction tested (%s) is not projected out of the per-key element whose values are compared (%s): "
                   "one key's direction decides the order of another key" % (short, dk, sorted(set(vks))), where)
