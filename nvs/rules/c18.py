"""C18 — Growing one structure never corrupts another (PROV + LAYER)."""
from .. import model as M
from .. import prov
from ..facts import op_local
from ..mirutil import site_key

EXPLANATION = (
    "Decides: (1) provenance of page addresses — every PageId passed to Pager::write_page / ensure_allocated derives from the allocator "
    "(allocate_page) or from a pointer stored by the owning structure, never from integer arithmetic on a page number (`start + k`): a computed "
    "address can land on a page the allocator gave to another structure. Tags flow through copies, PageId::new/as_u64 and, interprocedurally, "
    "through return-value summaries of workspace functions; (2) Pager::ensure_allocated (force-allocation of a caller-chosen page) is called only "
    "from pager.rs and the WAL page-replay helper. Page-content correctness is not decided."
    " C18.3: the B-tree reachability walk used by vacuum calls every primitive pointer accessor of an index page (the per-cell one inside a loop) and queues each result."
    " C18.4: every Pager method that sets an allocation bit also assigns Meta.next_page_id."
    " C18.5 (shared with C02.5): each success return after an allocation-bit change passes through flush_meta_and_bitmap — a page marked allocated only in memory is free again after reopen and is handed to another structure while it still holds live data."
)

TRANSPARENT = ("nervusdb_storage::pager::PageId::new", "nervusdb_storage::pager::PageId::as_u64", "core::convert::From::from",
               "core::convert::Into::into", "core::clone::Clone::clone", "core::option::Option::<T>::unwrap",
               "core::result::Result::<T, E>::unwrap", "core::ops::try_trait::Try::branch")
ARITH = {"Add", "Sub", "Mul", "AddWithOverflow", "SubWithOverflow", "MulWithOverflow", "AddUnchecked", "SubUnchecked", "MulUnchecked", "Shl", "Shr"}
ENSURE_ALLOWED = ("nervusdb_storage::pager::", "nervusdb_storage::wal::apply_op")


class Summ:
    def __init__(self, F):
        self.F = F
        self.memo = {}
        self.taints = {}

    def taint(self, b):
        t = self.taints.get(b.id)
        if t is None:
            self.cur = b
            t = prov.Taint(b, call_tag=lambda c, b=b: self.call_tag(b, c), call_passthrough=self.passthrough)
            self.taints[b.id] = t
        return t

    def binop_tag(self, op, ty):
        if op in ARITH and ty in ("u64", "usize", "u32"):
            return {"arith"}
        return None

    def passthrough(self, c):
        return c.declared in TRANSPARENT or c.name in TRANSPARENT

    def call_tag(self, b, c):
        if c.name == M.ALLOCATE_PAGE:
            return {"fresh"}
        if c.name == "nervusdb_storage::pager::PageId::new" and c.args:
            # arithmetic directly feeding the page number
            l = op_local(c.args[0])
            if l is not None:
                from ..mirutil import value_root
                r = value_root(b, l)
                sd = b.single_def(r)
                if sd and sd[2] == "assign":
                    rv = sd[3][2]
                    if rv[0] == "bin" and rv[1] in ARITH:
                        return {"arith"}
                    if rv[0] == "use" and rv[1][0] in ("c", "m") and rv[1][1][1]:
                        # `(_p.0)` of a checked-arithmetic pair
                        sd2 = b.single_def(rv[1][1][0])
                        if sd2 and sd2[2] == "assign" and sd2[3][2][0] == "bin" and sd2[3][2][1] in ARITH:
                            return {"arith"}
                if sd and sd[2] == "call":
                    cc = b.call_at(sd[0])
                    if cc and cc.name.split("::")[-1] in ("checked_add", "saturating_add", "wrapping_add", "checked_mul", "saturating_mul"):
                        return {"arith"}
            return None
        if c.name.endswith("::from_le_bytes") or c.name.endswith("::from_be_bytes"):
            return {"stored"}
        out = set()
        for t in self.F.call_targets(c):
            if t.startswith("nervusdb_storage::") and t in self.F.bodies:
                out |= self.ret_tags(t)
        return out or None

    def ret_tags(self, fn):
        if fn in self.memo:
            return self.memo[fn]
        self.memo[fn] = set()
        b = self.F.bodies[fn]
        rty = b.local_ty(0)
        if "PageId" not in rty and rty not in ("u64",):
            return self.memo[fn]
        tags = {x for x in self.taint(b).of_local(0) if not x.startswith("param:")}
        self.memo[fn] = tags
        return tags


def run(ctx):
    from .c02 import _bitmap_flush_rule
    _bitmap_flush_rule(ctx, "C18.5")
    F = ctx.facts
    ctx.rule("C18.1", "no page address passed to write_page / ensure_allocated derives from arithmetic on a page number")
    ctx.rule("C18.2", "Pager::ensure_allocated is called only from pager.rs and wal::apply_op")
    S = Summ(F)
    n = 0
    for i, b in sorted(F.bodies.items()):
        if not i.startswith(("nervusdb_storage", "<nervusdb_storage")):
            continue
        sites = [c for c in b.calls() if c.name in (M.WRITE_PAGE, M.ENSURE_ALLOCATED)]
        if not sites:
            continue
        t = S.taint(b)
        ctx.analysed_fns.add(i)
        for c in sites:
            n += 1
            tags = set(t.of_operand(c.args[1]))
            # expand parameters through callers
            for tg in list(tags):
                if tg.startswith("param:"):
                    tags.discard(tg)
                    tags |= prov.param_tags_via_callers(F, b, int(tg.split(":")[1]), S.taint, depth=3)
            ctx.instance("C18.1", "%s: %s target tags %s" % (i, site_key(c), sorted(tags)))
            ctx.oblige("arith" not in tags, "C18.1", "%s:%s:computed-page-address" % (i, site_key(c)),
                       "the page written here is addressed by arithmetic on a page number instead of an allocator result or stored pointer: "
                       "when the structure grows past its first page it overwrites pages owned by other structures", c.loc(),
                       sample={"fn": i, "site": c.loc(), "tags": sorted(tags)})
    ctx.floor("C18.1", "write_page / ensure_allocated sites", n, 20)
    for x in sorted(F.callers().get(M.ENSURE_ALLOCATED, ())):
        ctx.instance("C18.2", "ensure_allocated caller " + x)
        ctx.oblige(x.startswith(ENSURE_ALLOWED), "C18.2", "ensure_allocated-caller:" + x,
                   "force-allocation of a caller-chosen page id outside the pager / WAL page replay", F.bodies[x].file)
    complete_walk_rule(ctx, "C18.3")
    _c18_high_water(ctx)


def complete_walk_rule(ctx, rid):
    """shared by C18.3 and C28.6: the page-reachability walk of a B-tree follows every pointer an internal page stores"""
    F = ctx.facts
    ctx.rule(rid, "the B-tree reachability walk (what vacuum keeps) consumes every pointer accessor of an index page, the per-cell one inside a loop, and queues each result")
    PAGE = "nervusdb_storage::index::btree::Page"
    WALK = "nervusdb_storage::index::btree::BTree::mark_reachable_pages"
    wb = ctx.body(WALK)
    # pointer accessors = `&self` methods of Page whose return type mentions PageId; primitive = does not call another accessor
    acc = {}
    for i, b in F.bodies.items():
        if not i.startswith(PAGE + "::") or b.root or "::tests::" in i:
            continue
        if "PageId" in b.local_ty(0) and b.argc >= 1 and b.local_ty(1).startswith("&") and not b.local_ty(1).startswith("&mut"):
            acc[i] = b
    prim = sorted(i for i, b in acc.items() if not any(c.name in acc and c.name != i for c in b.calls()))
    ctx.floor(rid, "primitive pointer accessors of an index page", len(prim), 3)
    in_cycle = lambda bb: any(bb in wb.reachable([s]) for s in wb.succs(bb))
    pushes = [c for c in wb.calls() if c.name.endswith("::push_back")]
    for a in prim:
        calls = [c for c in wb.calls() if c.name == a]
        per_cell = F.bodies[a].argc >= 2  # takes a cell index
        queued = False
        for c in calls:
            # some push_back reachable from the call (before the walk loop re-enters the page read)
            region = wb.reachable([c.bb])
            if any(p.bb in region for p in pushes):
                queued = True
        # per-cell accessor must sit in an inner loop (a cycle that does not pass through the page read)
        looped = True
        if per_cell:
            reads = [c.bb for c in wb.calls() if c.name.endswith("Pager::read_page")]
            looped = any(c.bb in wb.reachable(wb.succs(c.bb), avoid=reads) for c in calls)
        ok = bool(calls) and queued and looped
        ctx.instance(rid, "%s: called %d time(s) by the walk, result queued=%s%s" % (a.split("::")[-1], len(calls), queued, (", once per cell=%s" % looped) if per_cell else ""))
        ctx.oblige(ok, rid, "walk-skips:%s" % a.split("::")[-1],
                   "the reachability walk does not follow `%s`: pages reachable only through that pointer are dropped by vacuum while the tree "
                   "still references them, and the allocator hands them to the next structure that grows" % a.split("::")[-1], wb.file)


def _c18_high_water(ctx):
    """C18.4: whoever marks a page allocated keeps the allocation high-water mark above it"""
    F = ctx.facts
    ctx.rule("C18.4", "every Pager method that sets an allocation bit keeps Meta.next_page_id above the page (assigns it in the same method): pages claimed by address — node table, WAL page replay — must not stay at or above the mark the allocator hands out from")
    SET = "nervusdb_storage::pager::Bitmap::set_allocated"
    n = 0
    for i, b in sorted(F.bodies.items()):
        if not i.startswith("nervusdb_storage::pager::Pager::") or "::tests::" in i or b.root:
            continue
        sets = []
        for c in b.calls():
            if c.name != SET or len(c.args) < 3:
                continue
            v = c.args[2]
            if v[0] == "k" and not v[1].get("v"):
                continue  # clearing a bit (free_page)
            sets.append(c)
        if not sets:
            continue
        n += 1
        writes = []
        for blk in b.blocks:
            for st in blk["s"]:
                if st[0] == "a" and any(isinstance(p, list) and p[0] == "f" and p[2] == "next_page_id" and str(p[3]).endswith("pager::Meta") for p in st[1][1]):
                    writes.append(st[3])
        ctx.instance("C18.4", "%s: sets an allocation bit; assigns Meta.next_page_id at lines %s" % (i.split("::")[-1], writes or "nowhere"))
        ctx.oblige(bool(writes), "C18.4", "%s:marks-without-raising-next_page_id" % i.split("::")[-1],
                   "%s marks a page allocated without keeping next_page_id above it: allocate_page hands out next_page_id without looking at its bit, so the "
                   "next structure that grows receives a page another structure already owns" % i.split("::")[-1], b.file)
    ctx.floor("C18.4", "Pager methods that set allocation bits", n, 1)
