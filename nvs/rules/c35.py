"""C35 — Concurrent use never deadlocks (LOCKS: lock-order graph)."""
from .. import locks
from .. import model as M

EXPLANATION = (
    "Decides: the lock-order graph over all lock classes of the workspace (class = the lock's type; edges = `acquired while holding`, from every "
    "acquisition site and, interprocedurally, from the transitive acquisition summary of every callee invoked while a guard is alive) has no cycle "
    "and no re-acquisition of a held class, after discounting edge pairs that are gated: both edges are only ever taken while a common third lock is "
    "held on every call path from the covered API surface (nervusdb::Db / DbSnapshot / WriteTxn, the C API, the CLI and Python bindings). "
    "Methods of a WriteTxn start with the writer lock held (the transaction owns its guard). Paths that enter the storage crate's public methods "
    "directly, without the facade, are listed as observations. Progress under OS scheduling and condition-variable style waits are not decided."
)

WRITE_LOCK = "Mutex<()>"
TXN_TYPES = ("nervusdb_storage::engine::WriteTxn", "nervusdb::WriteTxn")


def entry_points(F):
    roots = []
    for i, b in F.bodies.items():
        if b.kind == "closure":
            continue
        if b.no_mangle and i.startswith("nervusdb_capi"):
            roots.append(i)
        elif i.startswith(("nervusdb::", "<nervusdb::")) and b.is_pub:
            roots.append(i)
        elif i.startswith("nervusdb::") and b.impl_trait:
            roots.append(i)
        elif i.startswith(("nervusdb_cli::main", "nervusdb_pyo3::")) and b.is_pub:
            roots.append(i)
    return sorted(set(roots))

WITNESSES = ["TransactionBorrowsHandle"]


def run(ctx):
    F = ctx.facts
    ctx.rule("C35.1", "the lock-order graph has no ungated cycle")
    ctx.rule("C35.2", "no lock class is re-acquired while held")
    entry_held = {}
    for i, b in F.bodies.items():
        st = (b.self_ty or "").split("<")[0]
        if st in TXN_TYPES and b.kind != "closure":
            entry_held[i] = [(WRITE_LOCK, "lock", ("write_lock", M.ENGINE))]
    G = locks.LockGraph(F, entry_held=entry_held)
    classes = sorted({a.cls for bl in G.bl.values() for a in bl.acqs})
    ctx.floor("C35.1", "lock classes", len(classes), 12)
    ctx.floor("C35.1", "bodies with acquisitions", len(G.bl), 30)
    roots = entry_points(F)
    ctx.floor("C35.1", "API entry points", len(roots), 80)
    reach = F.reach(roots)

    # must-held-on-entry (intersection over call sites reachable from the API surface)
    TOP = None
    must = {r: set() for r in roots}
    for i in entry_held:
        must[i] = {WRITE_LOCK}
    changed = True
    rounds = 0
    site_held = {}

    def held_at(cid, c):
        bl = G.locks_of(cid)
        hs = set()
        if bl is not None:
            for a in bl.acqs:
                if c.bb in a.region and a.call.bb != c.bb and bl.must_hold(a, c.bb):
                    hs.add(a.cls)
        return hs

    callers = F.callers()
    order = sorted(x for x in reach if x in F.bodies)
    while changed and rounds < 30:
        changed = False
        rounds += 1
        for f in order:
            if f in roots and f not in entry_held:
                continue
            acc = TOP
            for cid in callers.get(f, ()):
                if cid not in reach or cid not in must:
                    continue
                cb = F.bodies[cid]
                for c in cb.calls():
                    tg = F.call_targets(c)
                    if f in tg or any(x == f for x in [k.get("fn") for k in [a[1] for a in c.args if a[0] == "k"]]):
                        hs = must[cid] | held_at(cid, c)
                        acc = hs if acc is None else (acc & hs)
                # closures defined in cid inherit the held set at their creation (approximation: function entry)
                if F.bodies[f].kind == "closure" and F.bodies[f].parent == cid:
                    hs = set(must[cid])
                    acc = hs if acc is None else (acc & hs)
            if f in entry_held:
                acc = (acc or set()) | {WRITE_LOCK}
            if acc is None:
                continue
            if must.get(f) != acc:
                must[f] = acc
                changed = True

    pairs = G.order_pairs()
    for (hc, ac), sites in sorted(pairs.items()):
        ctx.instance("C35.1", "%s -> %s (%d sites, e.g. %s)" % (hc, ac, len(sites), sites[0][3]))
    cycles = G.cycles()
    for cyc in cycles:
        # gate: a class outside the cycle held at every edge site of the cycle
        common = None
        n_sites = 0
        ungated_sites = []
        for k in range(len(cyc)):
            a, b = cyc[k], cyc[(k + 1) % len(cyc)]
            for (hm, am, body_id, loc, via) in pairs.get((a, b), []):
                if body_id not in reach and (F.bodies[body_id].root or body_id) not in reach:
                    continue
                n_sites += 1
                bl = G.locks_of(body_id)
                eff = set(must.get(body_id, set()) or set()) | set(must.get(F.bodies[body_id].root or body_id, set()) or set())
                # locks held at this very site
                for (hc2, hm2, ac2, am2, b2, loc2, via2) in G.edges:
                    if b2 == body_id and loc2 == loc:
                        eff.add(hc2)
                eff -= set(cyc)
                if not eff:
                    ungated_sites.append("%s @%s" % (body_id, loc))
                common = eff if common is None else (common & eff)
        gated = bool(common) and not ungated_sites
        ctx.instance("C35.1", "cycle %s: %d API-reachable sites, common gate %s" % (" -> ".join(cyc), n_sites, sorted(common or [])))
        if gated:
            ctx.observe("gated lock-order cycle %s (both directions only under %s)" % (" <-> ".join(cyc), sorted(common)))
            ctx.oblige(True, "C35.1", "cycle:" + "<->".join(cyc), "")
        else:
            ctx.oblige(False, "C35.1", "cycle:" + "<->".join(cyc),
                       "lock classes are acquired in both orders on API-reachable paths with no common gate: two threads can wait on each other "
                       "forever (%s)" % ungated_sites[:3], "", sample={"cycle": cyc, "ungated_sites": ungated_sites[:6]})
    if not cycles:
        ctx.oblige(True, "C35.1", "acyclic", "")
    # storage-crate public paths that bypass the gate: observation
    for cyc in cycles:
        ctx.observe("nervusdb_storage::GraphEngine::get_or_create_label is a public method of the storage crate; calling it without a WriteTxn "
                    "is outside the covered API surface") if "Mutex<LabelInterner>" in cyc else None

    # ---- clause 2: re-acquisition
    for (hc, ac), sites in sorted(pairs.items()):
        if hc != ac:
            continue
        for (hm, am, body_id, loc, via) in sites:
            if hm == "read" and am == "read":
                ctx.observe("read lock of %s re-acquired while a read guard is alive at %s (can deadlock only with a queued writer)" % (hc, loc))
                continue
            ctx.instance("C35.2", "%s re-acquired (%s while %s) at %s via %s" % (hc, am, hm, loc, via))
            ctx.oblige(False, "C35.2", "reacquire:%s:%s:%s" % (hc, body_id, (via or "direct").split("::")[-1]),
                       "a non-reentrant lock is acquired again while its guard is still alive: the thread deadlocks with itself", loc,
                       sample={"class": hc, "fn": body_id, "via": via})
    ctx.instance("C35.2", "%d distinct held->acquired class pairs examined" % len(pairs))
    ctx.obligations += len(pairs)
    ctx.discharged += len(pairs)
