"""C19 — WHERE partitions rows by truth value: the three structural halves of the law (TRUTH + PATH)."""
from .. import truth
from ..core import AnchorLost
from ..facts import op_local

EXPLANATION = (
    "For a predicate p that evaluates (deterministically) to v, `WHERE p` / `WHERE NOT p` / `WHERE p IS NULL` partition the rows exactly when "
    "(1) the filter keeps a row iff the predicate's value is Bool(true) — every other variant, null included, drops it; (2) NOT maps true->false, "
    "false->true, null->null; (3) IS NULL is true exactly for the Null variant and IS NOT NULL is its negation; (4) the filter forwards upstream "
    "errors and yields each kept row once. Each of the four is decided on the code's shape: (1)-(3) by walking the MIR decision tree of the match "
    "once per operand variant (TRUTH, no execution), (4) on the CFG of FilterIter::next. Not decided: that evaluation of p is deterministic across "
    "the three queries, and that predicates pushed down into match / index plans are equivalent to the residual filter (C15 covers the index side)."
    " C19.1 also requires that the conversion cannot be bypassed (no return that avoids it, no other evaluator entry called). C19.5: inline pattern properties overwrite WHERE-derived hints in the match compiler's predicate map."
)
ASSUMPTIONS = ["predicates evaluate deterministically for a fixed row and snapshot (no clause decides this)"]

VAL = "nervusdb_query::executor::core_types::Value"
EV = "nervusdb_query::evaluator::evaluate_expression_value"
EB = "nervusdb_query::evaluator::evaluate_expression_bool"
FILTER_NEXT = "<nervusdb_query::executor::plan_iterators::FilterIter<'a, S> as core::iter::traits::iterator::Iterator>::next"


def run(ctx):
    F = ctx.facts
    ctx.rule("C19.1", "the predicate-to-bool conversion keeps exactly Bool(true): decided for every Value variant")
    ctx.rule("C19.2", "FilterIter::next returns the row only on the true arm of that conversion, loops on the false arm, forwards Err and end-of-input")
    ctx.rule("C19.3", "NOT, IS NULL and IS NOT NULL follow their tables for every Value variant")
    ctx.rule("C19.4", "every row-retention decision of the filter goes through the one conversion (single caller set)")
    vadt = ctx.adt(VAL)
    dmap = {v["name"]: v["discr"] for v in vadt["variants"]}
    discr_of = dict(dmap)
    discr_of["other"] = dmap["Int"]

    # ---- 1: evaluate_expression_bool ----
    eb = ctx.body(EB)
    call = [c for c in eb.calls() if c.name == EV]
    if len(call) != 1 or call[0].target is None:
        raise AnchorLost("evaluate_expression_bool no longer converts the result of evaluate_expression_value")
    dl = call[0].dest[0]
    # the conversion is the only way to a result: no path from the entry to a return that avoids it (a "fast path" deciding some operator
    # shapes on its own — e.g. short-circuit AND / OR / XOR with null collapsed to false — re-implements three-valued logic differently)
    rets1 = {bi for bi, blk in enumerate(eb.blocks) if blk["t"][0] == "ret"}
    bypass = (rets1 & eb.reachable([0], avoid=[call[0].bb])) if call[0].bb != 0 else set()
    others = [c for c in eb.calls() if c.name.startswith("nervusdb_query::") and c.name != EV]
    ctx.instance("C19.1", "evaluate_expression_bool: returns reachable without evaluating the predicate as a value: %d; other evaluator calls: %s" % (len(bypass), [c.name.split("::")[-1] for c in others]))
    ctx.oblige(not bypass and not others, "C19.1", "bool-of:bypass",
               "evaluate_expression_bool can produce its result without converting the three-valued value of the whole predicate (%s): WHERE then "
               "disagrees with NOT / IS NULL, which evaluate the same predicate as a value" % ([c.name.split("::")[-1] for c in others] or "early return"), eb.file)
    for name in dmap:
        cases = [("T", "T"), ("F", "F")] if name == "Bool" else [(("N" if name == "Null" else name), "F")]
        for a, want in cases:
            try:
                got = truth.eval_match(eb, call[0].target, {(dl, None): "v"}, {"v": a}, discr_of)
            except truth.Undecided as e:
                got = ("undecided", str(e))
            shown = {"T": "Bool(true)", "F": "Bool(false)", "N": "Null"}.get(a, a)
            ctx.instance("C19.1", "predicate value %s -> keep=%s" % (shown, got))
            ctx.oblige(got == want, "C19.1", "bool-of:%s" % shown,
                       "a predicate evaluating to %s is converted to keep=%s (must be %s): rows are kept by WHERE although the predicate is not true, "
                       "or dropped although it is" % (shown, got, want), eb.file)
    ctx.floor("C19.1", "variants decided", len(ctx.instances["C19.1"]), 17)

    # ---- 2: FilterIter::next ----
    fb = ctx.body(FILTER_NEXT)
    ebc = [c for c in fb.calls() if c.name == EB]
    if len(ebc) != 1 or ebc[0].target is None:
        raise AnchorLost("FilterIter::next no longer calls evaluate_expression_bool exactly once")
    pc = ebc[0]
    hdr = [c.bb for c in fb.calls() if c.name.endswith("::next") and fb.dominates(c.bb, pc.bb)]
    if not hdr:
        raise AnchorLost("FilterIter::next: input.next() call not found")
    hdr = hdr[-1]
    # the switch on `pass`
    sw = None
    for bi in sorted(fb.reachable([pc.target], avoid=[hdr])):
        t_ = fb.blocks[bi]["t"]
        if t_[0] == "switch":
            l = op_local(t_[1])
            if l is not None and (l == pc.dest[0] or (fb.origin(l) and fb.origin(l)[0] == "call" and fb.origin(l)[1] is pc)):
                sw = t_
                break
    if sw is None:
        raise AnchorLost("FilterIter::next: no branch on the result of evaluate_expression_bool")
    t_false = [tb for v, tb in sw[2] if v == 0]
    t_true = sw[3]
    rets = {bi for bi, blk in enumerate(fb.blocks) if blk["t"][0] == "ret"}
    false_region = fb.reachable(t_false, avoid=[hdr])
    true_region = fb.reachable([t_true], avoid=[hdr])
    ok_false = bool(t_false) and not (false_region & rets) and hdr in fb.reachable(t_false)
    ok_true = bool(true_region & rets)
    ctx.instance("C19.2", "false arm: loops back to input.next() without returning=%s; true arm returns=%s" % (ok_false, ok_true))
    ctx.oblige(ok_false, "C19.2", "false-arm-returns", "a row whose predicate is not true can be returned by the filter (the false arm reaches a return without fetching the next row)", fb.file)
    ctx.oblige(ok_true, "C19.2", "true-arm-does-not-return", "a row whose predicate is true is not returned by the filter", fb.file)
    # the row returned on the true arm is the input row: Some(Ok(row)) aggregate built from the local bound by the Some(Ok(row)) pattern
    from .. import errflow
    drops = errflow.scan(F, fb)
    ctx.instance("C19.2", "error-discarding constructs in FilterIter::next: %d" % len(drops))
    ctx.oblige(not drops, "C19.2", "filter-drops-errors", "FilterIter::next discards an upstream or evaluation error: %s" % [d["kind"] for d in drops], fb.file)

    # ---- 3: NOT / IS NULL / IS NOT NULL ----
    ev = ctx.body(EV)
    bop = {v["name"]: v["discr"] for v in ctx.adt("nervusdb_query::ast::BinaryOperator")["variants"]}
    uop = {v["name"]: v["discr"] for v in ctx.adt("nervusdb_query::ast::UnaryOperator")["variants"]}
    start = truth.operator_arm(ev, "UnaryExpression", uop["Not"])
    sl = truth.scrutinee_local(ev, start) if start is not None else None
    if start is None or sl is None:
        raise AnchorLost("match for UnaryOperator::Not not found")
    for a, want in (("T", "F"), ("F", "T"), ("N", "N")):
        try:
            got = truth.eval_match(ev, start, {(sl, None): "v"}, {"v": a}, discr_of)
        except truth.Undecided as e:
            got = ("undecided", str(e))
        ctx.instance("C19.3", "NOT %s = %s" % (a, got))
        ctx.oblige(got == want, "C19.3", "Not:%s" % a, "NOT %s evaluates to %s (expected %s): WHERE NOT p does not select the rows where p is false" % (a, got, want), ev.file)
    for opname, null_want in (("IsNull", "T"), ("IsNotNull", "F")):
        start = truth.operator_arm(ev, "BinaryExpression", bop[opname])
        sl = truth.scrutinee_local(ev, start) if start is not None else None
        if start is None or sl is None:
            raise AnchorLost("arm for BinaryOperator::%s not found" % opname)
        for name in dmap:
            for a in (("T", "F") if name == "Bool" else (("N",) if name == "Null" else (name,))):
                want = null_want if a == "N" else ("F" if null_want == "T" else "T")
                try:
                    got = truth.eval_match(ev, start, {(sl, None): "v"}, {"v": a}, discr_of)
                except truth.Undecided as e:
                    got = ("undecided", str(e))
                ctx.instance("C19.3", "%s(%s) = %s" % (opname, a, got))
                ctx.oblige(got == want, "C19.3", "%s:%s" % (opname, a),
                           "%s of a %s value evaluates to %s (expected %s): the null partition of WHERE loses or duplicates rows" % (opname, a, got, want), ev.file)
    ctx.floor("C19.3", "table rows decided", len(ctx.instances["C19.3"]), 37)

    # ---- 4: one conversion ----
    callers = sorted(F.callers().get(EB, ()))
    ctx.instance("C19.4", "callers of evaluate_expression_bool: %s" % [c.split("::")[-2:] for c in callers])
    ctx.oblige(FILTER_NEXT in callers, "C19.4", "filter-uses-conversion", "FilterIter no longer decides through evaluate_expression_bool", fb.file)

    # ---- 5: inline pattern properties are hard constraints -----------------------------------------------
    # The match compiler keeps one expression per (alias, property key) in the predicate map that feeds the pattern's filter.  The map is
    # pre-seeded with *hints* extracted from a following WHERE (`alias.key = literal`), which is re-applied in full afterwards; the
    # inline `{key: value}` map of the pattern has no other enforcement.  So inline entries must be written unconditionally (overwriting a
    # hint): an insert-if-absent lets a conflicting WHERE equality drop the inline constraint — for `WHERE p` only, not for `WHERE NOT p`
    # or `p IS NULL`, which produce no hint — and the three filtered queries then run over different row sets.
    ctx.rule("C19.5", "inline pattern properties overwrite WHERE-derived hints in the match compiler's predicate map (unconditional insert, never insert-if-absent)")
    EP = "nervusdb_query::query_api::match_compile::extend_predicates_from_properties"
    eb5 = ctx.body(EP)
    INNER = "BTreeMap<alloc::string::String, nervusdb_query::ast::Expression"
    inserts = []
    conditional = []
    for c in eb5.calls():
        tys = [eb5.local_ty(a[1][0]) for a in c.args if a[0] in ("c", "m")]
        short = c.name.split("::")[-1]
        if short == "insert" and tys and INNER in tys[0]:
            inserts.append(c)
        # Entry<'_, String, Expression>::or_insert* / try_insert on the inner map: insert-if-absent
        if short in ("or_insert", "or_insert_with", "or_insert_with_key", "try_insert") and tys and (
                ("Entry<" in tys[0] and tys[0].rstrip(">").endswith("alloc::string::String, nervusdb_query::ast::Expression")) or (short == "try_insert" and INNER in tys[0])):
            conditional.append(c)
    in_loop = [c for c in inserts if c.bb in eb5.reachable(eb5.succs(c.bb))]
    # the insert must not be control dependent on a lookup of the same map
    guarded = []
    for c in in_loop:
        for g in eb5.calls():
            if g.name.split("::")[-1] in ("contains_key", "get", "get_mut") and eb5.dominates(g.bb, c.bb) and g.bb in eb5.reachable(eb5.succs(c.bb)):
                tys = [eb5.local_ty(a[1][0]) for a in g.args if a[0] in ("c", "m")]
                if tys and INNER in tys[0]:
                    guarded.append(g)
    # the same discipline one level up: no function of the match compiler supplies a whole per-alias map only when the alias is absent
    outer = []
    for i5, b5 in sorted(F.bodies.items()):
        if not i5.startswith("nervusdb_query::query_api::match_compile"):
            continue
        for c in b5.calls():
            short = c.name.split("::")[-1]
            tys = [b5.local_ty(a[1][0]) for a in c.args if a[0] in ("c", "m")]
            if short in ("or_insert", "or_insert_with", "or_insert_with_key", "try_insert") and tys and "Entry<" in tys[0] and INNER in tys[0]:
                outer.append(c)
    for c in outer:
        ctx.finding("C19.5", "inline-properties-not-authoritative:alias-map:%s" % (c.body.root or c.body.id).split("::")[-1],
                    "a whole map of inline pattern properties is supplied for an alias only when the alias has no entry yet: WHERE-derived hints for that alias "
                    "(pre-seeded) then replace the inline constraints instead of being merged with them", c.loc())
    ctx.instance("C19.5", "extend_predicates_from_properties: unconditional inserts in the loop=%d, insert-if-absent calls=%d, lookups guarding the insert=%d; insert-if-absent of whole alias maps in the match compiler=%d" % (len(in_loop), len(conditional), len(guarded), len(outer)))
    ctx.oblige(bool(in_loop) and not conditional and not guarded, "C19.5", "inline-properties-not-authoritative",
               "an inline pattern property is added only when the key is absent: a conflicting WHERE equality on the same key (pre-seeded as a hint) silently "
               "drops the inline constraint for `WHERE p` but not for `WHERE NOT p` / `p IS NULL`", eb5.file)
