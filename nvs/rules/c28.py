"""C28 — Vacuum preserves the database (TABLES + SIBLINGS + PATH)."""
from .. import model as M
from .. import paths, siblings
from ..facts import op_const, op_local

EXPLANATION = (
    "Decides: (1) duplicated layout knowledge agrees with its owner — constants re-declared inside vacuum.rs equal the owning module's constants "
    "(CSR magic, blob header size, i2e record size), and the constant byte ranges vacuum reads from a CSR meta page are ranges the owner's decoder "
    "(csr::decode_segment) reads, with the same page-list base offset; (2) reachability marks every page list a segment owns (as many `*_page_count` "
    "lists as the owner's decoder reads) and vacuum selects WAL roots with the same epoch comparisons as recovery (scan_wal_roots ~ scan_recovery_state); "
    "(3) PATH — the copy is synced before the original is renamed away, and target->backup precedes tmp->target. Logical equality of content is not decided."
    " C28.6 = C18.3: the B-tree reachability walk follows every pointer an internal page stores."
    " C28.7: every Ok return of csr::segment_data_page_ids passes through decode_page_lists, the decoder CsrSegment::load uses."
    " C28.8: the largest per-page data length accepted by each reader of blob pages (BlobStore::read and vacuum's mark_blob_chain; the test is normalised as a linear inequality over the decoded length) equals the chunk size BlobStore::write fills pages with."
)

V = "nervusdb_storage::vacuum::"
OWNERS = {"META_MAGIC": "nervusdb_storage::csr::META_MAGIC", "HEADER_SIZE": "nervusdb_storage::blob_store::HEADER_SIZE",
          "MAX_DATA_PER_PAGE": "nervusdb_storage::blob_store::MAX_DATA_PER_PAGE", "I2E_RECORD_SIZE": "nervusdb_storage::idmap::I2E_RECORD_SIZE"}
RANGE = "core::ops::range::Range"


def const_ranges(b):
    out = set()
    for blk in b.blocks:
        for st in blk["s"]:
            if st[0] == "a" and st[2][0] == "agg" and st[2][2] == RANGE and len(st[2][4]) == 2:
                k0, k1 = op_const(st[2][4][0]), op_const(st[2][4][1])
                if k0 and k1 and k0.get("v") is not None and k1.get("v") is not None:
                    out.add((k0["v"], k1["v"]))
    return out


def named_usize_inits(b, names):
    out = set()
    for blk in b.blocks:
        for st in blk["s"]:
            if st[0] == "a" and not st[1][1] and b.local_name(st[1][0]) in names and st[2][0] == "use" and st[2][1][0] == "k":
                v = st[2][1][1].get("v")
                if v is not None:
                    out.add(v)
    return out


def page_count_locals(b):
    return sorted({n for _, n in b.locals if n and n.endswith("_page_count")})


def cval(F, k):
    c = F.consts.get(k)
    if c is None:
        return None
    return c.get("v", c.get("d"))


def run(ctx):
    F = ctx.facts
    ctx.rule("C28.1", "layout constants and byte ranges duplicated in vacuum.rs agree with the owning module")
    blob_len_rule(ctx)
    ctx.rule("C28.2", "vacuum marks every page list a segment owns and selects WAL roots like recovery does")
    ctx.rule("C28.3", "copy is synced before the original is replaced; rename order target->backup then tmp->target")
    ctx.rule("C28.5", "the vacuumed file's next_page_id derives from the largest reachable page id (not from a page count)")
    ctx.rule("C28.4", "reachability marking consumes every root kind: all WalRoots fields, the node table, the index catalog and its trees")

    dups = sorted(k for k in F.consts if k.startswith(V))
    ctx.floor("C28.1", "constants declared in vacuum.rs", len(dups), 3)
    for k in dups:
        short = k.split("::")[-1]
        owner = OWNERS.get(short)
        if owner is None:
            others = [o for o in F.consts if o.split("::")[-1] == short and not o.startswith(V) and o.startswith("nervusdb_storage::")]
            if others:
                ctx.oblige(False, "C28.1", "%s:unclassified-duplicate" % k, "constant duplicated in vacuum.rs has no owner entry in the checker table: %s" % others, "")
            continue
        a, b = cval(F, k), cval(F, owner)
        ctx.instance("C28.1", "%s = %r ; owner %s = %r" % (k.split("vacuum::")[1], a, owner.split("nervusdb_storage::")[1], b))
        ctx.oblige(a is not None and a == b, "C28.1", "%s!=%s" % (k.split("vacuum::")[1], owner.split("nervusdb_storage::")[1]),
                   "vacuum re-declares %s = %r but the owning module uses %r: vacuum %s" % (short, a, b,
                   "rejects every compacted database (`invalid csr meta magic`)" if short == "META_MAGIC" else "mis-parses the structure"),
                   "nervusdb-storage/src/vacuum.rs", sample={"vacuum_const": k, "value": a, "owner": owner, "owner_value": b})
    vb = ctx.body(V + "mark_csr_segment_pages")
    # owner of the CSR page-list layout: the csr.rs function(s) that read `*_page_count` fields
    owners = [x for i, x in sorted(F.bodies.items()) if i.startswith("nervusdb_storage::csr::") and page_count_locals(x)]
    ctx.floor("C28.1", "csr.rs functions decoding page lists", len(owners), 1)
    db = owners[0]
    ctx.analysed_fns.add(db.id)
    delegates = sorted({c.name for c in vb.calls() if c.name.startswith("nervusdb_storage::csr::")})
    vr, dr = const_ranges(vb), const_ranges(db) | const_ranges(ctx.body("nervusdb_storage::csr::decode_segment"))
    own_parse = bool(page_count_locals(vb)) or bool(vr - {(0, 8)})
    ctx.instance("C28.1", "vacuum CSR marking: delegates to %s; own layout parsing=%s" % (delegates or "nothing", own_parse))
    if own_parse:
        extra = sorted(r for r in vr if r not in dr)
        ctx.instance("C28.1", "vacuum reads CSR meta ranges %s; owner decoder reads %s" % (sorted(vr), sorted(dr)))
        ctx.oblige(not extra, "C28.1", "mark_csr_segment_pages:meta-ranges-not-in-owner-layout",
                   "vacuum reads CSR meta-page fields at byte ranges %s that the segment decoder does not use (layout drift: wrong page counts, pages "
                   "of live segments dropped)" % extra, vb.file, sample={"vacuum_only_ranges": extra})
        vbase, dbase = named_usize_inits(vb, ("off", "offset")), named_usize_inits(db, ("off", "offset"))
        ctx.instance("C28.1", "page-list base offset: vacuum %s owner %s" % (sorted(vbase), sorted(dbase)))
        ctx.oblige(vbase == dbase and vbase, "C28.1", "mark_csr_segment_pages:list-base-offset",
                   "vacuum starts reading the page lists at offset %s, the segment decoder at %s" % (sorted(vbase), sorted(dbase)), vb.file)
    else:
        ctx.oblige(bool(delegates), "C28.1", "mark_csr_segment_pages:no-page-source",
                   "vacuum neither parses the segment meta page nor asks csr.rs for the segment's pages: segment data pages are not marked", vb.file)

    # ---- clause 2
    dl = page_count_locals(db)
    ctx.floor("C28.2", "page lists read by the segment decoder", len(dl), 4)
    if own_parse:
        vl = page_count_locals(vb)
        ctx.instance("C28.2", "page lists: vacuum marks %s; segment decoder reads %s" % (vl, dl))
        ctx.oblige(len(vl) == len(dl), "C28.2", "mark_csr_segment_pages:page-lists-unmarked",
                   "a segment owns %d page lists (%s) but vacuum marks only %d (%s): the unmarked lists' pages are dropped by the copy" % (len(dl), dl, len(vl), vl),
                   vb.file, sample={"marked": vl, "owned": dl})
    else:
        # the delegate must hand back all the lists the owner decodes: its result's backward slice covers each list
        ok = False
        for d in delegates:
            dbody = F.bodies.get(d)
            if dbody is None:
                continue
            n_ext = len([c for c in dbody.calls() if c.name.endswith("::extend") or c.name.endswith("::push") or c.name.endswith("::extend_from_slice")])
            calls_owner = any(c.name == db.id for c in dbody.calls())
            tuple_fields = len(dl)
            ctx.instance("C28.2", "%s: calls owner=%s, combines %d lists (owner decodes %d)" % (d, calls_owner, n_ext + 1, tuple_fields))
            if calls_owner and n_ext + 1 >= tuple_fields:
                ok = True
        ctx.oblige(ok, "C28.2", "mark_csr_segment_pages:page-lists-unmarked",
                   "the csr.rs function vacuum relies on does not return every page list the segment decoder reads (%s)" % dl, vb.file)
    sa = ctx.body(V + "scan_wal_roots")
    sb = ctx.body("nervusdb_storage::engine::scan_recovery_state")
    fa = {f for f in siblings.features(F, sa, []) if f[0] == "cmp" and f[2] == "u64" and f[1] in ("Ge", "Gt", "Eq", "Le", "Lt")}
    fb = {f for f in siblings.features(F, sb, []) if f[0] == "cmp" and f[2] == "u64" and f[1] in ("Ge", "Gt", "Eq", "Le", "Lt")}
    ctx.instance("C28.2", "epoch comparisons: vacuum %s recovery %s" % (sorted(fa), sorted(fb)))
    ctx.oblige(fa == fb, "C28.2", "scan_wal_roots~scan_recovery_state:epoch-comparisons",
               "vacuum selects the live manifest/checkpoint with different epoch comparisons than recovery (%s vs %s): it marks roots that open will not load"
               % (sorted(fa), sorted(fb)), sa.file)

    # ---- clause 3
    b = ctx.body(V + "vacuum_in_place")
    renames = sorted(b.calls_named(M.FS_RENAME), key=lambda c: (c.line, c.bb))
    copy = [c for c in b.calls() if c.name == M.PAGER + "::write_vacuum_copy"]
    ctx.floor("C28.3", "rename sites in vacuum_in_place", len(renames), 2)
    ctx.floor("C28.3", "copy sites", len(copy), 1)
    wc = ctx.body(M.PAGER + "::write_vacuum_copy")
    writes = [c for c in wc.calls() if c.name == M.WRITE_PAGE_RAW]
    syncs = [c.bb for c in wc.calls() if c.name in M.FILE_SYNC]
    for w in writes:
        rets = paths.success_returns_reachable(wc, [w.target], avoid=syncs)
        ctx.instance("C28.3", "write_vacuum_copy: write_page_raw#%d synced before return=%s" % (w.ordinal, not rets))
        ctx.oblige(not rets, "C28.3", "write_vacuum_copy:write#%d-unsynced" % w.ordinal,
                   "the vacuum copy can return without syncing a page it wrote; the original is then renamed away", w.loc())
    if renames and copy:
        first = renames[0]
        okc = paths.ok_arm(b, copy[0])
        ctx.instance("C28.3", "first rename dominated by Ok(write_vacuum_copy)")
        ctx.oblige(okc is not None and b.dominates(okc, first.bb), "C28.3", "vacuum_in_place:rename-before-copy-complete",
                   "the original database file can be renamed away before the compacted copy is completely written and synced", first.loc())
        if len(renames) >= 2:
            ok1 = paths.ok_arm(b, renames[0])
            ctx.instance("C28.3", "rename order: #0 (target->backup) dominates #1 (tmp->target)")
            ctx.oblige(ok1 is not None and b.dominates(ok1, renames[1].bb), "C28.3", "vacuum_in_place:rename-order",
                       "tmp->target is not ordered after a successful target->backup rename", renames[1].loc())

    # ---- clause 4
    mb = ctx.body(V + "mark_reachable_pages")
    wr = ctx.adt("nervusdb_storage::vacuum::WalRoots")
    fields = [f[0] for f in wr["variants"][0]["fields"] if f[0] != "manifest_epoch"]
    read = set()
    for blk in mb.blocks:
        for st in blk["s"]:
            if st[0] == "a":
                from ..facts import rvalue_operands
                pls = []
                rv = st[2]
                if rv[0] in ("ref", "rawptr"):
                    pls.append(rv[2] if rv[0] == "ref" else rv[1])
                else:
                    pls += [o[1] for o in rvalue_operands(rv) if o[0] in ("c", "m")]
                for pl in pls:
                    for pr in pl[1]:
                        if isinstance(pr, list) and pr[0] == "f" and pr[3] == "nervusdb_storage::vacuum::WalRoots":
                            read.add(pr[2])
    for f in fields:
        ctx.instance("C28.4", "WalRoots.%s consumed by marking=%s" % (f, f in read))
        ctx.oblige(f in read, "C28.4", "mark_reachable_pages:ignores(WalRoots.%s)" % f,
                   "vacuum never marks the pages reachable from WalRoots.%s: they are dropped by the copy and the database loses that structure" % f, mb.file)
    need = {"i2e_start_page": "node table pages", "index_catalog_root": "index catalog page", "open_existing": "index trees",
            "mark_reachable_pages": "B-tree pages", "mark_blob_chain": "blob chains (properties, statistics, vectors)", "mark_csr_segment_pages": "segment pages"}
    called = {c.name.split("::")[-1] for c in mb.calls()}
    for k, what in need.items():
        ctx.instance("C28.4", "marking calls %s (%s)=%s" % (k, what, k in called))
        ctx.oblige(k in called, "C28.4", "mark_reachable_pages:no-call(%s)" % k, "vacuum no longer marks the %s" % what, mb.file)

    # ---- clause 5
    from ..mirutil import backward_slice
    wc2 = ctx.body(M.PAGER + "::write_vacuum_copy")
    n5 = 0
    for bi, blk in enumerate(wc2.blocks):
        for st in blk["s"]:
            if st[0] == "a" and any(isinstance(p_, list) and p_[0] == "f" and p_[2] == "next_page_id" and p_[3].endswith("pager::Meta") for p_ in st[1][1]):
                n5 += 1
                src = st[2][1] if st[2][0] == "use" else None
                l = op_local(src) if src is not None else None
                calls, _f = backward_slice(wc2, l) if l is not None else ([], set())
                names = {c.name.split("::")[-1] for c in calls}
                decl = {c.declared for c in calls}
                from_max = ("core::cmp::Ord::max" in decl) or ("max" in names) or ("last" in names) or ("next_back" in names)
                from_count = bool(names & {"count", "len"}) and not from_max
                ctx.instance("C28.5", "write_vacuum_copy: next_page_id derives from %s" % sorted(n for n in names if n in ("max", "last", "count", "len", "saturating_add", "next_back")))
                ctx.oblige(from_max and not from_count, "C28.5", "write_vacuum_copy:next_page_id-not-from-max-page",
                           "the allocation high-water mark of the vacuumed file is not computed from the largest reachable page id: pages are not "
                           "relocated, so with any hole below the top live page the mark is too low and later allocations overwrite live pages",
                           "%s:%d" % (wc2.file, st[3]))
    ctx.floor("C28.5", "next_page_id assignments in write_vacuum_copy", n5, 1)
    from .c18 import complete_walk_rule
    complete_walk_rule(ctx, "C28.6")

    # ---- clause 7: the page enumeration of a segment is unconditional --------------------------------------------
    # CsrSegment::load reads all four page lists of a manifest segment on every open, whatever the segment contains.  The enumerator vacuum
    # marks from (csr::segment_data_page_ids) must therefore hand out the decoded page lists on every successful return; an early
    # `Ok(empty)` ("edge-less segment, nothing worth copying") drops pages the next open still reads: `page N not allocated`.
    ctx.rule("C28.7", "every Ok return of csr::segment_data_page_ids passes through the page-list decoder the loader uses (no shortcut for special segments)")
    eb7 = ctx.body("nervusdb_storage::csr::segment_data_page_ids")
    dec = [c for c in eb7.calls() if c.name == "nervusdb_storage::csr::decode_page_lists"]
    ctx.floor("C28.7", "decode_page_lists calls in segment_data_page_ids", len(dec), 1)
    okd = [o for o in (paths.ok_arm(eb7, c) for c in dec) if o is not None]
    rets = paths.success_returns_reachable(eb7, [0], avoid=okd)
    ctx.instance("C28.7", "segment_data_page_ids: success returns that bypass decode_page_lists: %d" % len(rets))
    ctx.oblige(not rets, "C28.7", "segment_data_page_ids:ok-without-page-lists",
               "segment_data_page_ids can return Ok without having decoded the segment's page lists: vacuum then leaves pages unmarked that CsrSegment::load "
               "reads on the next open (the vacuumed database cannot be reopened)", eb7.file)
    lb7 = ctx.body("nervusdb_storage::csr::CsrSegment::load")
    ctx.instance("C28.7", "CsrSegment::load decodes the page lists through the same function: %s" % bool(F.reaches("nervusdb_storage::csr::CsrSegment::load", {"nervusdb_storage::csr::decode_page_lists"})))
    ctx.oblige(bool(F.reaches("nervusdb_storage::csr::CsrSegment::load", {"nervusdb_storage::csr::decode_page_lists"})), "C28.7", "load-uses-other-decoder",
               "CsrSegment::load no longer shares decode_page_lists with the vacuum enumerator: the two can disagree about which pages a segment owns", lb7.file)


BLOB_READERS = ("nervusdb_storage::blob_store::BlobStore::read_direct", V + "mark_blob_chain")
BLOB_WRITER = "nervusdb_storage::blob_store::BlobStore::write_direct"


def blob_len_rule(ctx, rid="C28.8"):
    """the largest per-page data length each blob-chain reader accepts equals the chunk size the writer fills pages with"""
    from .. import paths
    from ..facts import op_local, op_const
    from ..mirutil import switch_on
    from .c25 import _term
    F = ctx.facts
    ctx.rule(rid, "every reader of blob pages (BlobStore::read, vacuum's mark_blob_chain) accepts exactly the per-page lengths BlobStore::write produces")
    wb = ctx.body(BLOB_WRITER)
    W = None
    for c in wb.calls():
        if c.name.endswith("::chunks") and len(c.args) > 1:
            k = op_const(c.args[1])
            if k is not None:
                W = F.const_value(k["named"]) if k.get("named") and k.get("v") is None else k.get("v")
    ctx.oblige(isinstance(W, int), rid, rid + ":writer-chunk", "cannot read the chunk size BlobStore::write_direct fills pages with", wb.file)
    if not isinstance(W, int):
        return
    n = 0
    for fn in BLOB_READERS:
        b = ctx.body(fn)
        short = fn.split("::")[-1]
        fails = paths.fail_blocks(b)
        lens = set()
        for c in b.calls():
            if c.name.endswith("u16::from_le_bytes") or c.name.endswith("::from_le_bytes") and "u16" in (b.local_ty(c.dest[0]) if c.dest else ""):
                lens.add(c.dest[0])
        found = []
        for x in range(len(b.blocks)):
            if b.is_cleanup(x):
                continue
            sw = switch_on(b, x)
            if sw is None or len(sw[2]) != 1:
                continue
            l, neg, arms, other = sw
            sd = b.single_def(l)
            if not sd or sd[2] != "assign" or sd[3][2][0] != "bin" or sd[3][2][1] not in ("Lt", "Le", "Gt", "Ge"):
                continue
            op = sd[3][2][1]
            sides = [_lin(b, _term(b, sd[3][2][2]), lens), _lin(b, _term(b, sd[3][2][3]), lens)]
            if sides[0] is None or sides[1] is None or (sides[0][0] + sides[1][0]) != 1:
                continue
            tb, fb = (other, arms[0][1]) if not neg else (arms[0][1], other)

            def rejects(t):
                for _ in range(3):
                    if t in fails:
                        return True
                    tt = b.term(t)
                    if tt[0] != "goto":
                        return False
                    t = tt[1]
                return False
            rt, rf = rejects(tb), rejects(fb)
            if rt == rf:
                continue
            # cond: (L*a0 + c0) OP (L*a1 + c1); bring L to the left
            if sides[0][0] == 1:
                d = sides[1][1] - sides[0][1]
                rel = {"Gt": ">", "Ge": ">=", "Lt": "<", "Le": "<="}[op]
            else:
                d = sides[0][1] - sides[1][1]
                rel = {"Gt": "<", "Ge": "<=", "Lt": ">", "Le": ">="}[op]
            if rf:
                rel = {">": "<=", ">=": "<", "<": ">=", "<=": ">"}[rel]
            # now: reject iff L rel d
            if rel == ">":
                T = d
            elif rel == ">=":
                T = d - 1
            else:
                continue  # a lower-bound test, not the page-capacity test
            found.append((T, x))
        ctx.oblige(bool(found), rid, "%s:%s:no-length-test" % (rid, short), "%s does not test the page's data length against the page capacity" % short, b.file)
        for T, x in found:
            n += 1
            ctx.instance(rid, "%s accepts a data length up to %d; the writer fills pages with %d" % (short, T, W))
            ctx.oblige(T == W, rid, "%s:%s:capacity" % (rid, short),
                       "%s accepts a per-page data length of at most %d but BlobStore::write fills every non-final page with %d bytes: %s" %
                       (short, T, W, "a healthy multi-page blob is reported as corrupt" if T < W else "a length beyond the page is accepted"),
                       "%s:%d" % (b.file, b.line_of_block(x)), sample={"reader": fn, "accepts_up_to": T, "writer_chunk": W})
    ctx.floor(rid, "blob length tests", n, 2)


def _lin(b, t, lens):
    """(coefficient of the page's data-length local, constant) of a term, or None when other unknowns occur"""
    from ..mirutil import value_root
    if isinstance(t, int):
        return (0, t)
    if isinstance(t, tuple) and t and t[0] == "l":
        return (1, 0) if value_root(b, t[1]) in lens or t[1] in lens else None
    if isinstance(t, tuple) and t and t[0] == "+":
        a = c = 0
        for x in t[1]:
            r = _lin(b, x, lens)
            if r is None:
                return None
            a += r[0]
            c += r[1]
        return (a, c)
    return None
