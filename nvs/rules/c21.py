"""C21 — Aggregates agree with their definitions: no silent wrap-around in sum (casts + overflow ops)."""
from ..facts import op_local
from ..mirutil import narrowing_cast_guarded

EXPLANATION = (
    "Decides the `sum never silently wraps` clause: in the aggregate executor (projection_sort::execute_aggregate and its closures) every "
    "narrowing integer cast of an accumulator (i128 -> i64, or any wider -> narrower signed cast) is dominated by a range test of the same value, "
    "or replaced by a checked conversion; and every integer accumulation in i64 uses checked arithmetic (no raw `+` on i64 operands). "
    "count / min / max / collect values and grouping are runtime-value behaviour and are not decided."
)

PREFIX = "nervusdb_query::executor::projection_sort::"
WIDTH = {"i128": 128, "u128": 128, "i64": 64, "u64": 64, "usize": 64, "isize": 64, "i32": 32, "u32": 32}


def run(ctx):
    F = ctx.facts
    ctx.rule("C21.1", "narrowing casts of integer accumulators in aggregate folds are range-checked")
    ctx.rule("C21.2", "i64 accumulation in aggregate folds uses checked arithmetic")
    ctx.body(PREFIX + "execute_aggregate")
    n_cast = n_add = 0
    for i, b in sorted(F.bodies.items()):
        if not i.startswith(PREFIX) or "::tests::" in i:
            continue
        ctx.analysed_fns.add(i)
        k = 0
        for bi, blk in enumerate(b.blocks):
            if blk["c"]:
                continue
            for st in blk["s"]:
                if st[0] != "a":
                    continue
                rv = st[2]
                if rv[0] == "cast" and rv[1] == "IntToInt" and rv[3] == "i128" and rv[4] in ("i64", "i32"):
                    n_cast += 1
                    ok = narrowing_cast_guarded(b, bi, op_local(rv[2]))
                    # checked conversion idiom: i64::try_from(x) instead of `as`
                    ctx.instance("C21.1", "%s: cast %s->%s #%d guarded=%s" % (i, rv[3], rv[4], k, ok))
                    ctx.oblige(ok, "C21.1", "%s:cast(%s->%s)#%d" % (i, rv[3], rv[4], k),
                               "the %s accumulator is truncated to %s with `as` and no range test: a sum beyond the i64 range silently wraps around"
                               % (rv[3], rv[4]), "%s:%d" % (b.file, st[3]), sample={"fn": i, "line": st[3]})
                    k += 1
                if rv[0] == "bin" and rv[1] in ("Add", "AddWithOverflow", "Sub", "SubWithOverflow", "Mul", "MulWithOverflow") and rv[4] == "i64" and st[4] != "m":
                    n_add += 1
                    ctx.instance("C21.2", "%s: raw i64 %s at line %d" % (i, rv[1], st[3]))
                    ctx.oblige(False, "C21.2", "%s:raw-i64-%s@%s" % (i, rv[1], b.local_name(st[1][0]) or "tmp"),
                               "raw i64 arithmetic in an aggregate fold (panics in debug, wraps in release)", "%s:%d" % (b.file, st[3]))
    for i, b in sorted(F.bodies.items()):
        if not i.startswith(PREFIX) or "::tests::" in i:
            continue
        for c in b.calls():
            short = c.name.split("::")[-1]
            if short.startswith(("wrapping_", "overflowing_", "unchecked_")) and "num::<impl i64>" in c.name:
                ctx.instance("C21.2", "%s: %s on i64" % (i, short))
                ctx.oblige(False, "C21.2", "%s:%s#%d" % (b.root or i, short, c.ordinal),
                           "the aggregate fold accumulates in i64 with `%s`: the wrapped partial sum is kept and the result can be a wrapped "
                           "integer (the repository's rule is checked_* or widening to i128 with a final range test)" % short, c.loc())
    # checked conversions (`i64::try_from(acc)`) discharge the obligation by construction
    n_checked = 0
    for i, b in sorted(F.bodies.items()):
        if not i.startswith(PREFIX) or "::tests::" in i:
            continue
        for c in b.calls():
            if c.name.endswith("::try_from") and "TryFrom<i128> for i64" in c.name:
                n_checked += 1
                ctx.instance("C21.1", "%s: checked conversion i128->i64 (%s)" % (i, c.loc()))
                ctx.oblige(True, "C21.1", "%s:try_from#%d" % (i, c.ordinal), "")
    ctx.floor("C21.1", "accumulator narrowings (casts + checked conversions)", n_cast + n_checked, 2)
