"""C21 — Aggregates agree with their definitions: no silent wrap-around in sum (casts + overflow ops)."""
from ..facts import op_local
from ..mirutil import narrowing_cast_guarded

EXPLANATION = (
    "Decides the `sum never silently wraps` clause: in the aggregate executor (projection_sort::execute_aggregate and its closures) every "
    "narrowing integer cast of an accumulator (i128 -> i64, or any wider -> narrower signed cast) is dominated by a range test of the same value, "
    "or replaced by a checked conversion; and every integer accumulation in i64 uses checked arithmetic (no raw `+` on i64 operands). "
    "count / min / max / collect values and grouping are runtime-value behaviour and are not decided."
    " C21.3: every evaluation of the aggregated expression in execute_aggregate and its closures is null-tested (variant match, comparison with Value::Null, or the filter adaptor fed by the mapping closure) before it is folded."
    " C21.4: every DISTINCT aggregate arm decides duplicates with a value-equality membership scan, never with dedup* / the ordering comparator."
)

PREFIX = "nervusdb_query::executor::projection_sort::"
WIDTH = {"i128": 128, "u128": 128, "i64": 64, "u64": 64, "usize": 64, "isize": 64, "i32": 32, "u32": 32}


def run(ctx):
    F = ctx.facts
    ctx.rule("C21.1", "narrowing casts of integer accumulators in aggregate folds are range-checked")
    ctx.rule("C21.2", "i64 accumulation in aggregate folds uses checked arithmetic")
    ctx.body(PREFIX + "execute_aggregate")
    n_cast = n_add = 0
    for i, b in sorted(F.bodies.items()):
        if not i.startswith(PREFIX) or "::tests::" in i:
            continue
        ctx.analysed_fns.add(i)
        k = 0
        for bi, blk in enumerate(b.blocks):
            if blk["c"]:
                continue
            for st in blk["s"]:
                if st[0] != "a":
                    continue
                rv = st[2]
                if rv[0] == "cast" and rv[1] == "IntToInt" and rv[3] == "i128" and rv[4] in ("i64", "i32"):
                    n_cast += 1
                    ok = narrowing_cast_guarded(b, bi, op_local(rv[2]))
                    # checked conversion idiom: i64::try_from(x) instead of `as`
                    ctx.instance("C21.1", "%s: cast %s->%s #%d guarded=%s" % (i, rv[3], rv[4], k, ok))
                    ctx.oblige(ok, "C21.1", "%s:cast(%s->%s)#%d" % (i, rv[3], rv[4], k),
                               "the %s accumulator is truncated to %s with `as` and no range test: a sum beyond the i64 range silently wraps around"
                               % (rv[3], rv[4]), "%s:%d" % (b.file, st[3]), sample={"fn": i, "line": st[3]})
                    k += 1
                if rv[0] == "bin" and rv[1] in ("Add", "AddWithOverflow", "Sub", "SubWithOverflow", "Mul", "MulWithOverflow") and rv[4] == "i64" and st[4] != "m":
                    n_add += 1
                    ctx.instance("C21.2", "%s: raw i64 %s at line %d" % (i, rv[1], st[3]))
                    ctx.oblige(False, "C21.2", "%s:raw-i64-%s@%s" % (i, rv[1], b.local_name(st[1][0]) or "tmp"),
                               "raw i64 arithmetic in an aggregate fold (panics in debug, wraps in release)", "%s:%d" % (b.file, st[3]))
    for i, b in sorted(F.bodies.items()):
        if not i.startswith(PREFIX) or "::tests::" in i:
            continue
        for c in b.calls():
            short = c.name.split("::")[-1]
            if short.startswith(("wrapping_", "overflowing_", "unchecked_")) and "num::<impl i64>" in c.name:
                ctx.instance("C21.2", "%s: %s on i64" % (i, short))
                ctx.oblige(False, "C21.2", "%s:%s#%d" % (b.root or i, short, c.ordinal),
                           "the aggregate fold accumulates in i64 with `%s`: the wrapped partial sum is kept and the result can be a wrapped "
                           "integer (the repository's rule is checked_* or widening to i128 with a final range test)" % short, c.loc())
    # checked conversions (`i64::try_from(acc)`) discharge the obligation by construction
    n_checked = 0
    for i, b in sorted(F.bodies.items()):
        if not i.startswith(PREFIX) or "::tests::" in i:
            continue
        for c in b.calls():
            if c.name.endswith("::try_from") and "TryFrom<i128> for i64" in c.name:
                n_checked += 1
                ctx.instance("C21.1", "%s: checked conversion i128->i64 (%s)" % (i, c.loc()))
                ctx.oblige(True, "C21.1", "%s:try_from#%d" % (i, c.ordinal), "")
    ctx.floor("C21.1", "accumulator narrowings (casts + checked conversions)", n_cast + n_checked, 2)

    # ---- clause 3: aggregates fold the group's non-null values ----------------------------------------
    # count(x), sum, avg, min, max, collect (plain and DISTINCT) ignore nulls.  Structurally: every value the aggregate executor
    # obtains by evaluating the aggregated expression is null-tested before it is folded — a `match` on its variant (discriminant read)
    # or a comparison with `Value::Null` — either on the value itself or, when a mapping closure returns it, in the `filter` /
    # `filter_map` adaptor that consumes the mapped stream.
    ctx.rule("C21.3", "every evaluation of the aggregated expression in execute_aggregate is null-tested (variant match or comparison) before it is folded")
    from ..mirutil import peel_refs
    ROOT = PREFIX + "execute_aggregate"
    EV = "nervusdb_query::evaluator::evaluate_expression_value"

    def tested(b, dl):
        for blk in b.blocks:
            for st in blk["s"]:
                if st[0] == "a" and st[2][0] == "discr" and st[2][1][0] == dl:
                    return "variant match"
        for c2 in b.calls():
            if c2.name.split("::")[-1] in ("eq", "ne") and "PartialEq" in c2.name:
                for a in c2.args:
                    l = op_local(a)
                    if l is not None and peel_refs(b, l) == dl:
                        return "comparison (%s)" % c2.name.split("::")[-1]
        return None

    def closure_tests_param(cid):
        cb = F.bodies.get(cid)
        if cb is None or cb.argc < 2:
            return None
        p = 2
        # the parameter may be a reference: look for a discriminant read / eq on anything derived from it
        for blk in cb.blocks:
            for st in blk["s"]:
                if st[0] == "a" and st[2][0] == "discr" and peel_refs(cb, st[2][1][0]) == p:
                    return "variant match in %s" % cid.split("::")[-1]
        for c2 in cb.calls():
            if c2.name.split("::")[-1] in ("eq", "ne") and "PartialEq" in c2.name:
                for a in c2.args:
                    l = op_local(a)
                    if l is not None and peel_refs(cb, peel_refs(cb, l)) == p:
                        return "comparison in %s" % cid.split("::")[-1]
        return None

    n3 = 0
    for i, b in sorted(F.bodies.items()):
        if not (i == ROOT or b.root == ROOT):
            continue
        k = 0
        for c in b.calls():
            if c.name != EV:
                continue
            n3 += 1
            dl = c.dest[0]
            how = tested(b, dl)
            if how is None and dl == 0 and b.root:
                # the closure returns the value: find the adaptor fed by the `map(closure)` call in the parent chain
                for pb in (F.bodies.get(b.parent or b.root), F.bodies.get(b.root)):
                    if pb is None:
                        continue
                    for mc in pb.calls():
                        if not any(pb.origin(op_local(a)) and pb.origin(op_local(a))[0] == "agg" and pb.origin(op_local(a))[1][2] == i
                                   for a in mc.args if op_local(a) is not None):
                            continue
                        cur = mc.dest[0]
                        for _ in range(4):
                            nxt = [x for x in pb.calls() if x.args and op_local(x.args[0]) == cur]
                            if not nxt:
                                break
                            x = nxt[0]
                            if x.name.split("::")[-1] in ("filter", "filter_map") and len(x.args) > 1:
                                o = pb.origin(op_local(x.args[1]))
                                if o and o[0] == "agg" and o[1][1] == "closure":
                                    how = closure_tests_param(o[1][2])
                                    if how:
                                        how = "stream adaptor: " + how
                                break
                            cur = x.dest[0]
                    if how:
                        break
            ctx.instance("C21.3", "%s: evaluation at line %d null-tested: %s" % (i.split("::")[-1], c.line, how or "NO"))
            ctx.oblige(how is not None, "C21.3", "%s:eval#%d-not-null-tested" % (i, k),
                       "the aggregated expression's value is folded without a null test: nulls are counted / collected / compared like values", c.loc())
            k += 1
    ctx.floor("C21.3", "evaluations of the aggregated expression", n3, 12)

    # ---- clause 4: DISTINCT means distinct by value equality ----------------------------------------------------
    # count / sum / avg / min / max / collect (DISTINCT) fold the distinct non-null values.  "Distinct" is Cypher value equality
    # (`existing == &value`), the same in all six arms.  Deciding duplicates with the ORDER BY comparator (sort + dedup_by(order_compare))
    # merges values that merely sort equal — 1 and 1.0, two NaNs — so count(DISTINCT x) disagrees with size(collect(DISTINCT x)).
    from .. import tables
    ctx.rule("C21.4", "every DISTINCT aggregate arm decides duplicates with a membership scan using value equality (`any(|e| e == &value)`), never with dedup* / the ordering comparator")
    AGG = "nervusdb_query::ast::AggregateFunction"
    agg = ctx.adt(AGG)
    vnames = {v["discr"]: v["name"] for v in agg["variants"]}
    n4 = 0
    for i, b in sorted(F.bodies.items()):
        if not (i == ROOT or b.root == ROOT):
            continue
        sw = tables.enum_switch(b, AGG, F)
        if not sw or len(sw[1]) < 8:
            continue
        head, arms = sw[0], sw[1]
        for dv, target in sorted(arms.items()):
            name = vnames.get(dv, str(dv))
            if "Distinct" not in name:
                continue
            n4 += 1
            region = tables.dominated_region(b, target, head)
            calls = [c for c in b.calls() if c.bb in region]
            scans = []
            for c in calls:
                if c.name.split("::")[-1] == "any" and len(c.args) > 1:
                    o = b.origin(op_local(c.args[1]))
                    if o and o[0] == "agg" and o[1][1] == "closure":
                        cb = F.bodies.get(o[1][2])
                        if cb is not None and any(x.name.endswith("PartialEq>::eq") or x.name.endswith("PartialEq<&B> for &A>::eq") for x in cb.calls()):
                            scans.append(c)
            dedups = [c for c in calls if c.name.split("::")[-1].startswith("dedup")]
            ctx.instance("C21.4", "%s arm: value-equality membership scans=%d, dedup* calls=%d" % (name, len(scans), len(dedups)))
            ctx.oblige(bool(scans) and not dedups, "C21.4", "%s:distinct-not-by-value-equality" % name,
                       "%s does not decide duplicates by value equality (%s): values that only sort equal (1 and 1.0, NaN and NaN) are merged or kept "
                       "differently from the other DISTINCT aggregates" % (name, "uses " + dedups[0].name.split("::")[-1] if dedups else "no `any(== value)` scan"), b.file)
    ctx.floor("C21.4", "DISTINCT aggregate arms", n4, 6)
