"""C25 — Value and log encodings round-trip safely (TABLES + bounded allocation + RECUR)."""
from .. import bounds, recur, tables
from ..facts import op_local
from ..mirutil import upper_bound_guards, value_root, site_key

EXPLANATION = (
    "Decides: (1) TABLES — the tag written by the encoder for each variant is the tag whose decoder arm constructs that variant, for WalRecord "
    "(record_type / decode_body) and PropertyValue (encode / decode_recursive): a bijection covering every variant, plus equality of the multiset of "
    "fixed-width integer fields written and read per variant; (2) every allocation in the two decoders and the WAL reader that is sized by an "
    "integer read from the input (Vec::with_capacity / vec![_; n]) is dominated by an upper-bound test of that integer (or of a value derived from it "
    "by + and *) whose `too large` arm does not reach the allocation; slice bounds are decided by the BOUNDS obligations when that engine is enabled; "
    "(3) RECUR — self-recursive decoders carry a depth bound. Bit-exact equality of decode(encode(v)) is not decided."
    " C25.5: per WalRecord kind the encoder writes its named fixed-width fields in the order the decoder assigns them."
    " C25.6: PropertyValue::decode_recursive rejects nothing the encoder writes, as far as lengths go: every `input length < X` test that leads to "
    "InvalidLength is matched by a read on the accepting branch that needs exactly X bytes (same term over constants, + and the same locals), and a "
    "count tested against (or multiplied up to) the remaining input with a constant per-element size K needs K <= the fewest bytes the encoder writes "
    "per element of that variant (fixed-width writes + 1 per nested value + 0 per variable-length run inside the encoder's loop)."
)

WALREC = "nervusdb_storage::wal::WalRecord"
REC_TYPE = WALREC + "::record_type"
ENC_BODY = WALREC + "::encode_body"
DEC_BODY = WALREC + "::decode_body"
PV = "nervusdb_api::PropertyValue"
PV_ENC = PV + "::encode"
PV_DEC = PV + "::decode_recursive"
READ_U64 = "nervusdb_storage::wal::read_u64"
ALLOCS = ("alloc::vec::Vec::<T>::with_capacity", "alloc::vec::from_elem")


def variant_names(adt):
    return [v["name"] for v in adt["variants"]]


def monotone_roots(b, l, depth=16):
    """locals that `l` is derived from through copies, widening casts, + and * (monotone for unsigned values)"""
    out = set()
    work = [(l, 0)]
    while work:
        x, d = work.pop()
        if x is None or x in out or d > depth:
            continue
        out.add(x)
        sd = b.single_def(x)
        if not sd or sd[2] != "assign":
            continue
        rv = sd[3][2]
        if rv[0] == "use" and rv[1][0] in ("c", "m"):
            work.append((rv[1][1][0], d + 1))
        elif rv[0] == "cast" and rv[1] == "IntToInt":
            work.append((op_local(rv[2]), d + 1))
        elif rv[0] == "bin" and rv[1] in ("Add", "Mul", "AddWithOverflow", "MulWithOverflow", "AddUnchecked", "MulUnchecked"):
            work.append((op_local(rv[2]), d + 1))
            work.append((op_local(rv[3]), d + 1))
    return out


def alloc_bounded(b, c, size_l):
    """is there a dominating switch comparing a value monotonically derived from size_l against something, too-big arm avoiding the allocation?"""
    root = value_root(b, size_l)
    # accepted idiom: `n.min(input.len())` — the request is clamped by another quantity
    sd0 = b.single_def(root)
    if sd0 and sd0[2] == "call":
        c0 = b.call_at(sd0[0])
        if c0 is not None and (c0.declared in ("core::cmp::Ord::min", "core::cmp::min") or c0.name.endswith("::min")):
            return True
    from ..mirutil import switch_on
    for bi in range(len(b.blocks)):
        if not b.dominates(bi, c.bb):
            continue
        sw = switch_on(b, bi)
        if not sw:
            continue
        l, neg, arms, other = sw
        sd = b.single_def(l)
        if not sd or sd[2] != "assign" or sd[3][2][0] != "bin" or sd[3][2][1] not in ("Gt", "Ge", "Lt", "Le"):
            continue
        rv = sd[3][2]
        la, lb = op_local(rv[2]), op_local(rv[3])
        side = None
        if la is not None and root in {value_root(b, x) for x in monotone_roots(b, la)}:
            side = "left"
        elif lb is not None and root in {value_root(b, x) for x in monotone_roots(b, lb)}:
            side = "right"
        if side is None:
            continue
        big_when_true = (rv[1] in ("Gt", "Ge")) == (side == "left")
        t_false = [tb for v, tb in arms if v == 0]
        t_false = t_false[0] if t_false else None
        t_true = other
        if neg:
            t_true, t_false = t_false, t_true
        big_t = t_true if big_when_true else t_false
        if big_t is not None and c.bb not in b.reachable([big_t]):
            return True
    return False


def run(ctx):
    F = ctx.facts
    ctx.rule("C25.1", "encoder and decoder tag tables are the same bijection over all variants, with equal fixed-width field multisets")
    ctx.rule("C25.2", "allocations sized from decoded integers are dominated by an upper-bound test")
    ctx.rule("C25.3", "self-recursive decoders carry a depth bound")
    ctx.rule("C25.4", "BOUNDS: every slice / element index into decoder input is within the length established on that path")

    # ---------------- WalRecord
    adt = ctx.adt(WALREC)
    names = variant_names(adt)
    rt = ctx.body(REC_TYPE)
    sw = tables.enum_switch(rt, WALREC)
    enc_tag = {}
    if sw:
        for vi, tb in sw[1].items():
            ks = tables.arm_consts_to_ret(rt, tb, sw[0])
            if len(ks) == 1:
                enc_tag[names[vi]] = list(ks)[0]
        if sw[2] is not None and rt.term(sw[2])[0] != "unreach":
            for vi, n in enumerate(names):
                if vi not in sw[1]:
                    ks = tables.arm_consts_to_ret(rt, sw[2], sw[0])
                    if len(ks) == 1:
                        enc_tag[n] = list(ks)[0]
    db = ctx.body(DEC_BODY)
    dsw = tables.int_switch(db)
    dec_var = {}
    if dsw:
        for val, tb in dsw[1].items():
            vs = tables.arm_variants_built(db, tb, WALREC, dsw[0])
            dec_var[val] = vs
    eb = ctx.body(ENC_BODY)
    esw = tables.enum_switch(eb, WALREC)
    ctx.floor("C25.1", "WalRecord variants with an encoder tag", len(enc_tag), 17)
    for n in names:
        t = enc_tag.get(n)
        built = dec_var.get(t, set()) if t is not None else set()
        ctx.instance("C25.1", "WalRecord::%s tag=%s decoder arm builds %s" % (n, t, sorted(built)))
        ctx.oblige(t is not None and built == {n}, "C25.1", "WalRecord::%s:tag-mismatch" % n,
                   "the tag written for WalRecord::%s (%s) is decoded as %s" % (n, t, sorted(built)), rt.file,
                   sample={"variant": n, "tag": t, "decoded_as": sorted(built)})
    tags = list(enc_tag.values())
    ctx.oblige(len(set(tags)) == len(tags), "C25.1", "WalRecord:duplicate-tags", "two WalRecord variants share a tag", rt.file)
    # field widths
    if esw and dsw:
        for vi, tb in esw[1].items():
            n = names[vi]
            t = enc_tag.get(n)
            if t is None or t not in dsw[1]:
                continue
            w = tables.arm_int_codec_calls(eb, tb, ("::to_le_bytes",), None, esw[0])
            r = tables.arm_int_codec_calls(db, dsw[1][t], ("::from_le_bytes",), {READ_U64: "u64"}, dsw[0])
            ctx.instance("C25.1", "WalRecord::%s writes %s reads %s" % (n, w, r))
            ctx.oblige(w == r, "C25.1", "WalRecord::%s:field-widths" % n,
                       "fixed-width fields written for WalRecord::%s (%s) differ from those read back (%s)" % (n, w, r), eb.file,
                       sample={"variant": n, "written": w, "read": r})

    # field order: the n-th fixed-width field written must be the n-th one read back, by *name* (equal widths hide a swap)
    ctx.rule("C25.5", "per WalRecord kind, the encoder writes its fixed-width fields in the order the decoder assigns them (by field name)")
    import functools

    def ordered(b, calls):
        def cmp(x, y):
            if x.bb == y.bb:
                return 0
            if b.dominates(x.bb, y.bb):
                return -1
            if b.dominates(y.bb, x.bb):
                return 1
            return (x.line > y.line) - (x.line < y.line)
        return sorted(calls, key=functools.cmp_to_key(cmp))

    def enc_field_of(b, c):
        """variant field the value passed to to_le_bytes was read from"""
        l = op_local(c.args[0]) if c.args else None
        for _ in range(6):
            if l is None:
                return None
            o = b.origin(l)
            if not o:
                return None
            if o[0] == "place":
                fs = [p_[2] for p_ in o[1][1] if isinstance(p_, list) and p_[0] == "f" and WALREC in str(p_[3])]
                if fs:
                    return fs[-1]
                l = o[1][0]
                continue
            if o[0] == "call" and o[1].args:
                l = op_local(o[1].args[0])
                continue
            return None
        return None

    n5 = 0
    if esw and dsw:
        for vi, tb in sorted(esw[1].items()):
            n = names[vi]
            t_ = enc_tag.get(n)
            if t_ is None or t_ not in dsw[1]:
                continue
            ereg = tables.dominated_region(eb, tb, esw[0])
            ecalls = ordered(eb, [c for c in eb.calls() if c.bb in ereg and c.name.endswith("::to_le_bytes")])
            eseq = [enc_field_of(eb, c) for c in ecalls]
            dreg = tables.dominated_region(db, dsw[1][t_], dsw[0])
            dcalls = ordered(db, [c for c in db.calls() if c.bb in dreg and (c.name.endswith("::from_le_bytes") or c.name == READ_U64)])
            # which field of the built variant does each decoded integer feed?
            feeds = {}
            for bi in dreg:
                for st in db.blocks[bi]["s"]:
                    if st[0] == "a" and st[2][0] == "agg" and st[2][1] == "adt" and st[2][2] == WALREC and st[2][3] == n:
                        for opnd, fname in zip(st[2][4], st[2][5]):
                            l = op_local(opnd)
                            for _ in range(6):
                                if l is None:
                                    break
                                o = db.origin(l)
                                if o and o[0] == "call" and (o[1].name.endswith("::from_le_bytes") or o[1].name == READ_U64):
                                    feeds[(o[1].bb)] = fname
                                    break
                                if o and o[0] == "call" and o[1].args:
                                    l = op_local(o[1].args[0])
                                    continue
                                if o and o[0] == "rv" and o[1][0] == "cast":
                                    l = op_local(o[1][2])
                                    continue
                                break
            dseq = [feeds.get(c.bb) for c in dcalls]
            def collapse(seq):
                out_ = []
                for x in seq:
                    if not out_ or out_[-1] != x:
                        out_.append(x)  # a field written in a loop (list of segments) appears once
                return out_
            e_named = collapse([x for x in eseq if x is not None and x in set(dseq)])
            d_named = collapse([x for x in dseq if x is not None and x in set(eseq)])
            if len(e_named) < 2:
                continue
            n5 += 1
            ctx.instance("C25.5", "WalRecord::%s writes %s reads %s" % (n, eseq, dseq))
            ctx.oblige(e_named == d_named, "C25.5", "WalRecord::%s:field-order" % n,
                       "WalRecord::%s is written as %s but read back as %s: the record decodes without error and addresses a different entity" % (n, e_named, d_named), eb.file)
    ctx.floor("C25.5", "record kinds with two or more named fixed-width fields", n5, 5)

    # ---------------- PropertyValue
    padt = ctx.adt(PV)
    pnames = variant_names(padt)
    pe = ctx.body(PV_ENC)
    psw = tables.enum_switch(pe, PV)
    penc = {}
    if psw:
        for vi, tb in psw[1].items():
            ks = tables.arm_first_byte_arrays(pe, tb, psw[0])
            if len(ks) == 1:
                penc[pnames[vi]] = list(ks)[0]
        if psw[2] is not None and pe.term(psw[2])[0] != "unreach":
            for vi, n in enumerate(pnames):
                if vi not in psw[1]:
                    ks = tables.arm_first_byte_arrays(pe, psw[2], psw[0])
                    if len(ks) == 1:
                        penc[n] = list(ks)[0]
    pd = ctx.body(PV_DEC)
    pdsw = tables.int_switch(pd)
    pdec = {}
    if pdsw:
        for val, tb in pdsw[1].items():
            pdec[val] = tables.arm_variants_built(pd, tb, PV, pdsw[0])
    ctx.floor("C25.1", "PropertyValue variants with an encoder tag", len(penc), 9)
    for n in pnames:
        t = penc.get(n)
        built = pdec.get(t, set()) if t is not None else set()
        ctx.instance("C25.1", "PropertyValue::%s tag=%s decoder arm builds %s" % (n, t, sorted(built)))
        ctx.oblige(t is not None and built == {n}, "C25.1", "PropertyValue::%s:tag-mismatch" % n,
                   "the tag written for PropertyValue::%s (%s) is decoded as %s" % (n, t, sorted(built)), pe.file,
                   sample={"variant": n, "tag": t, "decoded_as": sorted(built)})
    if psw and pdsw:
        for vi, tb in psw[1].items():
            n = pnames[vi]
            t = penc.get(n)
            if t is None or t not in pdsw[1]:
                continue
            w = tables.arm_int_codec_calls(pe, tb, ("::to_le_bytes",), None, psw[0])
            r = tables.arm_int_codec_calls(pd, pdsw[1][t], ("::from_le_bytes",), None, pdsw[0])
            ctx.instance("C25.1", "PropertyValue::%s writes %s reads %s" % (n, w, r))
            ctx.oblige(w == r, "C25.1", "PropertyValue::%s:field-widths" % n,
                       "fixed-width fields written for PropertyValue::%s (%s) differ from those read back (%s)" % (n, w, r), pe.file)

    # ---------------- clause 2: allocations sized from input
    n_alloc = 0
    for b in (db, pd):
        for c in b.calls():
            if c.name not in ALLOCS:
                continue
            size_l = None
            for a in c.args:
                l = op_local(a)
                if l is not None and b.local_ty(l) == "usize":
                    size_l = l
            if size_l is None:
                continue  # constant capacity
            n_alloc += 1
            ok = alloc_bounded(b, c, size_l)
            ctx.instance("C25.2", "%s: %s sized by decoded integer, bounded=%s" % (b.id, site_key(c), ok))
            ctx.oblige(ok, "C25.2", "%s:%s:unbounded-alloc" % (b.id, site_key(c)),
                       "an allocation is sized by a count read from the input with no upper-bound test: five bytes of input request gigabytes "
                       "(capacity overflow panic or allocation-failure abort)", c.loc(), sample={"fn": b.id, "site": c.loc()})
    ctx.floor("C25.2", "input-sized allocations in the decoders", n_alloc, 2)

    # ---------------- clause 6: exact rejections
    if psw and pdsw:
        exact_rejections(ctx, F, pe, psw, penc, pd, pdsw, pnames)

    # ---------------- clause 3
    for fn in (PV_DEC, DEC_BODY):
        b = F.bodies[fn]
        selfrec = any(fn in F.call_targets(c) for c in b.calls())
        if not selfrec:
            ctx.instance("C25.3", "%s: not self-recursive" % fn)
            continue
        g = recur.depth_param_guard(F, b) or recur.field_counter_guard(b)
        ctx.instance("C25.3", "%s: self-recursive, depth guard=%s" % (fn, g))
        ctx.oblige(g is not None, "C25.3", fn + ":unbounded-recursion",
                   "the decoder recurses once per nesting level of the input with no depth bound: a small deeply nested value overflows the stack", b.file)
    ctx.floor("C25.3", "decoders inspected", len(ctx.instances["C25.3"]), 2)

    # ---------------- clause 4: BOUNDS abstract interpretation
    for fn, contract, sw_ in ((DEC_BODY, False, dsw), (PV_DEC, True, pdsw)):
        b = F.bodies[fn]
        an, obs = bounds.analyse(F, fn, contract_fns=[PV_DEC], check_return_contract=contract)
        ctx.note("BOUNDS %s: %d obligations, converged=%s, join candidates %s" % (fn, len(obs), an.converged, {k: len(v[1]) for k, v in an._cand.items()}))
        # which decoder arm does a block belong to?
        arm_of = {}
        if sw_:
            for val, tb in sw_[1].items():
                for x in tables.dominated_region(b, tb, sw_[0]):
                    arm_of.setdefault(x, val)
        per_arm = {}
        for o in sorted(obs, key=lambda o: (o.line, o.bb, str(o.ordinal))):
            arm = arm_of.get(o.bb, "pre")
            k = per_arm.get((arm, o.kind), 0)
            per_arm[(arm, o.kind)] = k + 1
            key = "%s:tag(%s):%s#%d" % (fn, arm, o.kind, k)
            ok = bool(o.ok) and an.converged
            ctx.instance("C25.4", "%s tag %s %s#%d (%s) line %d: %s" % (fn.split("::")[-1], arm, o.kind, k, o.desc, o.line, "discharged" if ok else "OPEN"))
            ctx.oblige(ok, "C25.4", key,
                       "decoder reads beyond the length it has checked on this path (%s; needs %s >= 0): a CRC-valid / well-framed but short input "
                       "makes the slice operation panic" % (o.desc, o.H.show(an.names) if o.H is not None else "?"),
                       "%s:%d" % (b.file, o.line),
                       sample={"fn": fn, "tag": arm, "obligation": o.desc, "needs": o.H.show(an.names) if o.H is not None else None})
    ctx.floor("C25.4", "BOUNDS obligations", len(ctx.instances["C25.4"]), 100)


# ---------------------------------------------------------------------------------------------- C25.6 helpers
def _term(b, op, depth=10):
    """normal form of an integer operand: int | ("+", sorted terms) | ("l", local)"""
    from ..facts import op_const
    k = op_const(op)
    if k is not None and isinstance(k.get("v"), int):
        return k["v"]
    l = op_local(op)
    if l is None:
        return ("?",)
    return _lterm(b, l, depth)


def _lterm(b, l, depth):
    if depth <= 0:
        return ("l", l)
    sd = b.single_def(l)
    if not sd or sd[2] != "assign":
        return ("l", l)
    rv = sd[3][2]
    if rv[0] == "use" and rv[1][0] in ("c", "m"):
        pl = rv[1][1]
        if not pl[1]:
            return _lterm(b, pl[0], depth - 1)
        if len(pl[1]) == 1 and isinstance(pl[1][0], list) and pl[1][0][0] == "f" and pl[1][0][1] == 0:
            sd2 = b.single_def(pl[0])
            if sd2 and sd2[2] == "assign" and sd2[3][2][0] == "bin" and sd2[3][2][1] == "AddWithOverflow":
                return _sum(_term(b, sd2[3][2][2], depth - 1), _term(b, sd2[3][2][3], depth - 1))
        return ("l", l)
    if rv[0] == "use" and rv[1][0] == "k":
        return _term(b, rv[1], depth - 1)
    if rv[0] == "cast" and rv[1] == "IntToInt":
        return _term(b, rv[2], depth - 1)
    if rv[0] == "bin" and rv[1] in ("Add", "AddUnchecked"):
        return _sum(_term(b, rv[2], depth - 1), _term(b, rv[3], depth - 1))
    return ("l", l)


def _sum(a, c):
    parts = []
    k = 0
    for t in (a, c):
        if isinstance(t, int):
            k += t
        elif isinstance(t, tuple) and t and t[0] == "+":
            for x in t[1]:
                if isinstance(x, int):
                    k += x
                else:
                    parts.append(x)
        else:
            parts.append(t)
    if not parts:
        return k
    items = sorted(parts, key=repr) + ([k] if k else [])
    return ("+", tuple(items)) if len(items) > 1 else items[0]


def _is_input_len(b, l):
    """local holds the length of the input slice parameter (_1)"""
    r = value_root(b, l)
    sd = b.single_def(r)
    if not sd:
        return False
    if sd[2] == "assign" and sd[3][2][0] == "un" and sd[3][2][1] == "PtrMetadata":
        return op_local(sd[3][2][2]) == 1
    if sd[2] in ("call", "pcall"):
        c = b.call_at(sd[0])
        if c is not None and c.name.endswith("::len") and c.args:
            from ..mirutil import peel_refs
            return peel_refs(b, op_local(c.args[0])) == 1
    return False


def _needs_after(b, start):
    """terms X such that a read of the input reachable from `start` needs input length >= X"""
    from ..mirutil import peel_refs
    out = []
    seen = b.reachable([start]) | {start}
    for x in seen:
        t = b.term(x)
        if t[0] == "assert" and t[3] == "bounds" and len(t[4]) == 2:
            ll = op_local(t[4][0])
            if ll is not None and _is_input_len(b, ll):
                out.append(_sum(_term(b, t[4][1]), 1))
        if t[0] == "call":
            c = b.call_at(x)
            if c is None or c.declared != "core::ops::index::Index::index" or len(c.args) < 2:
                continue
            if peel_refs(b, op_local(c.args[0])) != 1:
                continue
            o = b.origin(op_local(c.args[1])) if op_local(c.args[1]) is not None else None
            if o and o[0] == "agg" and o[1][2].startswith("core::ops::range::"):
                kind = o[1][2].split("::")[-1]
                ops = o[1][4]
                if kind == "Range":
                    out.append(_term(b, ops[1]))
                elif kind == "RangeTo":
                    out.append(_term(b, ops[0]))
                elif kind == "RangeFrom":
                    out.append(_term(b, ops[0]))
    return out


def _encoder_min_elem(F, pe, region):
    """fewest bytes written per iteration of the loop(s) in an encoder arm, or None when the arm has no loop"""
    from ..mirutil import backward_calls
    loop_blocks = [x for x in region if x in b_reach_self(pe, x)]
    if not loop_blocks:
        return None
    total = 0
    for x in loop_blocks:
        c = pe.call_at(x)
        if c is None or not c.name.endswith("::extend_from_slice") or len(c.args) < 2:
            continue
        srcs = backward_calls(pe, op_local(c.args[1]), depth=6)
        w = 0
        for sc in srcs:
            if sc.name.endswith("::to_le_bytes") or sc.name.endswith("::to_be_bytes"):
                ty = pe.local_ty(op_local(sc.args[0])) if sc.args and op_local(sc.args[0]) is not None else ""
                w = max(w, {"u8": 1, "i8": 1, "u16": 2, "i16": 2, "u32": 4, "i32": 4, "u64": 8, "i64": 8, "f64": 8}.get(ty, 0))
            elif sc.name == PV_ENC:
                w = max(w, 1)
        total += w
    return total


def b_reach_self(b, x):
    out = set()
    for s in b.succs(x):
        out |= b.reachable([s]) | {s}
    return out


def exact_rejections(ctx, F, pe, psw, penc, pd, pdsw, pnames):
    from ..facts import op_const
    from ..mirutil import switch_on
    rid = "C25.6"
    ctx.rule(rid, "the decoder's length rejections are exactly the reads' needs; per-element size assumptions do not exceed what the encoder writes")
    tag_of_block = {}
    for val, tb in pdsw[1].items():
        for x in tables.dominated_region(pd, tb, pdsw[0]):
            tag_of_block.setdefault(x, val)
    variant_of_tag = {t: n for n, t in penc.items()}
    n_rej = 0
    per_tag = {}
    for x, blk in enumerate(pd.blocks):
        if pd.is_cleanup(x):
            continue
        if not any(st[0] == "a" and st[2][0] == "agg" and st[2][1] == "adt" and st[2][2] == "nervusdb_api::DecodeError" and st[2][3] == "InvalidLength"
                   for st in blk["s"]):
            continue
        preds = pd.preds(x)
        if len(preds) != 1:
            continue
        sw = switch_on(pd, preds[0])
        if sw is None or len(sw[2]) != 1:
            continue
        l, neg, arms, other = sw
        tb, fb = (other, arms[0][1]) if not neg else (arms[0][1], other)
        sd = pd.single_def(l)
        if not sd or sd[2] != "assign" or sd[3][2][0] != "bin":
            continue
        op, a, c = sd[3][2][1], sd[3][2][2], sd[3][2][3]
        if op not in ("Lt", "Gt", "Le", "Ge"):
            continue
        rejects_when_true = (x == tb)
        la, lc = op_local(a), op_local(c)
        a_len = la is not None and _is_input_len(pd, la)
        c_len = lc is not None and _is_input_len(pd, lc)
        tag = tag_of_block.get(x, "pre")
        ordn = per_tag.get(tag, 0)
        per_tag[tag] = ordn + 1
        key = "C25.6:tag(%s):reject#%d" % (tag, ordn)
        cont = fb if rejects_when_true else tb
        if a_len != c_len:
            # normalise to: reject iff len < X  (Lt(len,X) true / Gt(X,len) true / Ge(len,X) false / Le(X,len) false)
            strict = (op == "Lt" and a_len and rejects_when_true) or (op == "Gt" and c_len and rejects_when_true) or \
                     (op == "Ge" and a_len and not rejects_when_true) or (op == "Le" and c_len and not rejects_when_true)
            X = _term(pd, c if a_len else a)
            n_rej += 1
            needs = _needs_after(pd, cont)
            ctx.instance(rid, "tag %s: rejects when len %s %r; reads on the accepting branch need %s" % (tag, "<" if strict else "<=", X, sorted(set(map(repr, needs)))[:6]))
            ok = strict and X in needs
            ctx.oblige(ok, rid, key, "decoder tag %s returns InvalidLength when the input is %s %s bytes, but no read on the accepting branch needs "
                       "exactly that many: an encoding the encoder produces can be rejected (or the test is off by one)" % (tag, "shorter than" if strict else "at most", _show(pd, X)),
                       "%s:%d" % (pd.file, pd.line_of_block(preds[0])), sample={"tag": tag, "rejects_below": _show(pd, X), "reads_need": [_show(pd, t) for t in needs][:8]})
            continue
        # per-element size assumption: a constant K >= 2 dividing the remaining input or multiplying the count
        ks = []
        for side in (la, lc):
            if side is None:
                continue
            from .c26 import bslice
            ls, _ = bslice(pd, side, depth=8)
            for y in ls:
                sdy = pd.single_def(y)
                if sdy and sdy[2] == "assign" and sdy[3][2][0] == "bin" and sdy[3][2][1] in ("Div", "Mul", "MulWithOverflow", "MulUnchecked"):
                    for o in (sdy[3][2][2], sdy[3][2][3]):
                        k = op_const(o)
                        if k is not None and isinstance(k.get("v"), int) and k["v"] >= 2:
                            ks.append(k["v"])
        if ks:
            n_rej += 1
            vname = variant_of_tag.get(tag)
            vi = pnames.index(vname) if vname in pnames else None
            m = None
            if vi is not None and psw and vi in psw[1]:
                m = _encoder_min_elem(F, pe, tables.dominated_region(pe, psw[1][vi], psw[0]))
            ctx.instance(rid, "tag %s (%s): count test assumes %s bytes per element; the encoder writes at least %s" % (tag, vname, ks, m))
            ctx.oblige(m is not None and max(ks) <= m, rid, key, "decoder tag %s rejects a count that does not fit the remaining input at %d bytes per element, "
                       "but the encoder writes an element of PropertyValue::%s in as few as %s bytes: a value the encoder produces is rejected "
                       "(WAL replay fails, the stored property disappears)" % (tag, max(ks), vname, m), "%s:%d" % (pd.file, pd.line_of_block(preds[0])),
                       sample={"tag": tag, "assumed_bytes_per_element": max(ks), "encoder_minimum": m})
    ctx.floor(rid, "length rejections classified", n_rej, 12)


def _show(b, t):
    if isinstance(t, int):
        return str(t)
    if isinstance(t, tuple) and t and t[0] == "+":
        return " + ".join(_show(b, x) for x in t[1])
    if isinstance(t, tuple) and t and t[0] == "l":
        return b.local_name(t[1]) or "_%d" % t[1]
    return "?"


EXTRA_DECODERS = ["nervusdb_storage::csr::decode_page_lists", "nervusdb_storage::csr::decode_segment", "nervusdb_storage::csr::segment_data_page_ids",
                  "nervusdb_storage::csr::decode_offsets", "nervusdb_storage::csr::decode_edges", "nervusdb_storage::pager::Meta::decode_page",
                  "nervusdb_storage::idmap::I2eRecord::decode"]


def thorough(ctx):
    """thorough tier: the same BOUNDS obligations for the page-format decoders (segment meta page, offsets / edges blobs, file
    header, node-table record).  They are not log or value encodings, so they are reported under their own rule id."""
    F = ctx.facts
    ctx.rule("C25.T", "BOUNDS over the page-format decoders (thorough tier cross-reference)")
    for fn in EXTRA_DECODERS:
        if fn not in F.bodies:
            ctx.note("decoder %s not present" % fn)
            continue
        b = F.bodies[fn]
        ctx.analysed_fns.add(fn)
        an, obs = bounds.analyse(F, fn)
        k = 0
        for o in sorted(obs, key=lambda o: (o.line, o.bb, str(o.ordinal))):
            ok = bool(o.ok) and an.converged
            ctx.instance("C25.T", "%s %s#%d (%s): %s" % (fn.split("::")[-1], o.kind, k, o.desc, "discharged" if ok else "OPEN"))
            ctx.oblige(ok, "C25.T", "%s:%s#%d" % (fn, o.kind, k),
                       "page decoder indexes beyond the length established on this path (%s)" % o.desc, "%s:%d" % (b.file, o.line))
            k += 1
