"""C32 — Node identities are unique and allocation never fails (PROV)."""
from ..facts import op_local
from ..mirutil import backward_calls, site_key

EXPLANATION = (
    "Decides: no external identity handed to WriteableGraph::create_node by the query executor may be data-dependent on a wall-clock source "
    "(chrono::Utc::now, SystemTime::now, Instant::now): the backward data slice of the external-id argument of every create_node call in "
    "nervusdb_query::executor is searched for clock calls. An identity derived from the clock plus a per-statement counter is unique only while the "
    "clock is strictly monotonic across statements and processes, and `duplicate external id` makes node creation fail. Uniqueness of what a "
    "persisted allocator would hand out is not decided."
    " C32.2: the id map's high-water mark (dense internal ids) and every other engine state begin_write touches is read under the writer mutex."
    " C32.3: IdMap.e2i is only ever added to."
)

CREATE = "nervusdb_query::executor::WriteableGraph::create_node"
CLOCKS = ("chrono::offset::utc::Utc::now", "std::time::SystemTime::now", "std::time::Instant::now", "chrono::offset::local::Local::now")


def run(ctx):
    F = ctx.facts
    ctx.rule("C32.1", "external ids passed to create_node do not derive from a clock")
    n = 0
    for i, b in sorted(F.bodies.items()):
        if not i.startswith("nervusdb_query::executor") or "::tests::" in i:
            continue
        for c in b.calls():
            if c.declared != CREATE:
                continue
            n += 1
            ctx.analysed_fns.add(i)
            l = op_local(c.args[1]) if len(c.args) > 1 else None
            calls = backward_calls(b, l) if l is not None else []
            clocks = sorted({x.name for x in calls if x.name in CLOCKS or x.name.endswith(("::now",))})
            srcs = sorted({x.name.split("::")[-1] for x in calls})
            ctx.instance("C32.1", "%s: %s external id derives from %s" % (i, site_key(c), srcs[:8]))
            ctx.oblige(not clocks, "C32.1", "%s:%s:clock-derived-id" % (b.root or i, site_key(c)),
                       "the new node's identity is computed from the system clock (%s) plus a per-statement counter: two statements in the same "
                       "clock tick, a clock step backwards, or another process produce an identity that already exists and the CREATE fails "
                       "(or collides)" % [x.split("::")[-1] for x in clocks], c.loc(), sample={"fn": i, "site": c.loc(), "clock": clocks})
    ctx.floor("C32.1", "create_node call sites in the executor", n, 2)
    # internal (dense) node ids are handed out from the id map's high-water mark: that read must happen under the writer mutex,
    # otherwise a writer queued behind another one allocates from a stale base and two nodes get the same identity
    from .c09 import writer_rmw_rule
    writer_rmw_rule(ctx, "C32.2")

    # ---- clause 3: the identity registry never forgets ------------------------------------------------------------------
    # Every duplicate check (WriteTxn::create_node, IdMap::apply_create_node_multi_label at commit, WAL replay) is answered from the in-memory
    # external -> internal map `e2i`.  Node records are never removed from the table (a deleted node keeps its record and its internal id), so
    # the map may only grow: removing the entry of a deleted node makes its external id look free, a second node receives the same identity and
    # the next reopen fails with `external id remapped`.
    from ..mirutil import recv_field
    ctx.rule("C32.3", "IdMap.e2i (external id -> internal id) is only ever added to: no remove / retain / clear, no whole-map assignment outside construction / load")
    IDMAP = "nervusdb_storage::idmap::IdMap"
    ADD = ("insert", "extend", "reserve", "entry", "or_insert", "try_insert")
    n3 = 0
    for i, b in sorted(F.bodies.items()):
        if not i.startswith("nervusdb_storage::") or "::tests::" in i:
            continue
        k = 0
        for c in b.calls():
            if not c.args or c.args[0][0] not in ("c", "m"):
                continue
            fld = recv_field(b, c)
            if not fld or fld[0] != "e2i" or fld[1] != IDMAP:
                continue
            if not b.local_ty(c.args[0][1][0]).startswith("&mut"):
                continue
            n3 += 1
            short = c.name.split("::")[-1]
            ctx.instance("C32.3", "%s: e2i.%s (%s)" % (i, short, c.loc()))
            ctx.oblige(short in ADD, "C32.3", "%s:e2i.%s#%d" % (b.root or i, short, k),
                       "the external-id registry shrinks (`%s`): the id of a deleted node is handed out again while its node record still exists — two nodes "
                       "share one identity and the database cannot be reopened" % short, c.loc())
            k += 1
        for blk in b.blocks:
            if blk["c"]:
                continue
            for st in blk["s"]:
                if st[0] == "a" and st[1][1] and isinstance(st[1][1][-1], list) and st[1][1][-1][0] == "f" and st[1][1][-1][2] == "e2i" and st[1][1][-1][3] == IDMAP:
                    n3 += 1
                    ok = i.endswith(("IdMap::load", "IdMap::new", "IdMap::default"))
                    ctx.instance("C32.3", "%s: assigns e2i as a whole" % i)
                    ctx.oblige(ok, "C32.3", "%s:e2i-replaced" % (b.root or i), "the external-id registry is replaced as a whole outside load", "%s:%d" % (b.file, st[3]))
    ctx.floor("C32.3", "mutating accesses to IdMap.e2i", n3, 1)
