"""C32 — Node identities are unique and allocation never fails (PROV)."""
from ..facts import op_local
from ..mirutil import backward_calls, site_key

EXPLANATION = (
    "Decides: no external identity handed to WriteableGraph::create_node by the query executor may be data-dependent on a wall-clock source "
    "(chrono::Utc::now, SystemTime::now, Instant::now): the backward data slice of the external-id argument of every create_node call in "
    "nervusdb_query::executor is searched for clock calls. An identity derived from the clock plus a per-statement counter is unique only while the "
    "clock is strictly monotonic across statements and processes, and `duplicate external id` makes node creation fail. Uniqueness of what a "
    "persisted allocator would hand out is not decided."
    " C32.2: the id map's high-water mark (dense internal ids) and every other engine state begin_write touches is read under the writer mutex."
    " C32.3: IdMap.e2i is only ever added to."
    " C32.4: the per-statement counter mixed into a clock-derived external id advances between any two creations (through the creating function's `&mut` parameter on every success path, by the callers between consecutive calls when it is passed by value, or on every loop path for a local counter)."
)

CREATE = "nervusdb_query::executor::WriteableGraph::create_node"
CLOCKS = ("chrono::offset::utc::Utc::now", "std::time::SystemTime::now", "std::time::Instant::now", "chrono::offset::local::Local::now")


def run(ctx):
    F = ctx.facts
    ctx.rule("C32.1", "external ids passed to create_node do not derive from a clock")
    n = 0
    for i, b in sorted(F.bodies.items()):
        if not i.startswith("nervusdb_query::executor") or "::tests::" in i:
            continue
        for c in b.calls():
            if c.declared != CREATE:
                continue
            n += 1
            ctx.analysed_fns.add(i)
            l = op_local(c.args[1]) if len(c.args) > 1 else None
            calls = backward_calls(b, l) if l is not None else []
            clocks = sorted({x.name for x in calls if x.name in CLOCKS or x.name.endswith(("::now",))})
            srcs = sorted({x.name.split("::")[-1] for x in calls})
            ctx.instance("C32.1", "%s: %s external id derives from %s" % (i, site_key(c), srcs[:8]))
            ctx.oblige(not clocks, "C32.1", "%s:%s:clock-derived-id" % (b.root or i, site_key(c)),
                       "the new node's identity is computed from the system clock (%s) plus a per-statement counter: two statements in the same "
                       "clock tick, a clock step backwards, or another process produce an identity that already exists and the CREATE fails "
                       "(or collides)" % [x.split("::")[-1] for x in clocks], c.loc(), sample={"fn": i, "site": c.loc(), "clock": clocks})
    ctx.floor("C32.1", "create_node call sites in the executor", n, 2)
    salt_rule(ctx)
    # internal (dense) node ids are handed out from the id map's high-water mark: that read must happen under the writer mutex,
    # otherwise a writer queued behind another one allocates from a stale base and two nodes get the same identity
    from .c09 import writer_rmw_rule
    writer_rmw_rule(ctx, "C32.2")

    # ---- clause 3: the identity registry never forgets ------------------------------------------------------------------
    # Every duplicate check (WriteTxn::create_node, IdMap::apply_create_node_multi_label at commit, WAL replay) is answered from the in-memory
    # external -> internal map `e2i`.  Node records are never removed from the table (a deleted node keeps its record and its internal id), so
    # the map may only grow: removing the entry of a deleted node makes its external id look free, a second node receives the same identity and
    # the next reopen fails with `external id remapped`.
    from ..mirutil import recv_field
    ctx.rule("C32.3", "IdMap.e2i (external id -> internal id) is only ever added to: no remove / retain / clear, no whole-map assignment outside construction / load")
    IDMAP = "nervusdb_storage::idmap::IdMap"
    ADD = ("insert", "extend", "reserve", "entry", "or_insert", "try_insert")
    n3 = 0
    for i, b in sorted(F.bodies.items()):
        if not i.startswith("nervusdb_storage::") or "::tests::" in i:
            continue
        k = 0
        for c in b.calls():
            if not c.args or c.args[0][0] not in ("c", "m"):
                continue
            fld = recv_field(b, c)
            if not fld or fld[0] != "e2i" or fld[1] != IDMAP:
                continue
            if not b.local_ty(c.args[0][1][0]).startswith("&mut"):
                continue
            n3 += 1
            short = c.name.split("::")[-1]
            ctx.instance("C32.3", "%s: e2i.%s (%s)" % (i, short, c.loc()))
            ctx.oblige(short in ADD, "C32.3", "%s:e2i.%s#%d" % (b.root or i, short, k),
                       "the external-id registry shrinks (`%s`): the id of a deleted node is handed out again while its node record still exists — two nodes "
                       "share one identity and the database cannot be reopened" % short, c.loc())
            k += 1
        for blk in b.blocks:
            if blk["c"]:
                continue
            for st in blk["s"]:
                if st[0] == "a" and st[1][1] and isinstance(st[1][1][-1], list) and st[1][1][-1][0] == "f" and st[1][1][-1][2] == "e2i" and st[1][1][-1][3] == IDMAP:
                    n3 += 1
                    ok = i.endswith(("IdMap::load", "IdMap::new", "IdMap::default"))
                    ctx.instance("C32.3", "%s: assigns e2i as a whole" % i)
                    ctx.oblige(ok, "C32.3", "%s:e2i-replaced" % (b.root or i), "the external-id registry is replaced as a whole outside load", "%s:%d" % (b.file, st[3]))
    ctx.floor("C32.3", "mutating accesses to IdMap.e2i", n3, 1)


def salt_rule(ctx, rid="C32.4"):
    """the per-statement counter mixed into a generated external id advances between any two creations"""
    from ..mirutil import value_root, peel_refs
    from ..facts import op_const
    F = ctx.facts
    ctx.rule(rid, "wherever a generated external id mixes in a per-statement counter, the counter is incremented between any two creations "
             "(inside the creating function through its `&mut` parameter, or by the caller between consecutive calls): two nodes created by one statement "
             "within one clock tick must not receive the same identity")

    def increments(b, target_is):
        """blocks that store `x + 1` back to the counter; target_is(place) says whether a place is the counter"""
        out = set()
        for bi, blk in enumerate(b.blocks):
            for st in blk["s"]:
                if st[0] != "a" or not target_is(st[1]):
                    continue
                rv = st[2]
                src = rv[1] if rv[0] == "use" and rv[1][0] in ("c", "m") else None
                if src is not None and src[1][1]:
                    sd = b.single_def(src[1][0])
                    r2 = sd[3][2] if sd and sd[2] == "assign" else None
                    if r2 and r2[0] == "bin" and r2[1] == "AddWithOverflow" and op_const(r2[3]) is not None and op_const(r2[3]).get("v", 0) >= 1:
                        out.add(bi)
                elif rv[0] == "bin" and rv[1] in ("Add", "AddWithOverflow"):
                    out.add(bi)
        return out

    n = 0
    for i, b in sorted(F.bodies.items()):
        if not i.startswith("nervusdb_query::executor") or "::tests::" in i or b.kind == "closure":
            continue
        creates = [c for c in b.calls() if c.declared == CREATE]
        for c in creates:
            l = op_local(c.args[1]) if len(c.args) > 1 else None
            calls = backward_calls(b, l) if l is not None else []
            if not any(x.name in CLOCKS or x.name.endswith("::now") for x in calls):
                continue
            # the counter: a u32 / usize / u64 local or `*param` widened and added to the clock value
            from .c26 import bslice
            ls, _ = bslice(b, l, depth=14)
            cands = []
            for x in ls:
                sd = b.single_def(x)
                if sd and sd[2] == "assign" and sd[3][2][0] == "cast" and sd[3][2][1] == "IntToInt":
                    src = sd[3][2][2]
                    if src[0] in ("c", "m"):
                        cands.append(src[1])
            cands = [pl for pl in cands if "u32" in b.local_ty(pl[0]) or "usize" in b.local_ty(pl[0])]
            if len(cands) != 1:
                continue
            n += 1
            pl = cands[0]
            # resolve the counter to: a place behind a `&mut` reference, a by-value parameter, or a local of this function
            for _ in range(6):
                if pl[1]:
                    break
                sd = b.single_def(pl[0])
                if sd and sd[2] == "assign" and sd[3][2][0] == "use" and sd[3][2][1][0] in ("c", "m"):
                    pl = sd[3][2][1][1]
                    continue
                break
            base = pl[0]
            short = (b.root or i).split("::")[-1]
            if pl[1] == ["*"] and b.local_ty(base).startswith("&mut"):
                # counter behind a &mut parameter: every success return after the creation passes an increment through it
                root = value_root(b, base)
                inc = increments(b, lambda p: p[1] == ["*"] and value_root(b, p[0]) == root)
                from .. import paths
                rets = [r for r in b.return_blocks() if r in b.reachable([c.bb], avoid=inc | paths.fail_blocks(b))]
                ctx.instance(rid, "%s: counter behind `&mut` parameter, incremented at %s" % (short, sorted(inc)))
                ctx.oblige(bool(inc) and not rets, rid, "%s:%s:callee-increment" % (rid, short),
                           "%s creates a node with an id salted by a counter it does not advance on every success path" % short, c.loc())
            elif not pl[1] and 1 <= base <= b.argc and not b.defs().get(base):
                # by-value parameter: the callers must advance their counter between consecutive calls
                pi = base
                ctx.instance(rid, "%s: counter is a by-value parameter (#%d), callers checked" % (short, pi))
                for ci, cb in sorted(F.bodies.items()):
                    sites = [x for x in cb.calls() if x.name == i]
                    if not sites:
                        continue
                    for s1 in sites:
                        a = op_local(s1.args[pi - 1]) if len(s1.args) >= pi else None
                        var = value_root(cb, a) if a is not None else None
                        inc = increments(cb, lambda p: not p[1] and p[0] == var)
                        for s2 in sites:
                            if s2.bb in cb.reachable([s1.bb], avoid=inc):
                                ctx.oblige(False, rid, "%s:%s:%s->%s:no-increment" % (rid, ci.split("::")[-1], "call#%d" % s1.ordinal, "call#%d" % s2.ordinal),
                                           "%s can create two nodes (%s, then %s) without advancing the counter that salts their generated ids: within one clock "
                                           "tick both receive the same external id" % (ci.split("::")[-1], s1.loc(), s2.loc()), s2.loc())
            else:
                # a local counter of this function: every path from the creation back to itself passes an increment
                var = value_root(b, base)
                inc = increments(b, lambda p: not p[1] and p[0] == var)
                again = c.bb in b.reachable([c.bb], avoid=inc) and any(c.bb in b.reachable([s]) for s in b.succs(c.bb))
                # is the creation inside a loop at all?
                in_loop = c.bb in set().union(*[b.reachable([s]) for s in b.succs(c.bb)]) if b.succs(c.bb) else False
                bad = in_loop and c.bb in b.reachable(list(b.succs(c.bb)), avoid=inc)
                ctx.instance(rid, "%s: local counter _%d, incremented at %s" % (short, var, sorted(inc)))
                ctx.oblige(not bad, rid, "%s:%s:loop-increment" % (rid, short),
                           "%s can create a second node without advancing the counter that salts the generated id" % short, c.loc())
    ctx.floor(rid, "clock-salted creation sites", n, 2)
