"""C04 — Reopen preserves logical content (structural necessary conditions)."""
from .. import model as M
from .. import paths
from ..mirutil import recv_field, recv_fields, backward_calls, backward_slice, switch_on
from ..facts import op_local

EXPLANATION = (
    "Decides: (1) log order replays to the same memtable — because MemTable::tombstone_edge erases a staged edge (premise re-checked on "
    "every run), every append(TombstoneEdge) in commit must precede every append(CreateEdge); (2) every node-table mutation that replay "
    "performs (IdMap::apply_*) reaches a page write, because a checkpoint lets recovery skip the log records that carry it, and the "
    "close-time rewrite re-emits CreateLabel records; (3) rewrite_as_snapshot runs only on the `published runs are empty` arm. "
    "It does not decide equality of dumps."
    " C04.5: only node creation writes I2E records / assigns their label slot. C04.6 / C04.7 (CODEC): writer and reader of the meta page, the node-table record, the CSR segment meta page, the statistics blob and the index catalog page agree on {byte range -> field} resp. on the sequence of widths and names. C04.8: the id registries (LabelInterner.s2i / i2s, IdMap.i2e / i2l) only grow."
    " C04.9: for every two WalRecord kinds whose replay arm calls an IdMap applier (CreateNode, AddNodeLabel, RemoveNodeLabel), WriteTxn::commit appends them in the same relative order in which it calls those appliers on the live node table, so replaying the log reproduces the state the transaction left behind."
    " C04.10: every per-element append loop of WriteTxn::commit reaches its append for every element (no path from the Some arm of the iterator back to the iterator avoids the append, error exits aside)."
)

MEM = "nervusdb_storage::memtable::MemTable"
REPLAY = "nervusdb_storage::engine::replay_graph_transactions"


def run(ctx):
    F = ctx.facts
    ctx.rule("C04.1", "commit logs TombstoneEdge before CreateEdge (replay's tombstone_edge erases staged edges)")
    ctx.rule("C04.2", "every IdMap::apply_* that replay calls persists its effect to pages; close rewrite re-emits CreateLabel")
    ctx.rule("C04.3", "rewrite_as_snapshot is reachable only when the published runs are empty")
    ctx.rule("C04.4", "the checkpoint watermark (up_to_txid) is below every transaction id that can still be handed out")
    log_order_rule(ctx)
    log_all_rule(ctx)

    # ---- clause 1 ---------------------------------------------------------
    tb = ctx.body(MEM + "::tombstone_edge")
    erases = False
    for c in tb.calls():
        base, fields = recv_fields(tb, c, 0)
        if any(f in ("out", "in_") and adt == MEM for f, adt in fields) and c.name.split("::")[-1] in ("get_mut", "remove", "retain"):
            erases = True
    rb = ctx.body(REPLAY)
    replay_uses = {c.name.split("::")[-1] for c in rb.calls() if c.name.startswith(MEM + "::")}
    premise = erases and {"create_edge", "tombstone_edge"} <= replay_uses
    ctx.instance("C04.1", "premise: tombstone_edge erases staged edges=%s; replay applies %s" % (erases, sorted(replay_uses)))
    b = ctx.body(M.COMMIT)
    creates = [c for c in b.calls() if c.name == M.WAL_APPEND and M.wal_append_variant(b, c) == "CreateEdge"]
    tombs = [c for c in b.calls() if c.name == M.WAL_APPEND and M.wal_append_variant(b, c) == "TombstoneEdge"]
    ctx.floor("C04.1", "CreateEdge/TombstoneEdge appends in commit", min(len(creates), len(tombs)), 1)
    for cr in creates:
        for tm in tombs:
            ctx.instance("C04.1", "commit: append(CreateEdge)#%d vs append(TombstoneEdge)#%d" % (cr.ordinal, tm.ordinal))
            after = b.reachable([cr.target]) if cr.target is not None else set()
            bad = premise and tm.bb in after
            ctx.oblige(not bad, "C04.1", "commit:CreateEdge#%d-before-TombstoneEdge#%d" % (cr.ordinal, tm.ordinal),
                       "CreateEdge records are logged before TombstoneEdge records; on replay tombstone_edge erases the re-created edge, "
                       "so delete+recreate of a relationship in one transaction disappears after reopen", tm.loc(),
                       sample={"create": cr.loc(), "tombstone": tm.loc(), "premise": premise})

    # ---- clause 2 ---------------------------------------------------------
    reach_w = paths.Reach(F, {M.WRITE_PAGE_RAW})
    applied = sorted({c.name for c in rb.calls() if c.name in M.IDMAP_APPLY})
    ctx.floor("C04.2", "IdMap::apply_* used by replay", len(applied), 3)
    for fn in applied:
        ctx.body(fn)
        ok = fn in reach_w.reaching
        ctx.instance("C04.2", "%s persists=%s" % (fn, ok))
        ctx.oblige(ok, "C04.2", fn + ":memory-only",
                   "this node-table mutation is kept only in memory; once a checkpoint lets recovery skip its log record, "
                   "the change (extra / removed labels) is gone after reopen", F.bodies[fn].file,
                   sample={"fn": fn, "reaches_write_page_raw": ok})
    cb = ctx.body(M.CHECKPOINT_ON_CLOSE)
    emits = any(st[0] == "a" and st[2][0] == "agg" and st[2][2] == M.WALRECORD and st[2][3] == "CreateLabel"
                for blk in cb.blocks for st in blk["s"])
    ctx.instance("C04.2", "checkpoint_on_close re-emits CreateLabel=%s" % emits)
    ctx.oblige(emits, "C04.2", "checkpoint_on_close:CreateLabel-reemit",
               "the close-time WAL rewrite does not re-emit label definitions", cb.file)

    # ---- clause 3 ---------------------------------------------------------
    rws = [c for c in cb.calls() if c.name == M.WAL_REWRITE]
    ctx.floor("C04.3", "rewrite sites", len(rws), 1)
    guards = []
    for bi in range(len(cb.blocks)):
        sw = switch_on(cb, bi)
        if not sw:
            continue
        l, neg, arms, other = sw
        sd = cb.single_def(l)
        if not sd or sd[2] != "call":
            continue
        c = cb.call_at(sd[0])
        if c is None or not c.name.endswith("::is_empty"):
            continue
        src = backward_calls(cb, op_local(c.args[0])) if c.args else []
        from_runs = any(M.is_rw_read(x.name) and (recv_field(cb, x, 0) or ("",))[0] == "published_runs" for x in src)
        if not from_runs:
            continue
        # target taken when is_empty() is false
        nonempty = None
        for v, tb_ in arms:
            truth = bool(v)
            if neg:
                truth = not truth
            if truth is False:
                nonempty = tb_
        if nonempty is None:
            # value 0 listed always in MIR for bool switches; otherwise branch
            nonempty = other if not neg else None
        guards.append((bi, nonempty))
    for c in rws:
        ctx.instance("C04.3", "checkpoint_on_close: rewrite_as_snapshot#%d guards=%s" % (c.ordinal, guards))
        ok = False
        for gb, nonempty in guards:
            if cb.dominates(gb, c.bb) and nonempty is not None and c.bb not in cb.reachable([nonempty]):
                ok = True
        ctx.oblige(ok, "C04.3", "checkpoint_on_close:rewrite#%d-unguarded" % c.ordinal,
                   "the WAL is rewritten as a snapshot although published runs (data that exists only in the log) may be non-empty", c.loc(),
                   sample={"rewrite": c.loc(), "guards": guards})

    # ---- clause 4 ---------------------------------------------------------
    # Recovery skips every transaction whose id is <= Checkpoint.up_to_txid.  If the watermark can equal an id that
    # `next_txid` hands out later, that later (acknowledged) transaction is skipped on the next reopen.
    n4 = 0
    for fn in (M.COMPACT, M.CHECKPOINT_ON_CLOSE):
        b = ctx.body(fn)
        allocs = [c for c in b.calls() if c.name.endswith("::fetch_add") and (recv_field(b, c, 0) or ("",))[0] == "next_txid"]
        for bi, blk in enumerate(b.blocks):
            for st in blk["s"]:
                if not (st[0] == "a" and st[2][0] == "agg" and st[2][2] == M.WALRECORD and st[2][3] == "Checkpoint"):
                    continue
                ops = dict(zip(st[2][5], st[2][4]))
                l = op_local(ops["up_to_txid"]) if "up_to_txid" in ops else None
                if l is None:
                    continue
                n4 += 1
                calls, fields = backward_slice(b, l)
                loads = [c for c in calls if M.is_atomic_load(c.name) and (recv_field(b, c, 0) or ("",))[0] == "next_txid"]
                if not loads:
                    srcs = sorted({c.name.split("::")[-1] for c in calls})
                    ctx.instance("C04.4", "%s: watermark derives from %s (not from the id allocator)" % (fn.split("::")[-1], srcs[:6]))
                    ctx.oblige(True, "C04.4", fn + ":watermark", "")
                    continue
                minus = [c for c in calls if c.name.split("::")[-1] in ("saturating_sub", "checked_sub", "wrapping_sub")]
                before_alloc = all(not any(ld.bb in b.reachable([a.target]) for a in allocs if a.target is not None) for ld in loads)
                ctx.instance("C04.4", "%s: watermark = next_txid load, minus-one=%s, loaded before any id allocation=%s" % (fn.split("::")[-1], bool(minus), before_alloc))
                ctx.oblige(bool(minus) and before_alloc, "C04.4", fn + ":watermark-covers-unallocated-txid",
                           "the checkpoint watermark is taken from the id allocator without staying below the next id it will hand out "
                           "(missing `- 1`, or read after this function allocated an id): the first transaction committed after reopen gets a "
                           "txid <= up_to_txid and is skipped by recovery on the following reopen", "%s:%d" % (b.file, st[3]),
                           sample={"fn": fn, "loads": [x.loc() for x in loads], "allocs": [x.loc() for x in allocs]})
    ctx.floor("C04.4", "Checkpoint records built in the engine", n4, 2)

    # ---- clause 5: the node table's label slot is the creation label -------------------------------------
    # An I2E record stores one label.  Recovery skips CreateNode for nodes that are already in the table, so the creation label is never
    # re-applied from the log: the slot is its only durable copy, while labels added later are re-applied from AddNodeLabel records.
    # Any other writer of the slot (e.g. "keep it equal to the node's first label") replaces the creation label by one that replay
    # re-adds anyway, and the creation label is gone after reopen.
    ctx.rule("C04.5", "I2E records are written, and I2eRecord.label_id is assigned, only by node creation (and decoding)")
    WRITE_I2E = "nervusdb_storage::idmap::write_i2e_record"
    ALLOWED = ("nervusdb_storage::idmap::IdMap::apply_create_node_multi_label", "nervusdb_storage::idmap::IdMap::apply_create_node",
               "nervusdb_storage::idmap::I2eRecord::decode", "nervusdb_storage::bulkload::")
    ctx.body(WRITE_I2E)
    n5 = 0
    for x in sorted(F.callers().get(WRITE_I2E, ())):
        n5 += 1
        ctx.instance("C04.5", "write_i2e_record caller %s" % x)
        ctx.oblige(x.startswith(ALLOWED), "C04.5", "i2e-writer:" + x,
                   "%s rewrites a node-table record outside node creation: the record's single label slot is the only durable copy of the creation "
                   "label, so overwriting it loses that label at the next reopen" % x.split("::")[-1], F.bodies[x].file)
    for i, b in sorted(F.bodies.items()):
        if not i.startswith("nervusdb_storage::") or "::tests::" in i:
            continue
        for blk in b.blocks:
            for st in blk["s"]:
                if st[0] == "a" and any(isinstance(p_, list) and p_[0] == "f" and p_[2] == "label_id" and "I2eRecord" in str(p_[3]) for p_ in st[1][1]):
                    n5 += 1
                    ctx.instance("C04.5", "%s assigns I2eRecord.label_id (%s:%d)" % (i, b.file, st[3]))
                    ctx.oblige(i.startswith(ALLOWED), "C04.5", "label-slot-assigned:" + (b.root or i),
                               "%s assigns the label slot of an existing node-table record" % i.split("::")[-1], "%s:%d" % (b.file, st[3]))
    ctx.floor("C04.5", "writers of I2E records", n5, 1)

    # ---- clause 6: fixed-layout codecs agree ------------------------------------------------------------------
    # The meta page and the node-table records are written at fixed byte ranges and read back at fixed byte ranges by a separate function.
    # Reopen restores the high-water marks, the node table location and each node's external id / label from them, so the writer's table
    # {byte range -> field} and the reader's must be the same table (two equally wide fields swapped on one side decode without any error).
    from .. import codec
    ctx.rule("C04.6", "writer and reader of the meta page and of the node-table record agree on {byte range -> field}")
    for enc, dec, floor in (("nervusdb_storage::pager::Meta::encode_page", "nervusdb_storage::pager::Meta::decode_page", 10),
                            ("nervusdb_storage::idmap::I2eRecord::encode", "nervusdb_storage::idmap::I2eRecord::decode", 3)):
        w = {k: v for k, v in codec.writer_table(ctx.body(enc)).items() if v}
        r = {k: v for k, v in codec.reader_table(ctx.body(dec)).items() if v}
        ctx.floor("C04.6", "named ranges written by %s" % enc.split("::")[-2], len(w), floor)
        ctx.floor("C04.6", "named ranges read by %s" % dec.split("::")[-2], len(r), floor)
        for rng in sorted(set(w) | set(r)):
            ctx.instance("C04.6", "%s bytes %d..%d: written %s, read as %s" % (enc.split("::")[-2], rng[0], rng[1], w.get(rng), r.get(rng)))
            ctx.oblige(w.get(rng) == r.get(rng), "C04.6", "%s:bytes[%d..%d]" % (enc.split("::")[-2], rng[0], rng[1]),
                       "bytes %d..%d hold `%s` when written and are read back as `%s`: after reopen the value of one field is taken for another" % (rng[0], rng[1], w.get(rng), r.get(rng)),
                       ctx.body(dec).file)
    # the CSR segment meta page: written through a cursor (offsets accumulate from the field widths), read at fixed ranges by
    # decode_segment / decode_page_lists on every open
    cw = {k: v for k, v in codec.cursor_writer_table(ctx.body("nervusdb_storage::csr::encode_meta")).items() if v}
    cr = dict(codec.reader_table(ctx.body("nervusdb_storage::csr::decode_segment")))
    cr.update(codec.reader_table(ctx.body("nervusdb_storage::csr::decode_page_lists")))
    cr = {k: v for k, v in cr.items() if v}
    ctx.floor("C04.6", "named ranges written by csr::encode_meta", len(cw), 13)
    ctx.floor("C04.6", "named ranges read by csr::decode_segment / decode_page_lists", len(cr), 13)
    for rng in sorted(set(cw) | set(cr)):
        ctx.instance("C04.6", "csr meta bytes %d..%d: written %s, read as %s" % (rng[0], rng[1], cw.get(rng), cr.get(rng)))
        ctx.oblige(cw.get(rng) == cr.get(rng), "C04.6", "csr-meta:bytes[%d..%d]" % rng,
                   "segment meta bytes %d..%d hold `%s` when written and are read back as `%s`: every reopen after a compaction mis-reads the segment" % (rng[0], rng[1], cw.get(rng), cr.get(rng)),
                   "nervusdb-storage/src/csr.rs")

    # ---- clause 7: sequential codecs ---------------------------------------------------------------------------
    # The statistics blob and the index catalog page are variable-length: both sides walk them front to back.  The writer's sequence of
    # integer widths (and, where both sides name the value, the names) must equal the reader's: reopen takes index ids and roots, and the
    # per-label counts, from these bytes.
    ctx.rule("C04.7", "sequential codecs (statistics blob, index catalog page) write and read the same sequence of integer widths, with the same names where both sides name them")
    for enc, dec, floor in (("nervusdb_storage::stats::GraphStatistics::encode", "nervusdb_storage::stats::GraphStatistics::decode", 8),
                            ("nervusdb_storage::index::catalog::encode_catalog_page", "nervusdb_storage::index::catalog::decode_catalog_page", 4)):
        w = codec.seq_writer(ctx.body(enc))
        r = codec.seq_reader(ctx.body(dec))
        ctx.floor("C04.7", "integers written by %s" % enc.split("::")[-1], len(w), floor)
        what = enc.split("::")[-2] if "::encode" == enc[-8:] else enc.split("::")[-1]
        ctx.instance("C04.7", "%s writes %s ; reads %s" % (what, w, r))
        ctx.oblige([x[1] for x in w] == [x[1] for x in r], "C04.7", "%s:width-sequence" % what,
                   "the writer emits integer widths %s but the reader consumes %s: everything behind the first difference is mis-read after reopen" % ([x[1] for x in w], [x[1] for x in r]), ctx.body(dec).file)
        for k, ((wn, _), (rn, _)) in enumerate(zip(w, r)):
            if wn and rn:
                ctx.oblige(wn == rn, "C04.7", "%s:name#%d" % (what, k),
                           "position %d is written from `%s` and read back as `%s`" % (k, wn, rn), ctx.body(dec).file)

    # ---- clause 8: id registries are append-only ------------------------------------------------------------------------
    # Label / relationship-type ids and internal node ids are *positions* (index into LabelInterner.i2s, IdMap.i2e / i2l) that are written
    # into WAL records, node-table pages, segments and property keys.  They keep their meaning across reopen only if the registries never
    # shrink or reorder: push / insert only (a node's label list may be edited in place through get_mut, the outer vectors may not).
    from ..mirutil import recv_field as _rf
    ctx.rule("C04.8", "LabelInterner.s2i / i2s and IdMap.i2e / i2l only grow (push / insert; in-place edits of a node's label list through get_mut): no remove / truncate / clear / swap, no whole assignment outside load")
    REG = {("s2i", "nervusdb_storage::label_interner::LabelInterner"), ("i2s", "nervusdb_storage::label_interner::LabelInterner"),
           ("i2e", "nervusdb_storage::idmap::IdMap"), ("i2l", "nervusdb_storage::idmap::IdMap")}
    GROW = ("push", "insert", "extend", "reserve", "get_mut", "deref_mut", "index_mut", "entry", "or_insert", "iter_mut")
    n8 = 0
    for i, b in sorted(F.bodies.items()):
        if not i.startswith("nervusdb_storage::") or "::tests::" in i:
            continue
        k = 0
        for c in b.calls():
            if not c.args or c.args[0][0] not in ("c", "m"):
                continue
            f_ = _rf(b, c)
            if not f_ or tuple(f_) not in REG or not b.local_ty(c.args[0][1][0]).startswith("&mut"):
                continue
            n8 += 1
            short = c.name.split("::")[-1]
            ctx.instance("C04.8", "%s: %s.%s" % (i.split("::", 1)[1], f_[0], short))
            ctx.oblige(short in GROW, "C04.8", "%s:%s.%s#%d" % (b.root or i, f_[0], short, k),
                       "the id registry `%s` shrinks or is reordered (`%s`): ids already written to the log, the node table, segments and property keys change their meaning" % (f_[0], short), c.loc())
            k += 1
        for blk in b.blocks:
            if blk["c"]:
                continue
            for st in blk["s"]:
                if st[0] == "a" and st[1][1] and isinstance(st[1][1][-1], list) and st[1][1][-1][0] == "f" and (st[1][1][-1][2], st[1][1][-1][3]) in REG:
                    n8 += 1
                    okw = i.endswith(("::load", "::new", "::default", "::from_snapshot", "::from_parts"))
                    ctx.instance("C04.8", "%s assigns %s as a whole" % (i.split("::", 1)[1], st[1][1][-1][2]))
                    ctx.oblige(okw, "C04.8", "%s:%s-replaced" % (b.root or i, st[1][1][-1][2]), "an id registry is replaced as a whole outside construction / load", "%s:%d" % (b.file, st[3]))
    ctx.floor("C04.8", "mutating accesses to the id registries", n8, 10)


def log_order_rule(ctx, rid="C04.9"):
    """commit appends the node-table records in the order in which it applies them to the live node table (replay applies in log order)"""
    from .. import tables
    F = ctx.facts
    ctx.rule(rid, "for every two record kinds that replay hands to an IdMap applier, commit logs them in the order in which it applies them live")
    rb = ctx.body(REPLAY)
    adt = ctx.adt(M.WALRECORD)
    names = [v["name"] for v in adt["variants"]]
    sw = tables.enum_switch(rb, M.WALRECORD, F)
    table = {}
    if sw:
        for vi, tb in sw[1].items():
            for x in tables.dominated_region(rb, tb, sw[0]):
                c = rb.call_at(x)
                if c is not None and c.name in M.IDMAP_APPLY:
                    table.setdefault(names[vi], set()).add(c.name)
    table = {v: sorted(a)[0] for v, a in table.items() if len(a) == 1}
    ctx.floor(rid, "record kinds applied to the node table by replay", len(table), 3)
    b = ctx.body(M.COMMIT)
    logged = {}
    for c in b.calls():
        if c.name == M.WAL_APPEND:
            v = M.wal_append_variant(b, c)
            if v in table:
                logged.setdefault(v, []).append(c)
    live = {}
    for c in b.calls():
        if c.name in table.values():
            live.setdefault(c.name, []).append(c)

    def order(xs, ys):
        fw = any(y.bb in b.reachable([x.bb]) for x in xs for y in ys)
        bw = any(x.bb in b.reachable([y.bb]) for x in xs for y in ys)
        return "before" if fw and not bw else ("after" if bw and not fw else "mixed")

    n = 0
    vs = sorted(v for v in table if v in logged and table[v] in live)
    for i, v1 in enumerate(vs):
        for v2 in vs[i + 1:]:
            if table[v1] == table[v2]:
                continue
            n += 1
            lo, ao = order(logged[v1], logged[v2]), order(live[table[v1]], live[table[v2]])
            ctx.instance(rid, "commit: %s logged %s %s; %s applied %s %s" % (v1, lo, v2, table[v1].split("::")[-1], ao, table[v2].split("::")[-1]))
            ctx.oblige(lo == ao and lo != "mixed", rid, "%s:commit:%s-vs-%s" % (rid, v1, v2),
                       "commit logs %s %s %s but applies %s %s %s to the live node table: a transaction that stages both for one node ends in a "
                       "different state after the log is replayed than it had before the reopen" %
                       (v1, lo, v2, table[v1].split("::")[-1], ao, table[v2].split("::")[-1]), logged[v2][0].loc(),
                       sample={"logged": [v1, lo, v2], "applied": [table[v1], ao, table[v2]]})
    ctx.floor(rid, "ordered pairs of node-table record kinds", n, 3)


def log_all_rule(ctx, rid="C04.10"):
    """whatever commit iterates to log is logged for every element: no element of a staged collection is skipped between `next()` and the append"""
    from .. import paths
    F = ctx.facts
    ctx.rule(rid, "in WriteTxn::commit every loop that appends a log record per staged element appends for every element: from the `Some` arm of the loop's "
             "iterator no path returns to the iterator without passing the append (error exits aside) — the live run publishes all staged elements, so an "
             "element skipped in the log is visible until the next reopen and gone after it")
    b = ctx.body(M.COMMIT)
    fails = paths.fail_blocks(b)
    nexts = [c for c in b.calls() if c.declared == "core::iter::traits::iterator::Iterator::next"]
    n = 0
    for ap in b.calls():
        if ap.name != M.WAL_APPEND:
            continue
        v = M.wal_append_variant(b, ap)
        if v in (None, "BeginTx", "CommitTx"):
            continue
        # innermost loop: the iterator header that reaches the append and is reached back from it, with the smallest loop body
        hs = [h for h in nexts if ap.bb in b.reachable([h.bb]) and h.bb in b.reachable([ap.bb])]
        if not hs:
            continue
        h = min(hs, key=lambda h: len([x for x in b.reachable([h.bb]) if h.bb in b.reachable([x])]))
        t = b.term(h.target) if h.target is not None else None
        if not t or t[0] != "switch":
            continue
        some = dict((k, tb) for k, tb in t[2]).get(1, None)
        if some is None:
            continue
        n += 1
        back = h.bb in (b.reachable([some], avoid={ap.bb} | fails) | {some})
        ctx.instance(rid, "commit: append(%s)#%d is reached for every element of its loop=%s" % (v, ap.ordinal, not back))
        ctx.oblige(not back, rid, "%s:commit:append(%s)#%d:element-skipped" % (rid, v, ap.ordinal),
                   "the loop that logs %s records can go on to the next staged element without logging the current one: the element is part of the published "
                   "run but not of the log, so it disappears at the next reopen" % v, ap.loc())
    ctx.floor(rid, "per-element append loops in commit", n, 8)
