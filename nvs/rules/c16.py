"""C16 — Query processing never crashes the host: recursion-depth clause (RECUR)."""
from .. import recur

EXPLANATION = (
    "Decides only the stack-depth clause for the parser: every recursion cycle among the functions of nervusdb_query::parser* must pass through "
    "a function that carries a depth guard (enumerated idioms: a parser field incremented before and decremented after the recursive descent and "
    "compared against a bound with an error exit; or a depth parameter passed as depth+1 and compared against a bound). The call graph of the "
    "parser minus the guarded functions must be acyclic. The step budget (ensure_budget) bounds work, not depth. The AST-walking cycles "
    "(planner, validators, evaluator) are bounded by AST depth and are listed as dependent. Panic-freedom, allocation failure and timeliness are not decided."
    " The claim is a list of panic / abort classes, each decided structurally: C16.1 parser recursion cycles pass a depth guard; C16.2 no unwrap/expect on repository error types; C16.3 constant-offset str slices are dominated by an ASCII check of the same string; C16.4 no raw i64 arithmetic outside the evaluator; C16.5 Value::Int payloads are sign-tested before a cast to unsigned; C16.6 chrono's panicking TimeDelta constructors only get arguments bounded by construction (BITS); C16.7 no raw arithmetic on saturating_* results; C16.8 every parser loop that grows the expression tree iteratively passes the height guard; C16.9 plan-stacking parser loops are bounded by a constant budget (known finding); C16.11 signed division / remainder with a run-time divisor is done on operands widened from a narrower integer (i64::MIN / -1 and i64::MIN % -1 abort). Signed arithmetic inside the temporal evaluator, computed slice indices and allocation sizes are not decided."
    " C16.10: every computed index into a Vec / slice in the query crate (direct indexing and Index::index with a usize) is derived from, or dominated by a test against, the length of the very collection it indexes (views such as as_bytes are transparent); two sites with a reason each are named exceptions, and the parser-cursor invariant one of them relies on is itself checked."
)

PARSER_PREFIX = ("nervusdb_query::parser::", "nervusdb_query::parser_helper_exists::")


def run(ctx):
    F = ctx.facts
    ctx.rule("C16.1", "every recursion cycle of the parser passes a depth guard")
    ctx.rule("C16.3", "byte-offset slicing of a user-supplied string (`&s[a..b]` with constant / length-derived bounds) is dominated by an ASCII or char-boundary check")
    ctx.rule("C16.4", "no raw overflow-capable i64 arithmetic on query-supplied integers in the executor / planner / runtime pre-checks (outside the evaluator, whose numeric core is C23.1)")
    ctx.rule("C16.5", "the payload of a Value::Int (a query-supplied integer) is never cast to an unsigned type without a sign test")
    ctx.rule("C16.6", "chrono's panicking TimeDelta constructors (days / hours / ... panic when out of range) only receive arguments bounded by construction")
    ctx.rule("C16.7", "a value produced by saturating_* arithmetic (so believed to reach the extremes) is not combined by a raw overflow-capable operation")
    ctx.rule("C16.8", "every parser loop that wraps the expression under construction into a new parent node (iterative tree growth: `1+1+1...`, `a.b.c...`, `n:A:B:C...`) passes the tree-height guard once per new level")
    ctx.rule("C16.9", "every parser loop that appends one more plan-stacking unit (clause, UNION branch, pattern, hop) per iteration is bounded by a constant budget — the plan is compiled and executed recursively, one level per unit")
    index_rule(ctx)
    signed_division_rule(ctx)
    ctx.rule("C16.2", "no unwrap/expect on a Result carrying one of the repository's error types in product code (an error must be returned, not turned into a panic)")
    nodes = sorted(i for i in F.bodies if i.startswith(PARSER_PREFIX) and "::tests::" not in i)
    ctx.floor("C16.1", "parser bodies", len(nodes), 60)
    nodeset = set(nodes)

    def succ_all(x):
        return [y for y in F.callees(x) if y in nodeset]

    all_sccs = recur.sccs(nodes, succ_all)
    guards = {}
    for comp in all_sccs:
        for f in comp:
            b = F.bodies[f]
            g = recur.field_counter_guard(b, F, set(comp)) or recur.depth_param_guard(F, b)
            if g is not None:
                guards[f] = g
    ctx.instance("C16.1", "parser recursion components: %d (sizes %s); guarded functions: %s" % (len(all_sccs), [len(c) for c in all_sccs], sorted(guards) or "none"))

    def succ_ng(x):
        return [y for y in F.callees(x) if y in nodeset and y not in guards and x not in guards]

    rest = recur.sccs([n for n in nodes if n not in guards], succ_ng)
    for comp in all_sccs:
        for f in comp:
            ctx.analysed_fns.add(f)
    for comp in rest:
        ctx.instance("C16.1", "unguarded cycle of %d functions incl. %s" % (len(comp), [c.split("::")[-1] for c in comp[:6]]))
        ctx.oblige(False, "C16.1", "parser-cycle:%s" % comp[0],
                   "recursive descent without a depth bound: nesting depth grows with the input (one level per parenthesis / list / unary operator) "
                   "and a deeply nested query overflows the stack, aborting the host process", F.bodies[comp[0]].file,
                   sample={"cycle_members": comp[:20], "size": len(comp)})
    for comp in all_sccs:
        if not any(set(comp) & set(r) for r in rest):
            ctx.oblige(True, "C16.1", "parser-cycle:%s" % comp[0], "", sample={"guarded_cycle": comp[:8]})
    ctx.floor("C16.1", "parser recursion components", len(all_sccs), 1)
    # dependent AST walkers (listed, not judged)
    qnodes = [i for i in F.bodies if i.startswith("nervusdb_query::") and not i.startswith(PARSER_PREFIX)]
    qs = set(qnodes)
    dep = recur.sccs(sorted(qnodes), lambda x: [y for y in F.callees(x) if y in qs])
    ctx.observe("%d recursion components outside the parser walk the AST / plan and are bounded by its depth (dependent on the parser guard)" % len(dep))

    # ---- clause 2 ---------------------------------------------------------
    from ..facts import op_local
    ERR = ("nervusdb_storage::error::Error", "std::io::error::Error", "nervusdb_query::error::Error", "nervusdb::error::Error", "nervusdb_api::DecodeError")
    n_res = 0
    for i, b in sorted(F.bodies.items()):
        if not i.startswith(("nervusdb_storage", "<nervusdb_storage", "nervusdb_query", "<nervusdb_query", "nervusdb_api", "<nervusdb_api", "nervusdb::", "<nervusdb::", "nervusdb_capi", "<nervusdb_capi")):
            continue
        if "::tests::" in i:
            continue
        for c in b.calls():
            if not (c.name.startswith("core::result::Result::<T, E>::") and c.args):
                continue
            l = op_local(c.args[0])
            ty = b.local_ty(l) if l is not None else ""
            if not any(e in ty for e in ERR):
                continue
            n_res += 1
            short = c.name.split("::")[-1]
            if short in ("unwrap", "expect", "unwrap_unchecked"):
                ctx.instance("C16.2", "%s: %s on %s" % (i, short, ty[:70]))
                ctx.oblige(False, "C16.2", "%s:%s#%d" % (b.root or i, short, c.ordinal),
                           "`.%s()` on a fallible storage/query result: when the call fails (oversized index key, corrupt page, I/O error) the host "
                           "process panics instead of receiving an error" % short, c.loc(), sample={"fn": i, "site": c.loc(), "type": ty})
    ctx.instance("C16.2", "%d combinator calls on repository Result types inspected" % n_res)
    ctx.floor("C16.2", "Result combinator sites inspected", n_res, 100)
    ctx.obligations += n_res
    ctx.discharged += n_res

    # ---- clause 3 ---------------------------------------------------------
    # `&s[a..b]` on a str panics when a or b is not a char boundary.  Decided class: slices whose bounds are all
    # *constants* (`s[0..4]`, `s[5..7]`, `s[1..]`): the offset is a boundary only if the bytes before it are ASCII, so the
    # slice must be dominated by an ASCII check of the same string.  Bounds computed by a search (find / rfind / split) or a
    # byte scanner are listed as instances but not decided (they need value reasoning about the scanner).
    from ..mirutil import peel_refs
    n3 = nconst = 0

    def sroot(b, l):
        return peel_refs(b, l) if l is not None else None

    def closure_calls_ascii(b, l):
        o = b.origin(l) if l is not None else None
        if not (o and o[0] == "agg" and o[1][1] == "closure"):
            return False
        cb = F.bodies.get(o[1][2])
        return bool(cb) and any("::is_ascii" in x.name for x in cb.calls())

    for i, b in sorted(F.bodies.items()):
        if not i.startswith("nervusdb_query::") or "::tests::" in i:
            continue
        sites = [c for c in b.calls() if "for str>::index" in c.name]
        if not sites:
            continue
        k = 0
        for c in sorted(sites, key=lambda c: (c.line, c.bb)):
            n3 += 1
            rl = op_local(c.args[1]) if len(c.args) > 1 else None
            o = b.origin(rl) if rl is not None else None
            consts = None
            if o and o[0] == "agg" and all(x[0] == "k" for x in o[1][4]):
                consts = [x[1].get("v") for x in o[1][4]]
            if not consts or all(v in (0, None) for v in consts):
                ctx.instance("C16.3", "%s: str slice #%d — bounds not constant (search / scanner derived): listed, not decided" % (i, k))
                k += 1
                continue
            nconst += 1
            sr = sroot(b, op_local(c.args[0]))
            guard = None
            for g in b.calls():
                if g.bb == c.bb or not b.dominates(g.bb, c.bb):
                    continue
                short = g.name.split("::")[-1]
                gr = None
                if short in ("is_ascii", "is_char_boundary"):
                    gr = sroot(b, op_local(g.args[0]))
                    go = b.origin(gr) if gr is not None else None
                    if go and go[0] == "call" and go[1].name.endswith("::as_bytes"):
                        gr = sroot(b, op_local(go[1].args[0]))
                elif short == "all" and len(g.args) > 1 and closure_calls_ascii(b, op_local(g.args[1])):
                    it = b.origin(op_local(g.args[0]))
                    it_l = op_local(g.args[0])
                    it_l = peel_refs(b, it_l)
                    io = b.origin(it_l) if it_l is not None else None
                    if io and io[0] == "call" and io[1].name.split("::")[-1] in ("chars", "bytes"):
                        gr = sroot(b, op_local(io[1].args[0]))
                    else:
                        continue
                elif short == "starts_with" and len(g.args) > 1 and g.args[1][0] == "k" and g.args[1][1].get("ty") == "char" \
                        and (g.args[1][1].get("v") or 999) < 128 and all(v in (0, 1, None) for v in consts):
                    gr = sroot(b, op_local(g.args[0]))
                else:
                    continue
                if gr is None or sr is None or gr == sr:
                    guard = g
                    break
            ctx.instance("C16.3", "%s: str slice #%d constant bounds %s — ASCII guard: %s" % (i, k, consts, guard.name.split("::")[-1] + "@" + guard.loc() if guard else "NONE"))
            ctx.oblige(guard is not None, "C16.3", "%s:str-slice#%d" % (b.root or i, k),
                       "a user-supplied string is sliced at constant byte offsets %s without a dominating ASCII check of that string: "
                       "a multi-byte character straddling the offset makes the slice panic and takes the host down" % consts, c.loc(),
                       sample={"fn": i, "site": c.loc()})
            k += 1
    ctx.floor("C16.3", "str slicing sites in the query crate", n3, 30)
    ctx.floor("C16.3", "constant-bounded str slices", nconst, 15)

    # ---- clause 4 ---------------------------------------------------------
    # Query-supplied integers reach the executor and its runtime pre-checks (e.g. the range() size estimate that is the only
    # bound on an eagerly built list).  A raw `+ - *` / unary minus on i64 there panics in overflow-checked builds and wraps in
    # release (letting a huge range through the size guard -> allocation failure).  The repository uses saturating_* / checked_* /
    # unsigned_abs / i128 widening; today no raw i64 operation exists outside the evaluator.
    RAW = {"Add", "Sub", "Mul", "AddWithOverflow", "SubWithOverflow", "MulWithOverflow"}
    n4 = 0
    for i, b in sorted(F.bodies.items()):
        if not i.startswith("nervusdb_query::") or i.startswith("nervusdb_query::evaluator::") or "::tests::" in i:
            continue
        n4 += 1
        k = 0
        for blk in b.blocks:
            if blk["c"]:
                continue
            for st in blk["s"]:
                if st[0] != "a" or st[4] == "m":
                    continue
                rv = st[2]
                raw = (rv[0] == "bin" and rv[1] in RAW and rv[4] == "i64") or (rv[0] == "un" and rv[1] == "Neg" and rv[3] == "i64")
                if not raw:
                    continue
                ctx.instance("C16.4", "%s: raw %s on i64 (%s:%d)" % (i, rv[1], b.file, st[3]))
                ctx.oblige(False, "C16.4", "%s:raw-%s#%d" % (b.root or i, rv[1].replace("WithOverflow", ""), k),
                           "raw i64 `%s` on a query-supplied integer outside the evaluator: it panics on overflow in checked builds and wraps in release "
                           "(a wrapped size estimate lets an unbounded allocation through)" % rv[1], "%s:%d" % (b.file, st[3]))
                k += 1
    ctx.instance("C16.4", "bodies scanned outside the evaluator: %d" % n4)
    ctx.floor("C16.4", "query-crate bodies outside the evaluator", n4, 700)

    # ---- clause 5: sign-losing casts of query integers ------------------------------------------
    from ..mirutil import sign_guarded, value_root
    SIGNED = ("i64", "i32", "isize", "i128", "i16", "i8")
    n5 = 0
    for i, b in sorted(F.bodies.items()):
        if not i.startswith("nervusdb_query::") or "::tests::" in i:
            continue
        k = 0
        for bi, blk in enumerate(b.blocks):
            if blk["c"]:
                continue
            for st in blk["s"]:
                if st[0] != "a":
                    continue
                rv = st[2]
                if not (rv[0] == "cast" and rv[1] == "IntToInt" and rv[3] in SIGNED and rv[4].startswith("u")):
                    continue
                l = op_local(rv[2])
                if l is None:
                    continue
                r = value_root(b, l)
                o = b.origin(r) if r is not None and r >= 0 else None
                direct = bool(o and o[0] == "place" and any(isinstance(p, list) and p[0] == "d" and p[1] == "Int" for p in o[1][1])
                              and any(isinstance(p, list) and p[0] == "f" and "core_types::Value" in str(p[3]) for p in o[1][1]))
                if not direct:
                    continue
                n5 += 1
                ok = sign_guarded(b, bi, l)
                ctx.instance("C16.5", "%s: Value::Int payload cast %s->%s at %s:%d sign-tested=%s" % (i, rv[3], rv[4], b.file, st[3], ok))
                ctx.oblige(ok, "C16.5", "%s:int-payload-as-%s#%d" % (b.root or i, rv[4], k),
                           "a query-supplied integer is cast to %s without a sign test: a negative argument becomes a huge offset and the arithmetic / "
                           "slicing that follows overflows or indexes out of range (panic)" % rv[4], "%s:%d" % (b.file, st[3]))
                k += 1
    ctx.floor("C16.5", "Value::Int payloads cast to unsigned", n5, 2)

    # ---- clause 6: chrono panicking constructors --------------------------------------------------
    from .. import bits as BITS
    # TimeDelta::<unit>(n) panics when n * unit overflows i64 milliseconds: n must stay below 2^(63 - log2(ms per unit))
    PANICKY = {"weeks": 33, "days": 36, "hours": 41, "minutes": 47, "seconds": 53, "milliseconds": 63}
    n6 = 0
    for i, b in sorted(F.bodies.items()):
        if not i.startswith("nervusdb_query::") or "::tests::" in i:
            continue
        k = 0
        for c in b.calls():
            short = c.name.split("::")[-1]
            if "chrono::time_delta::TimeDelta::" not in c.name or short not in PANICKY:
                continue
            n6 += 1
            nb = BITS.bits(b, c.args[0], "i64")
            ok = nb <= PANICKY[short]
            ctx.instance("C16.6", "%s: TimeDelta::%s(arg fits %d signed bits, limit %d) at %s" % (i, short, nb, PANICKY[short], c.loc()))
            ctx.oblige(ok, "C16.6", "%s:TimeDelta::%s#%d" % (b.root or i, short, k),
                       "chrono's TimeDelta::%s panics when its argument is out of range and this argument is not bounded by construction "
                       "(a query-supplied duration component): use try_%s" % (short, short), c.loc())
            k += 1
    ctx.floor("C16.6", "panicking TimeDelta constructor calls", n6, 6)

    # ---- clause 7: raw arithmetic on saturated values ----------------------------------------------
    RAWS = {"Add", "Sub", "Mul", "AddWithOverflow", "SubWithOverflow", "MulWithOverflow"}
    n7 = nsat = 0
    for i, b in sorted(F.bodies.items()):
        if not i.startswith("nervusdb_query::") or "::tests::" in i:
            continue
        nsat += sum(1 for c in b.calls() if c.name.split("::")[-1].startswith("saturating_") and "core::num::" in c.name)
        k = 0
        for blk in b.blocks:
            if blk["c"]:
                continue
            for st in blk["s"]:
                if st[0] != "a" or st[4] == "m":
                    continue
                rv = st[2]
                if not (rv[0] == "bin" and rv[1] in RAWS and rv[4] in SIGNED):
                    continue
                for opnd in (rv[2], rv[3]):
                    l = op_local(opnd)
                    if l is None:
                        continue
                    o = b.origin(value_root(b, l))
                    if o and o[0] == "call" and o[1].name.split("::")[-1].startswith("saturating_") and "core::num::" in o[1].name:
                        n7 += 1
                        ctx.instance("C16.7", "%s: raw %s on the result of %s (%s:%d)" % (i, rv[1], o[1].name.split("::")[-1], b.file, st[3]))
                        ctx.oblige(False, "C16.7", "%s:raw-%s-on-saturated#%d" % (b.root or i, rv[1].replace("WithOverflow", ""), k),
                                   "the operand comes from %s — the code expects it to reach i64::MIN/MAX — and is then combined with a raw `%s`, "
                                   "which overflows (panic in checked builds) exactly in that case" % (o[1].name.split("::")[-1], rv[1]), "%s:%d" % (b.file, st[3]))
                        k += 1
    ctx.instance("C16.7", "saturating_* calls in the query crate: %d; raw operations on their results: %d" % (nsat, n7))
    ctx.floor("C16.7", "saturating_* calls in the query crate", nsat, 20)

    # ---- clause 8: iterative growth of expression trees ---------------------------------------------
    # Recursive-descent nesting is bounded by C16.1, but a loop that does `lhs = Node(lhs, ..)` makes the tree one level higher per
    # iteration without recursing; validation, planning, evaluation and Drop then recurse over that height.  A growth site is an
    # assignment, inside a CFG cycle, to an `Expression` local with several definitions whose new value is built from its old value.
    EXPR = "nervusdb_query::ast::Expression"
    GROW = "::grow_expression"

    def self_dependent(b, site, L):
        defs = b.defs()
        bi, si, kind, st = site
        if kind == "call":
            ops = list(b.call_at(bi).args)
        else:
            from ..facts import rvalue_operands
            ops = list(rvalue_operands(st[2]))
        def base(o):
            return o[1][0] if o and o[0] in ("c", "m") else None

        seen = set()
        work = [base(o) for o in ops if base(o) is not None]
        for _ in range(200):
            if not work:
                break
            x = work.pop()
            if x == L:
                return True
            if x in seen:
                continue
            seen.add(x)
            # stores through projections of x (`(*box) = [move other, ..]`, `x.field = ..`) feed x as well
            for blk2 in b.blocks:
                for st2 in blk2["s"]:
                    if st2[0] == "a" and st2[1][0] == x and st2[1][1]:
                        from ..facts import rvalue_operands as _ro
                        work += [base(o) for o in _ro(st2[2]) if base(o) is not None]
            for sd in defs.get(x, []):
                if sd[2] == "call":
                    work += [base(a) for a in b.call_at(sd[0]).args if base(a) is not None]
                elif sd[2] == "assign":
                    from ..facts import rvalue_operands
                    rv = sd[3][2]
                    if rv[0] in ("ref", "rawptr"):
                        work.append((rv[2] if rv[0] == "ref" else rv[1])[0])
                    else:
                        work += [base(o) for o in rvalue_operands(rv) if base(o) is not None]
        return False

    n8 = 0
    for i, b in sorted(F.bodies.items()):
        if not i.startswith("nervusdb_query::parser::") or "::tests::" in i or b.root:
            continue
        defs = b.defs()
        grows = [c for c in b.calls() if c.name.endswith((GROW, GROW + "_by"))]
        k = 0
        for L in range(len(b.locals)):
            if b.local_ty(L) != EXPR:
                continue
            ds = [x for x in defs.get(L, []) if x[2] in ("assign", "call")]
            if len(ds) < 2:
                continue
            for site in ds:
                bi = site[0]
                cyc = b.reachable(b.succs(bi))
                if bi not in cyc or not self_dependent(b, site, L):
                    continue
                n8 += 1
                own = any(b.dominates(g.bb, bi) and g.bb in cyc for g in b.calls() if g.name.endswith((GROW, GROW + "_by")))
                via_callers = False
                if not own and not grows:
                    callers = [(cid, c) for cid in sorted(F.callers().get(i, ())) for c in F.bodies[cid].calls() if c.name == i]
                    # the callee's loop runs once per element of an argument: the caller must charge the whole count up front
                    via_callers = bool(callers) and all(
                        any(g.name.endswith(GROW + "_by") and cb.dominates(g.bb, c.bb) and g.bb in cb.reachable(cb.succs(c.bb)) for g in cb.calls())
                        for cid, c in callers for cb in [F.bodies[cid]])
                ctx.instance("C16.8", "%s: `%s = Node(%s, ..)` in a loop — height guard: %s" % (
                    i.split("::")[-1], b.local_name(L) or ("_%d" % L), b.local_name(L) or ("_%d" % L),
                    "in the loop" if own else ("counted by every caller" if via_callers else "NONE")))
                ctx.oblige(own or via_callers, "C16.8", "%s:grows(%s)#%d" % (i, b.local_name(L) or "tmp", k),
                           "a parser loop makes the expression tree one level higher per iteration without passing the height guard: a long chain "
                           "(`1+1+1+...`) builds a tree whose recursive walkers (validation, evaluation, Drop) overflow the stack", "%s:%d" % (b.file, (site[3][3] if site[2] == "assign" else b.call_at(bi).line)))
                k += 1
    ctx.floor("C16.8", "iterative tree-growth sites in the parser", n8, 7)

    # ---- clause 9: plan-stacking loops ---------------------------------------------------------------
    # Each clause, UNION branch, comma-separated pattern and hop becomes an operator stacked on the plan built so far; the compiler
    # (clone + recursive inspection per clause), the read executor and above all the write executor (execute_write_with_rows, ~27 KB
    # of stack per level in a debug build) recurse once per level.  The parser's step budget scales with the token count, so it
    # bounds work, not depth.  A loop is bounded when, inside the cycle and dominating the push, it calls a parser method that
    # compares one of the parser's counters with a *constant* (the shape of grow_expression_by).
    STACKING = ("nervusdb_query::ast::Clause", "nervusdb_query::ast::PathElement", "nervusdb_query::ast::Pattern")

    def field_of(fb, o):
        """name of the TokenParser field an operand was read from (through one copy)"""
        if o[0] not in ("c", "m"):
            return None
        pl = o[1]
        fs = [p_[2] for p_ in pl[1] if isinstance(p_, list) and p_[0] == "f" and str(p_[3]).endswith("TokenParser")]
        if fs:
            return fs[-1]
        if not pl[1]:
            og = fb.origin(pl[0])
            if og and og[0] == "place":
                fs = [p_[2] for p_ in og[1][1] if isinstance(p_, list) and p_[0] == "f" and str(p_[3]).endswith("TokenParser")]
                if fs:
                    return fs[-1]
        return None

    # counters that are also decremented measure the current depth, not the amount of structure built so far
    DEC = set()
    for fid_, fb_ in F.bodies.items():
        if not fid_.startswith("nervusdb_query::parser::"):
            continue
        for blk in fb_.blocks:
            for st in blk["s"]:
                if st[0] == "a" and st[2][0] == "bin" and st[2][1] in ("Sub", "SubWithOverflow"):
                    f_ = field_of(fb_, st[2][2])
                    if f_:
                        DEC.add(f_)

    def is_const_budget(fid, depth=2):
        fb = F.bodies.get(fid)
        if fb is None or not fid.startswith("nervusdb_query::parser::"):
            return False
        for blk in fb.blocks:
            for st in blk["s"]:
                if st[0] == "a" and st[2][0] == "bin" and st[2][1] in ("Gt", "Ge", "Lt", "Le"):
                    ops = (st[2][2], st[2][3])
                    if any(o[0] == "k" for o in ops):
                        f_ = next((field_of(fb, o) for o in ops if field_of(fb, o)), None)
                        if f_ and f_ not in DEC:
                            return True
        if depth > 0:
            return any(is_const_budget(c.name, depth - 1) for c in fb.calls() if c.name.startswith("nervusdb_query::parser::TokenParser::") and c.name != fid)
        return False

    n9 = 0
    for i, b in sorted(F.bodies.items()):
        if not i.startswith("nervusdb_query::parser::TokenParser::") or "::tests::" in i or b.root:
            continue
        k = {}
        for c in b.calls():
            if not c.name.endswith("::push") or not c.args:
                continue
            vl = peel_refs(b, op_local(c.args[0])) if op_local(c.args[0]) is not None else None
            vty = b.local_ty(vl) if vl is not None else ""
            elem = next((s for s in STACKING if vty.startswith("alloc::vec::Vec<" + s)), None)
            if elem is None:
                continue
            cyc = b.reachable(b.succs(c.bb))
            if c.bb not in cyc:
                continue
            n9 += 1
            short = elem.split("::")[-1]
            k[short] = k.get(short, -1) + 1
            bounded = any(g.bb in cyc and b.dominates(g.bb, c.bb) and is_const_budget(g.name) for g in b.calls() if g is not c)
            ctx.instance("C16.9", "%s: one more %s per iteration (%s) — constant budget in the loop: %s" % (i.split("::")[-1], short, c.loc(), bounded))
            ctx.oblige(bounded, "C16.9", "%s:unbounded(%s)#%d" % (i, short, k[short]),
                       "the number of %ss this loop appends is bounded only by the length of the query text: each becomes one more level of the plan, and "
                       "plan compilation and execution recurse once per level (a few hundred stacked clauses overflow the stack and abort the process)" % short, c.loc())
    ctx.floor("C16.9", "plan-stacking loops in the parser", n9, 3)


# ---------------------------------------------------------------------------------------------- C16.10
# sites whose bound is established by an idiom the rule does not follow, each confirmed by reading
INDEX_EXCEPTIONS = {
    "nervusdb_query::evaluator::evaluator_temporal_parse::find_offset_split_index::{closure#0}":
        "closure handed to `(1..bytes.len()).rev().find(..)`: the index is an element of a range that ends at the length of the captured slice",
    "nervusdb_query::parser::TokenParser::peek":
        "parser cursor invariant: `advance` increments `position` only when the current token is not Eof (checked below) and the lexer ends every stream with Eof",
}
TRANSPARENT_VIEWS = ("::as_bytes", "::as_slice", "::as_str", "::as_mut_slice", "::deref", "::as_ref", "::borrow")


def _coll_key(b, l, depth=4):
    from ..mirutil import place_path
    from ..facts import op_local
    if l is None:
        return None
    base, fs = place_path(b, l)
    fields = tuple(f[0] for f in fs)
    k, v = base[0], base[1]
    if k == "call":
        c = v
        if c is not None and c.args and c.name.endswith(TRANSPARENT_VIEWS) and depth > 0:
            inner = _coll_key(b, op_local(c.args[0]), depth - 1)
            if inner is not None:
                return (inner[0], inner[1], inner[2] + fields)
        return ("call", c.bb if c is not None else None, fields)
    if k in ("agg", "const"):
        return (k, str(v)[:40], fields)
    return (k, v, fields)


def _len_keys(b, l, depth=24):
    """collections whose length the value of local `l` depends on"""
    from .c26 import bslice
    from ..facts import op_local
    ls, cs = bslice(b, l, depth=depth)
    out = set()
    empties = set()
    for c in cs:
        if c.args and c.name.endswith("::len"):
            key = _coll_key(b, op_local(c.args[0]))
            out.add(key)
    for x in ls:
        sd = b.single_def(x)
        if sd and sd[2] == "assign" and sd[3][2][0] == "un" and sd[3][2][1] == "PtrMetadata":
            out.add(_coll_key(b, op_local(sd[3][2][2])))
    return out


def _zero_after_nonempty(b, idx, coll, site):
    """the only value of the index that reaches the site is the constant 0, and an is_empty test of the same collection dominates the site"""
    from ..facts import op_local, op_const
    from ..mirutil import switch_on, value_root
    from .c26 import bslice
    x = value_root(b, idx)
    for (bi, si, kind, st) in b.defs().get(x, []):
        zero = kind == "assign" and st[2][0] == "use" and op_const(st[2][1]) is not None and op_const(st[2][1]).get("v") == 0
        if zero:
            if not b.dominates(bi, site):
                return False
        elif site in b.reachable([bi]) or bi == site:
            return False
    for cb in range(len(b.blocks)):
        sw = switch_on(b, cb)
        if not sw or not b.dominates(cb, site) or cb == site:
            continue
        _, cs = bslice(b, sw[0], depth=8)
        if any(c.name.endswith("::is_empty") and c.args and _coll_key(b, op_local(c.args[0])) == coll for c in cs):
            return True
    return False


def index_rule(ctx, rid="C16.10"):
    from ..facts import op_local, op_const
    from ..mirutil import switch_on
    F = ctx.facts
    ctx.rule(rid, "a computed index into a Vec / slice in the query crate is derived from, or tested against, the length of the collection it indexes "
             "(an index clamped by the length of a different collection panics when the two differ)")
    n = 0
    seen_exc = set()
    for i, b in sorted(F.bodies.items()):
        if not (i.startswith("nervusdb_query") or i.startswith("<nervusdb_query")) or "::tests::" in i:
            continue
        per = {}
        for bi, blk in enumerate(b.blocks):
            if b.is_cleanup(bi):
                continue
            t = blk["t"]
            site = None
            if t[0] == "assert" and t[3] == "bounds" and op_const(t[4][1]) is None:
                idx, lenl = op_local(t[4][1]), op_local(t[4][0])
                sd = b.single_def(lenl) if lenl is not None else None
                if sd and sd[2] == "assign" and sd[3][2][0] == "un":
                    site = (idx, _coll_key(b, op_local(sd[3][2][2])), "[]")
                else:
                    continue  # fixed-size array
            elif t[0] == "call":
                c = b.call_at(bi)
                if c and c.declared == "core::ops::index::Index::index" and len(c.args) > 1:
                    l = op_local(c.args[1])
                    if l is not None and b.local_ty(l) == "usize":
                        site = (l, _coll_key(b, op_local(c.args[0])), "Index")
            if site is None or site[0] is None:
                continue
            idx, coll, kind = site
            n += 1
            k = per.get(kind, 0)
            per[kind] = k + 1
            ok = coll in _len_keys(b, idx)
            how = "derived from its length"
            if not ok:
                for cb in range(len(b.blocks)):
                    sw = switch_on(b, cb)
                    if not sw or not b.dominates(cb, bi) or cb == bi:
                        continue
                    if coll in _len_keys(b, sw[0], depth=12):
                        ok = True
                        how = "dominated by a test against its length"
                        break
            if not ok and _zero_after_nonempty(b, idx, coll, bi):
                ok = True
                how = "index 0 of a collection tested non-empty"
            root = b.id
            if not ok and root in INDEX_EXCEPTIONS:
                seen_exc.add(root)
                ctx.instance(rid, "%s %s#%d: named exception — %s" % (root.split("::", 1)[1], kind, k, INDEX_EXCEPTIONS[root]))
                continue
            ctx.instance(rid, "%s %s#%d: %s" % (root.split("::", 1)[1], kind, k, how if ok else "UNBOUNDED"))
            ctx.oblige(ok, rid, "%s:%s:%s#%d" % (rid, root, kind, k),
                       "the index is neither derived from nor tested against the length of the collection it indexes: when it was clamped by another "
                       "length (or by nothing) the access panics with `index out of bounds` inside query execution", "%s:%d" % (b.file, b.line_of_block(bi)))
    ctx.floor(rid, "computed index sites in the query crate", n, 50)
    # the parser cursor invariant the `peek` exception relies on
    adv = ctx.body("nervusdb_query::parser::TokenParser::advance")
    incs = []
    for bi, blk in enumerate(adv.blocks):
        for st in blk["s"]:
            if st[0] == "a" and st[1][1] and isinstance(st[1][1][-1], list) and st[1][1][-1][0] == "f" and st[1][1][-1][2] == "position":
                incs.append((bi, st))
    guarded = 0
    for bi, st in incs:
        # either assigned from len() (clamp) or guarded by is_at_end
        from .c26 import bslice, bool_branches, only_via
        src = st[2][1] if st[2][0] == "use" else None
        sl = src[1][0] if src and src[0] in ("c", "m") else None
        dep = _len_keys(adv, sl) if sl is not None else set()
        if any(kk is not None and kk[2] and kk[2][-1] == "tokens" for kk in dep):
            guarded += 1
            continue
        ok = False
        for cb in range(len(adv.blocks)):
            br = bool_branches(adv, cb)
            if br is None:
                continue
            sd = adv.single_def(br[0])
            c = adv.call_at(sd[0]) if sd and sd[2] in ("call", "pcall") else None
            if c is not None and c.name.endswith("TokenParser::is_at_end") and only_via(adv, br[2], cb, bi):
                ok = True
        ctx.oblige(ok, rid, rid + ":parser-cursor", "TokenParser::advance moves the cursor without testing is_at_end: the cursor can pass the Eof token and "
                   "`peek` indexes beyond the token list", "%s:%d" % (adv.file, adv.line_of_block(bi)))
        guarded += 1 if ok else 0
    ctx.floor(rid, "cursor updates in TokenParser::advance", len(incs), 2)


def signed_division_rule(ctx, rid="C16.11"):
    """`i64::MIN / -1` and `i64::MIN % -1` abort: a signed division whose divisor is not a constant must run on widened operands"""
    F = ctx.facts
    ctx.rule(rid, "every signed `/` or `%` of the query crate whose divisor is a run-time value is computed on operands widened from a narrower integer "
             "(`i128::from(i64)`), so MIN / -1 and MIN % -1 cannot overflow; divisions by a constant other than 0 / -1 need nothing")
    n_const = n_dyn = 0
    for i, b in sorted(F.bodies.items()):
        if not i.startswith("nervusdb_query::"):
            continue
        k = 0
        for bi, blk in enumerate(b.blocks):
            t = blk["t"]
            if t[0] != "assert" or b.is_cleanup(bi) or str(t[3]) not in ("overflow:Div", "overflow:Rem"):
                continue
            ops = t[4]
            if len(ops) < 2:
                continue
            div = ops[1]
            if div[0] == "k":
                v = div[1].get("v")
                n_const += 1
                ctx.oblige(v not in (0, -1, None), rid, "%s:constant-divisor#%d" % (i, n_const),
                           "%s divides by the constant %s" % (i, v), "%s:%d" % (b.file, b.line_of_block(bi)))
                continue
            n_dyn += 1
            ok, why = True, []
            for o in ops[:2]:
                if o[0] not in ("c", "m"):
                    continue
                l = o[1][0]
                ty = b.local_ty(l)
                org = b.origin(l)
                widened = False
                if org and org[0] == "call" and org[1].name.endswith("::from") and "From<" in org[1].name and ty in org[1].name.split(" as ")[0]:
                    widened = True
                if org and org[0] == "rv" and org[1][0] == "cast" and org[1][1].startswith("IntToInt"):
                    widened = True
                why.append("%s %s" % (ty, "widened" if widened else "not widened (%s)" % (org[0] if org else "several definitions")))
                ok = ok and widened and ty in ("i128",)
            op = "%" if str(t[3]).endswith("Rem") else "/"
            ctx.instance(rid, "%s: `%s` with a run-time divisor on [%s]" % (i.replace("nervusdb_query::", ""), op, ", ".join(why)))
            ctx.oblige(ok, rid, "%s:signed-%s-runtime-divisor#%d" % (b.root or i, str(t[3]).split(":")[1], k),
                       "%s computes a signed `%s` with a run-time divisor on [%s]: i64::MIN %s -1 overflows and aborts the query with a panic "
                       "(e.g. RETURN -9223372036854775808 %s -1)" % (i, op, ", ".join(why), op, op), "%s:%d" % (b.file, b.line_of_block(bi)))
            k += 1
    ctx.instance(rid, "signed divisions by a constant: %d; by a run-time value: %d" % (n_const, n_dyn))
    ctx.floor(rid, "signed divisions with a run-time divisor", n_dyn, 1)
    ctx.floor(rid, "signed divisions by a constant", n_const, 20)
