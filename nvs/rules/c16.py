"""C16 — Query processing never crashes the host: recursion-depth clause (RECUR)."""
from .. import recur

EXPLANATION = (
    "Decides only the stack-depth clause for the parser: every recursion cycle among the functions of nervusdb_query::parser* must pass through "
    "a function that carries a depth guard (enumerated idioms: a parser field incremented before and decremented after the recursive descent and "
    "compared against a bound with an error exit; or a depth parameter passed as depth+1 and compared against a bound). The call graph of the "
    "parser minus the guarded functions must be acyclic. The step budget (ensure_budget) bounds work, not depth. The AST-walking cycles "
    "(planner, validators, evaluator) are bounded by AST depth and are listed as dependent. Panic-freedom, allocation failure and timeliness are not decided."
)

PARSER_PREFIX = ("nervusdb_query::parser::", "nervusdb_query::parser_helper_exists::")


def run(ctx):
    F = ctx.facts
    ctx.rule("C16.1", "every recursion cycle of the parser passes a depth guard")
    ctx.rule("C16.2", "no unwrap/expect on a Result carrying one of the repository's error types in product code (an error must be returned, not turned into a panic)")
    nodes = sorted(i for i in F.bodies if i.startswith(PARSER_PREFIX) and "::tests::" not in i)
    ctx.floor("C16.1", "parser bodies", len(nodes), 60)
    nodeset = set(nodes)

    def succ_all(x):
        return [y for y in F.callees(x) if y in nodeset]

    all_sccs = recur.sccs(nodes, succ_all)
    guards = {}
    for comp in all_sccs:
        for f in comp:
            b = F.bodies[f]
            g = recur.field_counter_guard(b, F, set(comp)) or recur.depth_param_guard(F, b)
            if g is not None:
                guards[f] = g
    ctx.instance("C16.1", "parser recursion components: %d (sizes %s); guarded functions: %s" % (len(all_sccs), [len(c) for c in all_sccs], sorted(guards) or "none"))

    def succ_ng(x):
        return [y for y in F.callees(x) if y in nodeset and y not in guards and x not in guards]

    rest = recur.sccs([n for n in nodes if n not in guards], succ_ng)
    for comp in all_sccs:
        for f in comp:
            ctx.analysed_fns.add(f)
    for comp in rest:
        ctx.instance("C16.1", "unguarded cycle of %d functions incl. %s" % (len(comp), [c.split("::")[-1] for c in comp[:6]]))
        ctx.oblige(False, "C16.1", "parser-cycle:%s" % comp[0],
                   "recursive descent without a depth bound: nesting depth grows with the input (one level per parenthesis / list / unary operator) "
                   "and a deeply nested query overflows the stack, aborting the host process", F.bodies[comp[0]].file,
                   sample={"cycle_members": comp[:20], "size": len(comp)})
    for comp in all_sccs:
        if not any(set(comp) & set(r) for r in rest):
            ctx.oblige(True, "C16.1", "parser-cycle:%s" % comp[0], "", sample={"guarded_cycle": comp[:8]})
    ctx.floor("C16.1", "parser recursion components", len(all_sccs), 1)
    # dependent AST walkers (listed, not judged)
    qnodes = [i for i in F.bodies if i.startswith("nervusdb_query::") and not i.startswith(PARSER_PREFIX)]
    qs = set(qnodes)
    dep = recur.sccs(sorted(qnodes), lambda x: [y for y in F.callees(x) if y in qs])
    ctx.observe("%d recursion components outside the parser walk the AST / plan and are bounded by its depth (dependent on the parser guard)" % len(dep))

    # ---- clause 2 ---------------------------------------------------------
    from ..facts import op_local
    ERR = ("nervusdb_storage::error::Error", "std::io::error::Error", "nervusdb_query::error::Error", "nervusdb::error::Error", "nervusdb_api::DecodeError")
    n_res = 0
    for i, b in sorted(F.bodies.items()):
        if not i.startswith(("nervusdb_storage", "<nervusdb_storage", "nervusdb_query", "<nervusdb_query", "nervusdb_api", "<nervusdb_api", "nervusdb::", "<nervusdb::", "nervusdb_capi", "<nervusdb_capi")):
            continue
        if "::tests::" in i:
            continue
        for c in b.calls():
            if not (c.name.startswith("core::result::Result::<T, E>::") and c.args):
                continue
            l = op_local(c.args[0])
            ty = b.local_ty(l) if l is not None else ""
            if not any(e in ty for e in ERR):
                continue
            n_res += 1
            short = c.name.split("::")[-1]
            if short in ("unwrap", "expect", "unwrap_unchecked"):
                ctx.instance("C16.2", "%s: %s on %s" % (i, short, ty[:70]))
                ctx.oblige(False, "C16.2", "%s:%s#%d" % (b.root or i, short, c.ordinal),
                           "`.%s()` on a fallible storage/query result: when the call fails (oversized index key, corrupt page, I/O error) the host "
                           "process panics instead of receiving an error" % short, c.loc(), sample={"fn": i, "site": c.loc(), "type": ty})
    ctx.instance("C16.2", "%d combinator calls on repository Result types inspected" % n_res)
    ctx.floor("C16.2", "Result combinator sites inspected", n_res, 100)
    ctx.obligations += n_res
    ctx.discharged += n_res
