"""CODEC — offset tables of fixed-layout encoders / decoders.

An encoder of the repository's fixed layouts writes `buf[a..b].copy_from_slice(&self.field.to_le_bytes())`; the decoder reads
`let field = uN::from_le_bytes(buf[a..b].try_into().unwrap())`.  Both sides are reduced to a table {(a, b): name}: for the writer the
name of the struct field whose bytes are copied, for the reader the name of the local the decoded integer is bound to.  The rule that
uses it compares the two tables (writer's and reader's tables agree)."""
from .facts import op_local


def _const_range(b, l, depth=8):
    """(start, end) of a `a..b` Range aggregate with constant bounds reaching local l through borrows / calls"""
    for _ in range(depth):
        if l is None:
            return None
        o = b.origin(l)
        if not o:
            return None
        if o[0] == "agg" and o[1][2].endswith("ops::range::Range") or (o[0] == "agg" and "Range" in str(o[1][2])):
            ops = o[1][4]
            if len(ops) == 2 and all(x[0] == "k" for x in ops):
                return (ops[0][1].get("v"), ops[1][1].get("v"))
            return None
        if o[0] == "call":
            c = o[1]
            nm = c.name.split("::")[-1]
            if nm in ("index", "index_mut") and len(c.args) > 1:
                l = op_local(c.args[1])
                continue
            if c.args:
                l = op_local(c.args[0])
                continue
            return None
        if o[0] == "place":
            l = o[1][0]
            continue
        return None
    return None


def _field_of(b, l, depth=8):
    for _ in range(depth):
        if l is None:
            return None
        o = b.origin(l)
        if not o:
            return None
        if o[0] == "place":
            fs = [p[2] for p in o[1][1] if isinstance(p, list) and p[0] == "f"]
            if fs:
                return fs[-1]
            l = o[1][0]
            continue
        if o[0] == "call" and o[1].args:
            l = op_local(o[1].args[0])
            continue
        if o[0] == "arg":
            return b.local_name(o[1])
        return None
    return None


def _named_source(b, l, depth=6):
    """name of the nearest named local a value was copied from (`_t = copy count; to_le_bytes(move _t)`)"""
    for _ in range(depth):
        if l is None:
            return None
        nm = b.local_name(l)
        if nm and nm != "self":
            return nm
        sd = b.single_def(l)
        if not sd or sd[2] != "assign":
            return None
        rv = sd[3][2]
        if rv[0] == "use" and rv[1][0] in ("c", "m") and not rv[1][1][1]:
            l = rv[1][1][0]
            continue
        return None
    return None


def writer_table(b):
    """{(a, b): field} from `dst[a..b].copy_from_slice(&x.to_le_bytes())`"""
    out = {}
    for c in b.calls():
        if not c.name.endswith("::copy_from_slice") or len(c.args) < 2:
            continue
        rng = _const_range(b, op_local(c.args[0]))
        if rng is None:
            continue
        # the source: &[u8; N] produced by to_le_bytes(field)
        l = op_local(c.args[1])
        name = None
        for _ in range(8):
            if l is None:
                break
            o = b.origin(l)
            if o and o[0] == "call" and o[1].name.endswith("::to_le_bytes"):
                name = _field_of(b, op_local(o[1].args[0]))
                break
            if o and o[0] == "call" and o[1].args:
                l = op_local(o[1].args[0])
                continue
            if o and o[0] == "place":
                l = o[1][0]
                continue
            break
        out[rng] = name
    return out


def reader_table(b):
    """{(a, b): local name} from `let name = uN::from_le_bytes(src[a..b].try_into().unwrap())`"""
    out = {}
    for c in b.calls():
        if not c.name.endswith("::from_le_bytes") or not c.args:
            continue
        rng = _const_range(b, op_local(c.args[0]))
        if rng is None:
            continue
        # bound name: follow the result through plain moves to a named local
        l = c.dest[0]
        name = b.local_name(l)
        for _ in range(4):
            if name:
                break
            us = [u for u in b.uses().get(l, []) if u[2] != "drop"]
            nxt = None
            for u in us:
                bi, si = u[0], u[1]
                if si >= 0:
                    st = b.blocks[bi]["s"][si]
                    if st[0] == "a" and st[2][0] in ("use", "cast") and not st[1][1]:
                        nxt = st[1][0]
            if nxt is None:
                break
            l = nxt
            name = b.local_name(l)
        out[rng] = name
    return out


def cursor_writer_table(b):
    """{(a, b): name} for a straight-line sequence of `cur.write_all(&x.to_le_bytes())` / `write_all(&CONST_ARRAY)` calls
    (the prefix before the first loop); offsets are accumulated from the widths."""
    import re
    calls = [c for c in b.calls() if c.name.endswith("::write_all")]

    def order(c):
        return sum(1 for x in range(len(b.blocks)) if b.dominates(x, c.bb))
    calls.sort(key=order)
    out = {}
    off = 0
    for c in calls:
        if c.bb in b.reachable(b.succs(c.bb)):
            break  # inside a loop: variable-length tail
        l = op_local(c.args[1]) if len(c.args) > 1 else None
        width = None
        name = None
        cur = l
        for _ in range(8):
            if cur is None:
                break
            o = b.origin(cur)
            if o and o[0] == "call" and o[1].name.endswith("::to_le_bytes"):
                m = re.search(r"impl [iu](\d+)>", o[1].name)
                width = int(m.group(1)) // 8 if m else None
                al = op_local(o[1].args[0])
                name = _named_source(b, al) or _field_of(b, al)
                if name is None or name.isdigit():
                    # tuple-struct payload (`id.0`) or a plain local: use the variable's name
                    base = al
                    for _ in range(6):
                        if base is None:
                            break
                        nm = b.local_name(base)
                        if nm:
                            name = nm
                            break
                        ob = b.origin(base)
                        if ob and ob[0] == "place":
                            base = ob[1][0]
                            continue
                        if ob and ob[0] == "arg":
                            name = b.local_name(ob[1])
                            break
                        if ob and ob[0] == "rv" and ob[1][0] == "cast":
                            base = op_local(ob[1][2])
                            continue
                        break
                break
            if o and o[0] == "call" and o[1].args:
                cur = op_local(o[1].args[0])
                continue
            if o and o[0] == "place":
                cur = o[1][0]
                continue
            break
        if width is None:
            ty = b.local_ty(l) if l is not None else ""
            o0 = b.origin(l) if l is not None else None
            if o0 and o0[0] == "const":
                ty = o0[1].get("ty") or ty
            m = re.search(r"\[u8; (\d+)\]", ty)
            if not m:
                break
            width = int(m.group(1))
        out[(off, off + width)] = name
        off += width
    return out


def _order(b, calls):
    import functools

    def cmp(x, y):
        if x.bb == y.bb:
            return 0
        if b.dominates(x.bb, y.bb):
            return -1
        if b.dominates(y.bb, x.bb):
            return 1
        return (x.line > y.line) - (x.line < y.line)
    return sorted(calls, key=functools.cmp_to_key(cmp))


def _width(name):
    import re
    m = re.search(r"impl [iu](\d+)>", name)
    return int(m.group(1)) // 8 if m else None


def seq_writer(b):
    """[(name, width)] of the integers a sequential encoder writes, in program order"""
    out = []
    for c in _order(b, [c for c in b.calls() if c.name.endswith("::to_le_bytes")]):
        al = op_local(c.args[0]) if c.args else None
        f = _field_of(b, al)
        n = _named_source(b, al)
        name = f if (f and not f.isdigit()) else n
        out.append((name, _width(c.name)))
    return out


def seq_reader(b):
    """[(bound name, width)] of the integers a sequential decoder reads, in program order"""
    out = []
    for c in _order(b, [c for c in b.calls() if c.name.endswith("::from_le_bytes")]):
        l = c.dest[0]
        name = b.local_name(l)
        for _ in range(4):
            if name:
                break
            nxt = None
            for u in b.uses().get(l, []):
                if u[2] == "drop" or u[1] < 0:
                    continue
                st = b.blocks[u[0]]["s"][u[1]]
                if st[0] == "a" and st[2][0] in ("use", "cast") and not st[1][1]:
                    nxt = st[1][0]
            if nxt is None:
                break
            l = nxt
            name = b.local_name(l)
        out.append((name, _width(c.name)))
    return out
