"""Run the nvs-facts rustc_private driver over /repo's current working tree.

Facts are cached under /verif/.cache/facts/<tree-hash>/ where tree-hash is a
SHA-256 over every *.rs / Cargo.toml / Cargo.lock of the workspace, so the
per-property commands share one extraction and a changed tree always
re-extracts.  Fails closed when a workspace package produced no fact file.
"""
import fcntl
import hashlib
import os
import shutil
import subprocess
import sys
import time
import uuid

VERIF = os.path.dirname(os.path.dirname(os.path.abspath(__file__)))
REPO = os.environ.get("NVS_REPO", "/repo")
CACHE = os.path.join(VERIF, ".cache")
DRIVER_DIR = os.path.join(VERIF, "nvs-facts")
DRIVER = os.path.join(DRIVER_DIR, "target", "debug", "nvs-facts")

# (package, crate name) pairs that must produce a fact file.
EXPECTED = [
    ("nervusdb-api", "nervusdb_api"),
    ("nervusdb-storage", "nervusdb_storage"),
    ("nervusdb-query", "nervusdb_query"),
    ("nervusdb", "nervusdb"),
    ("nervusdb-capi", "nervusdb"),
    ("nervusdb-cli", "nervusdb"),
    ("nervusdb-pyo3", "nervusdb"),
]

SKIP_DIRS = {"target", ".git", "node_modules", "fuzz", "examples", "examples-test", "docs", "scripts", "nervusdb-node", "nervusdb-c-sdk"}


def tree_hash(repo=REPO):
    h = hashlib.sha256()
    files = []
    for root, dirs, fs in os.walk(repo):
        dirs[:] = sorted(d for d in dirs if d not in SKIP_DIRS)
        for f in sorted(fs):
            if f.endswith(".rs") or f in ("Cargo.toml", "Cargo.lock", "build.rs"):
                files.append(os.path.join(root, f))
    for p in sorted(files):
        h.update(os.path.relpath(p, repo).encode())
        h.update(b"\0")
        with open(p, "rb") as fh:
            h.update(fh.read())
        h.update(b"\0")
    with open(os.path.join(DRIVER_DIR, "src", "main.rs"), "rb") as fh:
        h.update(fh.read())
    return h.hexdigest()[:24], len(files)


def sysroot():
    return subprocess.check_output(["rustc", "+nightly", "--print", "sysroot"], text=True).strip()


def build_driver(log=sys.stderr):
    src = os.path.join(DRIVER_DIR, "src", "main.rs")
    if os.path.exists(DRIVER) and os.path.getmtime(DRIVER) >= os.path.getmtime(src):
        return
    print("[nvs] building nvs-facts driver", file=log)
    env = dict(os.environ, CARGO_NET_OFFLINE="true")
    env.pop("RUSTC_WORKSPACE_WRAPPER", None)
    env.pop("RUSTFLAGS", None)
    r = subprocess.run(["cargo", "build", "--offline"], cwd=DRIVER_DIR, env=env, stdout=subprocess.PIPE, stderr=subprocess.STDOUT, text=True)
    if r.returncode != 0 or not os.path.exists(DRIVER):
        print(r.stdout, file=log)
        raise SystemExit("[nvs] FATAL: cannot build nvs-facts driver")


def run_driver(out_dir, target_dir, repo=REPO, log=sys.stderr):
    os.makedirs(out_dir, exist_ok=True)
    os.makedirs(target_dir, exist_ok=True)
    # cargo's freshness cache silently skips the wrapper: drop the members' fingerprints
    fp = os.path.join(target_dir, "debug", ".fingerprint")
    if os.path.isdir(fp):
        for d in os.listdir(fp):
            if d.startswith("nervusdb"):
                shutil.rmtree(os.path.join(fp, d), ignore_errors=True)
    nonce = uuid.uuid4().hex
    env = dict(os.environ)
    env.update(
        LD_LIBRARY_PATH=os.path.join(sysroot(), "lib"),
        RUSTFLAGS="-Zmir-opt-level=0 -Awarnings",
        RUSTC_WORKSPACE_WRAPPER=DRIVER,
        NVS_OUT=out_dir,
        NVS_NONCE=nonce,
        CARGO_TARGET_DIR=target_dir,
        CARGO_NET_OFFLINE="true",
    )
    t0 = time.time()
    r = subprocess.run(
        ["cargo", "+nightly", "check", "--offline", "--workspace", "-j", "16"],
        cwd=repo, env=env, stdout=subprocess.PIPE, stderr=subprocess.STDOUT, text=True,
    )
    if r.returncode != 0:
        print(r.stdout[-6000:], file=log)
        raise SystemExit("[nvs] FATAL: /repo does not type-check under the fact extractor (cargo +nightly check failed)")
    got = set()
    for f in os.listdir(out_dir):
        if f.endswith(".jsonl"):
            with open(os.path.join(out_dir, f)) as fh:
                first = fh.readline()
            if nonce in first:
                parts = f.split("--")
                got.add((parts[0], parts[1]))
            else:
                os.unlink(os.path.join(out_dir, f))
    missing = [e for e in EXPECTED if e not in got]
    if missing:
        raise SystemExit("[nvs] FATAL: no facts produced for %r (driver skipped?)" % (missing,))
    return time.time() - t0


def _locked(name):
    fh = open(os.path.join(CACHE, name), "w")
    fcntl.flock(fh, fcntl.LOCK_EX)
    return fh


def _unlock(fh):
    fcntl.flock(fh, fcntl.LOCK_UN)
    fh.close()


def ensure_facts(fresh=False, log=sys.stderr):
    """Return (facts_dir, info). Extracts when the tree hash has no cached facts.
    Locks: `lock` (global) for the driver build and cache eviction; one lock per tree hash so a tree is extracted once; one lock per cargo target
    directory, because two cargo runs cannot share one.  Runs with different NVS_TARGET directories extract concurrently."""
    os.makedirs(CACHE, exist_ok=True)
    g = _locked("lock")
    try:
        build_driver(log)
        th, nfiles = tree_hash()
        d = os.path.join(CACHE, "facts", th)
        ok = os.path.join(d, "OK")
        info = {"tree_hash": th, "source_files_hashed": nfiles, "cached": True, "extract_s": 0.0}
        # least recently *used* first (a cache hit touches the set); never evict a set used in the last 30 minutes — another
        # process may still be loading it (loading happens outside the lock)
        root = os.path.join(CACHE, "facts")
        if os.path.isdir(root):
            olds = sorted((os.path.getmtime(os.path.join(root, x)), x) for x in os.listdir(root) if not x.endswith(".tmp"))
            for m, x in olds[:-12]:
                if time.time() - m > 1800 and x != th:
                    shutil.rmtree(os.path.join(root, x), ignore_errors=True)
    finally:
        _unlock(g)
    target = os.environ.get("NVS_TARGET") or os.path.join(CACHE, "target")
    t = _locked("lock-tree-" + th)
    try:
        if fresh and os.path.isdir(d):
            shutil.rmtree(d)
        if not os.path.exists(ok):
            if os.path.isdir(d):
                shutil.rmtree(d)
            tmp = d + ".tmp"
            if os.path.isdir(tmp):
                shutil.rmtree(tmp)
            print("[nvs] extracting facts for tree %s ..." % th, file=log)
            tl = _locked("lock-target-" + hashlib.sha256(os.path.abspath(target).encode()).hexdigest()[:16])
            try:
                secs = run_driver(tmp, target, log=log)
            finally:
                _unlock(tl)
            os.rename(tmp, d)
            with open(ok, "w") as fh:
                fh.write("%f\n" % secs)
            info["cached"] = False
            info["extract_s"] = round(secs, 2)
        else:
            try:
                os.utime(d, None)
            except OSError:
                pass
        return d, info
    finally:
        _unlock(t)


if __name__ == "__main__":
    d, info = ensure_facts(fresh="--fresh" in sys.argv)
    print(d, info)
