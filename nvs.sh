#!/bin/sh
# entry point used by MANIFEST.json: ./nvs.sh check C01 [--thorough]
cd "$(dirname "$0")" || exit 2
export CARGO_NET_OFFLINE=true
exec python3 -m nvs "$@"
