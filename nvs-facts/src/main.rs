//! nvs-facts: rustc_private fact extractor for the nervusdb static checks.
//!
//! Injected with RUSTC_WORKSPACE_WRAPPER under `cargo +nightly check`.  For every
//! workspace crate it dumps, as JSON lines into $NVS_OUT:
//!   * one record per MIR body (fn, assoc fn, closure): locals, CFG, statements,
//!     terminators with callees resolved through `Instance::try_resolve`;
//!   * ADT definitions, trait impls, evaluated named constants.
//! All analysis is done by the python rule engine (`/verif/nvs`) on these facts.
#![feature(rustc_private)]
#![allow(clippy::all)]

extern crate rustc_abi;
extern crate rustc_data_structures;
extern crate rustc_driver;
extern crate rustc_hir;
extern crate rustc_interface;
extern crate rustc_middle;
extern crate rustc_session;
extern crate rustc_span;

use rustc_driver::{Callbacks, Compilation};
use rustc_hir::def::DefKind;
use rustc_hir::def_id::{DefId, LocalDefId};
use rustc_middle::mir::{
    AggregateKind, AssertKind, BasicBlock, Body, CastKind, Const, Operand, Place, ProjectionElem,
    Rvalue, StatementKind, TerminatorKind, UnwindAction,
};
use rustc_middle::ty::print::{with_crate_prefix, with_no_trimmed_paths, with_no_visible_paths};
use rustc_middle::ty::{self, Instance, Ty, TyCtxt, TypingEnv};
use rustc_span::Span;
use std::fmt::Write as _;

// ---------------------------------------------------------------- JSON
enum J {
    Null,
    B(bool),
    I(i128),
    S(String),
    A(Vec<J>),
    O(Vec<(&'static str, J)>),
}
fn s<T: Into<String>>(x: T) -> J {
    J::S(x.into())
}
fn esc(out: &mut String, x: &str) {
    out.push('"');
    for c in x.chars() {
        match c {
            '"' => out.push_str("\\\""),
            '\\' => out.push_str("\\\\"),
            '\n' => out.push_str("\\n"),
            '\r' => out.push_str("\\r"),
            '\t' => out.push_str("\\t"),
            c if (c as u32) < 0x20 => {
                let _ = write!(out, "\\u{:04x}", c as u32);
            }
            c => out.push(c),
        }
    }
    out.push('"');
}
impl J {
    fn write(&self, out: &mut String) {
        match self {
            J::Null => out.push_str("null"),
            J::B(b) => out.push_str(if *b { "true" } else { "false" }),
            J::I(i) => {
                let _ = write!(out, "{}", i);
            }
            J::S(x) => esc(out, x),
            J::A(v) => {
                out.push('[');
                for (i, x) in v.iter().enumerate() {
                    if i > 0 {
                        out.push(',');
                    }
                    x.write(out);
                }
                out.push(']');
            }
            J::O(v) => {
                out.push('{');
                for (i, (k, x)) in v.iter().enumerate() {
                    if i > 0 {
                        out.push(',');
                    }
                    esc(out, k);
                    out.push(':');
                    x.write(out);
                }
                out.push('}');
            }
        }
    }
}

// ---------------------------------------------------------------- helpers
fn dps(tcx: TyCtxt<'_>, did: DefId) -> String {
    with_no_trimmed_paths!(with_no_visible_paths!(with_crate_prefix!(tcx.def_path_str(did))))
}
fn tys<'tcx>(t: Ty<'tcx>) -> String {
    with_no_trimmed_paths!(with_no_visible_paths!(with_crate_prefix!(format!("{}", t))))
}
fn line_of(tcx: TyCtxt<'_>, sp: Span) -> i128 {
    if sp.is_dummy() {
        return 0;
    }
    let sp = sp.source_callsite();
    tcx.sess.source_map().lookup_char_pos(sp.lo()).line as i128
}
fn expn_kind(sp: Span) -> &'static str {
    if !sp.from_expansion() {
        return "";
    }
    match sp.ctxt().outer_expn_data().kind {
        rustc_span::ExpnKind::Macro(..) => "m",
        rustc_span::ExpnKind::Desugaring(..) => "d",
        _ => "o",
    }
}

struct Cx<'tcx> {
    tcx: TyCtxt<'tcx>,
    env: TypingEnv<'tcx>,
}

impl<'tcx> Cx<'tcx> {
    fn place(&self, body: &Body<'tcx>, p: &Place<'tcx>) -> J {
        let tcx = self.tcx;
        let mut projs = Vec::new();
        let mut cur = rustc_middle::mir::PlaceTy::from_ty(body.local_decls[p.local].ty);
        for elem in p.projection.iter() {
            let j = match elem {
                ProjectionElem::Deref => s("*"),
                ProjectionElem::Field(f, _) => {
                    let (adt, fname) = match cur.ty.kind() {
                        ty::Adt(def, _) => {
                            let v = match cur.variant_index {
                                Some(v) => def.variant(v),
                                None => def.non_enum_variant(),
                            };
                            let nm = v.fields.get(f).map(|fd| fd.name.to_string()).unwrap_or_default();
                            let vn = if def.is_enum() {
                                format!("{}::{}", dps(tcx, def.did()), v.name)
                            } else {
                                dps(tcx, def.did())
                            };
                            (vn, nm)
                        }
                        ty::Tuple(_) => ("(tuple)".to_string(), f.index().to_string()),
                        ty::Closure(d, _) => (dps(tcx, *d), f.index().to_string()),
                        _ => ("?".to_string(), f.index().to_string()),
                    };
                    J::A(vec![s("f"), J::I(f.index() as i128), s(fname), s(adt)])
                }
                ProjectionElem::Index(l) => J::A(vec![s("i"), J::I(l.index() as i128)]),
                ProjectionElem::ConstantIndex { offset, from_end, .. } => {
                    J::A(vec![s("ci"), J::I(offset as i128), J::B(from_end)])
                }
                ProjectionElem::Subslice { from, to, from_end } => {
                    J::A(vec![s("ss"), J::I(from as i128), J::I(to as i128), J::B(from_end)])
                }
                ProjectionElem::Downcast(name, v) => J::A(vec![
                    s("d"),
                    s(name.map(|n| n.to_string()).unwrap_or_default()),
                    J::I(v.index() as i128),
                ]),
                _ => s("o"),
            };
            projs.push(j);
            cur = cur.projection_ty(tcx, elem);
        }
        J::A(vec![J::I(p.local.index() as i128), J::A(projs)])
    }

    fn konst(&self, c: &rustc_middle::mir::ConstOperand<'tcx>) -> J {
        let tcx = self.tcx;
        let ty = c.const_.ty();
        let mut fields: Vec<(&'static str, J)> = vec![("ty", s(tys(ty)))];
        if let ty::FnDef(did, args) = *ty.kind() {
            fields.push(("fn", s(dps(tcx, did))));
            fields.push(("ga", s(with_no_trimmed_paths!(format!("{:?}", args)))));
        } else {
            let mut val = J::Null;
            if ty.is_integral() || ty.is_bool() || ty.is_char() {
                if let Some(si) = c.const_.try_eval_scalar_int(tcx, self.env) {
                    let size = si.size();
                    if ty.is_signed() {
                        val = J::I(si.to_int(size));
                    } else {
                        val = J::I(si.to_uint(size) as i128);
                    }
                }
            }
            fields.push(("v", val));
            let disp = with_no_trimmed_paths!(format!("{}", c.const_));
            let disp = if disp.len() > 200 { disp[..disp.char_indices().nth(200).map(|x| x.0).unwrap_or(disp.len())].to_string() } else { disp };
            fields.push(("d", s(disp)));
            if let Const::Unevaluated(u, _) = c.const_ {
                fields.push(("named", s(dps(tcx, u.def))));
            }
        }
        J::A(vec![s("k"), J::O(fields)])
    }

    fn operand(&self, body: &Body<'tcx>, o: &Operand<'tcx>) -> J {
        match o {
            Operand::Copy(p) => J::A(vec![s("c"), self.place(body, p)]),
            Operand::Move(p) => J::A(vec![s("m"), self.place(body, p)]),
            Operand::Constant(c) => self.konst(c),
            _ => J::A(vec![s("o")]),
        }
    }

    fn rvalue(&self, body: &Body<'tcx>, r: &Rvalue<'tcx>) -> J {
        let tcx = self.tcx;
        match r {
            Rvalue::Use(o, ..) => J::A(vec![s("use"), self.operand(body, o)]),
            Rvalue::Repeat(o, n) => J::A(vec![s("repeat"), self.operand(body, o), s(format!("{}", n))]),
            Rvalue::Ref(_, bk, p) => {
                let m = matches!(bk, rustc_middle::mir::BorrowKind::Mut { .. });
                J::A(vec![s("ref"), J::B(m), self.place(body, p)])
            }
            Rvalue::RawPtr(_, p) => J::A(vec![s("rawptr"), self.place(body, p)]),
            Rvalue::Cast(k, o, t) => {
                let ks = match k {
                    CastKind::IntToInt => "IntToInt".to_string(),
                    CastKind::FloatToInt => "FloatToInt".to_string(),
                    CastKind::IntToFloat => "IntToFloat".to_string(),
                    CastKind::FloatToFloat => "FloatToFloat".to_string(),
                    CastKind::Transmute => "Transmute".to_string(),
                    CastKind::PtrToPtr => "PtrToPtr".to_string(),
                    CastKind::PointerCoercion(pc, _) => format!("Coerce:{:?}", pc),
                    other => format!("{:?}", other),
                };
                let from = o.ty(&body.local_decls, tcx);
                J::A(vec![s("cast"), s(ks), self.operand(body, o), s(tys(from)), s(tys(*t))])
            }
            Rvalue::BinaryOp(op, ab) => {
                let (a, b) = &**ab;
                J::A(vec![
                    s("bin"),
                    s(format!("{:?}", op)),
                    self.operand(body, a),
                    self.operand(body, b),
                    s(tys(a.ty(&body.local_decls, tcx))),
                ])
            }
            Rvalue::UnaryOp(op, a) => J::A(vec![
                s("un"),
                s(format!("{:?}", op)),
                self.operand(body, a),
                s(tys(a.ty(&body.local_decls, tcx))),
            ]),
            Rvalue::Discriminant(p) => J::A(vec![s("discr"), self.place(body, p)]),
            Rvalue::Aggregate(k, ops) => {
                let (kind, name, variant, fnames): (&str, String, String, Vec<String>) = match &**k {
                    AggregateKind::Array(_) => ("array", String::new(), String::new(), vec![]),
                    AggregateKind::Tuple => ("tuple", String::new(), String::new(), vec![]),
                    AggregateKind::Adt(did, vi, _, _, _) => {
                        let def = tcx.adt_def(*did);
                        let v = def.variant(*vi);
                        (
                            "adt",
                            dps(tcx, *did),
                            if def.is_enum() { v.name.to_string() } else { String::new() },
                            v.fields.iter().map(|f| f.name.to_string()).collect(),
                        )
                    }
                    AggregateKind::Closure(did, _) => ("closure", dps(tcx, *did), String::new(), vec![]),
                    AggregateKind::Coroutine(did, _) => ("coroutine", dps(tcx, *did), String::new(), vec![]),
                    _ => ("other", String::new(), String::new(), vec![]),
                };
                J::A(vec![
                    s("agg"),
                    s(kind),
                    s(name),
                    s(variant),
                    J::A(ops.iter().map(|o| self.operand(body, o)).collect()),
                    J::A(fnames.into_iter().map(s).collect()),
                ])
            }
            Rvalue::CopyForDeref(p) => J::A(vec![s("use"), J::A(vec![s("c"), self.place(body, p)])]),
            other => J::A(vec![s("other"), s(format!("{:?}", other).chars().take(120).collect::<String>())]),
        }
    }

    fn unwind(&self, u: &UnwindAction) -> J {
        match u {
            UnwindAction::Cleanup(bb) => J::I(bb.index() as i128),
            _ => J::Null,
        }
    }
    fn bb(&self, b: BasicBlock) -> J {
        J::I(b.index() as i128)
    }

    fn terminator(&self, body: &Body<'tcx>, owner: DefId, t: &rustc_middle::mir::Terminator<'tcx>) -> J {
        let tcx = self.tcx;
        let line = line_of(tcx, t.source_info.span);
        match &t.kind {
            TerminatorKind::Goto { target } => J::A(vec![s("goto"), self.bb(*target)]),
            TerminatorKind::SwitchInt { discr, targets } => {
                let mut arms = Vec::new();
                for (v, bb) in targets.iter() {
                    arms.push(J::A(vec![J::I(v as i128), self.bb(bb)]));
                }
                J::A(vec![
                    s("switch"),
                    self.operand(body, discr),
                    J::A(arms),
                    self.bb(targets.otherwise()),
                    s(tys(discr.ty(&body.local_decls, tcx))),
                    J::I(line),
                ])
            }
            TerminatorKind::Return => J::A(vec![s("ret")]),
            TerminatorKind::Unreachable => J::A(vec![s("unreach")]),
            TerminatorKind::UnwindResume => J::A(vec![s("resume")]),
            TerminatorKind::UnwindTerminate(_) => J::A(vec![s("abort")]),
            TerminatorKind::Drop { place, target, unwind, .. } => J::A(vec![
                s("drop"),
                self.place(body, place),
                self.bb(*target),
                self.unwind(unwind),
                J::I(line),
            ]),
            TerminatorKind::Call { func, args, destination, target, unwind, fn_span, .. } => {
                let mut callee: Vec<(&'static str, J)> = Vec::new();
                if let Some((did, gargs)) = func.const_fn_def() {
                    callee.push(("d", s(dps(tcx, did))));
                    callee.push(("ga", s(with_no_trimmed_paths!(format!("{:?}", gargs)))));
                    callee.push(("krate", s(tcx.crate_name(did.krate).to_string())));
                    // trait / impl container
                    if let Some(tr) = tcx.trait_of_assoc(did) {
                        callee.push(("trait", s(dps(tcx, tr))));
                        if gargs.len() > 0 {
                            if let Some(t0) = gargs.get(0).and_then(|a| a.as_type()) {
                                callee.push(("self", s(tys(t0))));
                            }
                        }
                    }
                    let resolved = if matches!(tcx.def_kind(did), DefKind::Fn | DefKind::AssocFn | DefKind::Closure | DefKind::Ctor(..)) {
                        match Instance::try_resolve(tcx, self.env, did, gargs) {
                            Ok(Some(inst)) => Some(inst),
                            _ => None,
                        }
                    } else {
                        None
                    };
                    match resolved {
                        Some(inst) => {
                            let rd = inst.def_id();
                            callee.push(("r", s(dps(tcx, rd))));
                            let kind = match inst.def {
                                ty::InstanceKind::Item(_) => "item",
                                ty::InstanceKind::Virtual(..) => "virtual",
                                ty::InstanceKind::Intrinsic(_) => "intrinsic",
                                ty::InstanceKind::ClosureOnceShim { .. } => "closure_once",
                                ty::InstanceKind::FnPtrShim(..) => "fnptr_shim",
                                ty::InstanceKind::DropGlue(..) => "drop_glue",
                                ty::InstanceKind::CloneShim(..) => "clone_shim",
                                ty::InstanceKind::ReifyShim(..) => "reify",
                                _ => "other",
                            };
                            callee.push(("rk", s(kind)));
                            // still a trait method declaration (not an impl/default body)? mark unresolved-ish
                            if tcx.trait_of_assoc(rd).is_some() && !tcx.is_mir_available(rd) {
                                callee.push(("decl_only", J::B(true)));
                            }
                        }
                        None => callee.push(("r", J::Null)),
                    }
                } else {
                    callee.push(("ptr", self.operand(body, func)));
                    callee.push(("ty", s(tys(func.ty(&body.local_decls, tcx)))));
                }
                let _ = owner;
                J::A(vec![
                    s("call"),
                    J::O(callee),
                    J::A(args.iter().map(|a| self.operand(body, &a.node)).collect()),
                    self.place(body, destination),
                    target.map(|b| self.bb(b)).unwrap_or(J::Null),
                    self.unwind(unwind),
                    J::I(line),
                    s(expn_kind(*fn_span)),
                ])
            }
            TerminatorKind::TailCall { .. } => J::A(vec![s("tailcall")]),
            TerminatorKind::Assert { cond, expected, msg, target, unwind } => {
                let (kind, ops): (String, Vec<J>) = match &**msg {
                    AssertKind::BoundsCheck { len, index } => {
                        ("bounds".into(), vec![self.operand(body, len), self.operand(body, index)])
                    }
                    AssertKind::Overflow(op, a, b) => (
                        format!("overflow:{:?}", op),
                        vec![self.operand(body, a), self.operand(body, b)],
                    ),
                    AssertKind::OverflowNeg(a) => ("overflow_neg".into(), vec![self.operand(body, a)]),
                    AssertKind::DivisionByZero(a) => ("div_zero".into(), vec![self.operand(body, a)]),
                    AssertKind::RemainderByZero(a) => ("rem_zero".into(), vec![self.operand(body, a)]),
                    _ => ("other".into(), vec![]),
                };
                J::A(vec![
                    s("assert"),
                    self.operand(body, cond),
                    J::B(*expected),
                    s(kind),
                    J::A(ops),
                    self.bb(*target),
                    self.unwind(unwind),
                    J::I(line),
                ])
            }
            TerminatorKind::FalseEdge { real_target, .. } => J::A(vec![s("goto"), self.bb(*real_target)]),
            TerminatorKind::FalseUnwind { real_target, .. } => J::A(vec![s("goto"), self.bb(*real_target)]),
            TerminatorKind::Yield { resume, .. } => J::A(vec![s("goto"), self.bb(*resume)]),
            TerminatorKind::CoroutineDrop => J::A(vec![s("ret")]),
            TerminatorKind::InlineAsm { .. } => J::A(vec![s("asm")]),
        }
    }

    fn body(&self, did: LocalDefId) -> J {
        let tcx = self.tcx;
        let body: &Body<'tcx> = tcx.optimized_mir(did);
        let def_id = did.to_def_id();
        let kind = tcx.def_kind(def_id);
        let mut rec: Vec<(&'static str, J)> = Vec::new();
        rec.push(("rec", s("body")));
        rec.push(("id", s(dps(tcx, def_id))));
        rec.push((
            "kind",
            s(match kind {
                DefKind::Fn => "fn",
                DefKind::AssocFn => "assoc",
                DefKind::Closure => "closure",
                _ => "other",
            }),
        ));
        let sm = tcx.sess.source_map();
        let sp = tcx.def_span(def_id);
        let full = body.span;
        let lo = sm.lookup_char_pos(full.lo());
        let hi = sm.lookup_char_pos(full.hi());
        rec.push(("file", s(sm.span_to_diagnostic_string(sp).split(':').next().unwrap_or("").to_string())));
        rec.push(("line", J::I(lo.line as i128)));
        rec.push(("end_line", J::I(hi.line as i128)));
        if kind == DefKind::Closure {
            let p = tcx.typeck_root_def_id(def_id);
            rec.push(("root", s(dps(tcx, p))));
            rec.push(("parent", s(dps(tcx, tcx.parent(def_id)))));
        }
        if matches!(kind, DefKind::Fn | DefKind::AssocFn) {
            rec.push(("vis", s(format!("{:?}", tcx.visibility(def_id)).chars().take(60).collect::<String>())));
            let attrs = tcx.codegen_fn_attrs(def_id);
            if attrs.flags.contains(rustc_middle::middle::codegen_fn_attrs::CodegenFnAttrFlags::NO_MANGLE) {
                rec.push(("no_mangle", J::B(true)));
            }
            if kind == DefKind::AssocFn {
                let parent = tcx.parent(def_id);
                if matches!(tcx.def_kind(parent), DefKind::Impl { .. }) {
                    let st = tcx.type_of(parent).instantiate_identity().skip_normalization();
                    rec.push(("self_ty", s(with_no_trimmed_paths!(with_no_visible_paths!(with_crate_prefix!(format!("{:?}", st)))))));
                    if let Some(tr) = tcx.impl_opt_trait_ref(parent) {
                        rec.push(("impl_trait", s(dps(tcx, tr.skip_binder().def_id))));
                    }
                }
            }
        }
        rec.push(("argc", J::I(body.arg_count as i128)));
        // locals
        let mut names: Vec<Option<String>> = vec![None; body.local_decls.len()];
        for vdi in &body.var_debug_info {
            if let rustc_middle::mir::VarDebugInfoContents::Place(p) = &vdi.value {
                if p.projection.is_empty() {
                    names[p.local.index()] = Some(vdi.name.to_string());
                }
            }
        }
        let mut locals = Vec::new();
        for (l, d) in body.local_decls.iter_enumerated() {
            locals.push(J::A(vec![
                s(tys(d.ty)),
                names[l.index()].clone().map(J::S).unwrap_or(J::Null),
            ]));
        }
        rec.push(("locals", J::A(locals)));
        // closure upvar debug names
        let mut upv = Vec::new();
        for vdi in &body.var_debug_info {
            if let rustc_middle::mir::VarDebugInfoContents::Place(p) = &vdi.value {
                if !p.projection.is_empty() {
                    upv.push(J::A(vec![s(vdi.name.to_string()), self.place(body, p)]));
                }
            }
        }
        rec.push(("dbg", J::A(upv)));
        let mut blocks = Vec::new();
        for (_bb, data) in body.basic_blocks.iter_enumerated() {
            let mut stmts = Vec::new();
            for st in &data.statements {
                match &st.kind {
                    StatementKind::Assign(b) => {
                        let (p, r) = &**b;
                        stmts.push(J::A(vec![
                            s("a"),
                            self.place(body, p),
                            self.rvalue(body, r),
                            J::I(line_of(tcx, st.source_info.span)),
                            s(expn_kind(st.source_info.span)),
                        ]));
                    }
                    StatementKind::StorageDead(l) => stmts.push(J::A(vec![s("sd"), J::I(l.index() as i128)])),
                    StatementKind::SetDiscriminant { place, variant_index } => stmts.push(J::A(vec![
                        s("setd"),
                        self.place(body, place),
                        J::I(variant_index.index() as i128),
                    ])),
                    _ => {}
                }
            }
            let term = data.terminator();
            blocks.push(J::O(vec![
                ("s", J::A(stmts)),
                ("t", self.terminator(body, def_id, term)),
                ("c", J::B(data.is_cleanup)),
            ]));
        }
        rec.push(("blocks", J::A(blocks)));
        J::O(rec)
    }
}

fn const_value(tcx: TyCtxt<'_>, did: DefId) -> Option<J> {
    let ty = tcx.type_of(did).instantiate_identity().skip_normalization();
    let ty = ty_unwrap(ty);
    let generics = tcx.generics_of(did);
    if generics.count() > 0 || generics.parent_count > 0 {
        // only closed consts
        if tcx.generics_of(did).requires_monomorphization(tcx) {
            return None;
        }
    }
    let cv = tcx.const_eval_poly(did).ok()?;
    let mut fields: Vec<(&'static str, J)> = vec![("rec", s("const")), ("id", s(dps(tcx, did))), ("ty", s(tys(ty)))];
    if let Some(sc) = cv.try_to_scalar_int() {
        let size = sc.size();
        let v = if ty.is_signed() { sc.to_int(size) } else { sc.to_uint(size) as i128 };
        fields.push(("v", J::I(v)));
    } else if let rustc_middle::mir::ConstValue::Slice { .. } = cv {
        if let Some(bytes) = cv.try_get_slice_bytes_for_diagnostics(tcx) {
            fields.push(("bytes", J::A(bytes.iter().map(|b| J::I(*b as i128)).collect())));
        }
    } else {
        // arrays of u8 behind a reference or by value
        let disp = with_no_trimmed_paths!(format!("{}", Const::from_value(cv, ty)));
        fields.push(("d", s(disp.chars().take(300).collect::<String>())));
    }
    Some(J::O(fields))
}

#[inline]
fn ty_unwrap<T>(t: T) -> T {
    t
}

fn extract(tcx: TyCtxt<'_>) {
    let out_dir = match std::env::var("NVS_OUT") {
        Ok(v) => v,
        Err(_) => return,
    };
    let pkg = std::env::var("CARGO_PKG_NAME").unwrap_or_default();
    let krate = tcx.crate_name(rustc_hir::def_id::LOCAL_CRATE).to_string();
    if krate == "build_script_build" {
        return;
    }
    let nonce = std::env::var("NVS_NONCE").unwrap_or_default();
    let kind = format!("{:?}", tcx.crate_types()).replace(|c: char| !c.is_alphanumeric(), "");
    let mut out = String::new();
    let hdr = J::O(vec![
        ("rec", s("crate")),
        ("pkg", s(pkg.clone())),
        ("krate", s(krate.clone())),
        ("kind", s(kind.clone())),
        ("nonce", s(nonce)),
    ]);
    hdr.write(&mut out);
    out.push('\n');

    let mut n_bodies = 0;
    for &did in tcx.mir_keys(()).iter() {
        let k = tcx.def_kind(did.to_def_id());
        if !matches!(k, DefKind::Fn | DefKind::AssocFn | DefKind::Closure) {
            continue;
        }
        if k == DefKind::Closure && tcx.is_coroutine(did.to_def_id()) {
            continue;
        }
        let cx = Cx { tcx, env: TypingEnv::post_analysis(tcx, did.to_def_id()) };
        let j = cx.body(did);
        j.write(&mut out);
        out.push('\n');
        n_bodies += 1;
    }
    // ADTs, consts, impls
    for id in tcx.hir_crate_items(()).definitions() {
        let def_id = id.to_def_id();
        match tcx.def_kind(def_id) {
            DefKind::Struct | DefKind::Enum | DefKind::Union => {
                let def = tcx.adt_def(def_id);
                let mut variants = Vec::new();
                for (vi, v) in def.variants().iter_enumerated() {
                    let mut fs = Vec::new();
                    for f in v.fields.iter() {
                        let fty = tcx.type_of(f.did).instantiate_identity().skip_normalization();
                        fs.push(J::A(vec![s(f.name.to_string()), s(tys(ty_unwrap(fty))), s(format!("{:?}", f.vis).chars().take(40).collect::<String>())]));
                    }
                    let discr = if def.is_enum() {
                        J::I(def.discriminant_for_variant(tcx, vi).val as i128)
                    } else {
                        J::Null
                    };
                    variants.push(J::O(vec![("name", s(v.name.to_string())), ("discr", discr), ("fields", J::A(fs))]));
                }
                let j = J::O(vec![
                    ("rec", s("adt")),
                    ("id", s(dps(tcx, def_id))),
                    ("kind", s(if def.is_enum() { "enum" } else if def.is_struct() { "struct" } else { "union" })),
                    ("vis", s(format!("{:?}", tcx.visibility(def_id)).chars().take(40).collect::<String>())),
                    ("variants", J::A(variants)),
                ]);
                j.write(&mut out);
                out.push('\n');
            }
            DefKind::Const { .. } | DefKind::AssocConst { .. } => {
                if let Some(j) = const_value(tcx, def_id) {
                    j.write(&mut out);
                    out.push('\n');
                }
            }
            DefKind::Impl { .. } => {
                let st = tcx.type_of(def_id).instantiate_identity().skip_normalization();
                let tr = tcx.impl_opt_trait_ref(def_id).map(|t| dps(tcx, t.skip_binder().def_id));
                let mut items = Vec::new();
                for it in tcx.associated_items(def_id).in_definition_order() {
                    if it.is_fn() {
                        items.push(J::A(vec![s(it.name().to_string()), s(dps(tcx, it.def_id))]));
                    }
                }
                let mut atys = Vec::new();
                for it in tcx.associated_items(def_id).in_definition_order() {
                    if it.is_type() {
                        let aty = tcx.type_of(it.def_id).instantiate_identity().skip_normalization();
                        atys.push(J::A(vec![s(it.name().to_string()), s(tys(aty))]));
                    }
                }
                let j = J::O(vec![
                    ("rec", s("impl")),
                    ("types", J::A(atys)),
                    ("self", s(with_no_trimmed_paths!(with_no_visible_paths!(with_crate_prefix!(format!("{:?}", st)))))),
                    ("trait", tr.map(J::S).unwrap_or(J::Null)),
                    ("items", J::A(items)),
                ]);
                j.write(&mut out);
                out.push('\n');
            }
            DefKind::Trait => {
                let mut items = Vec::new();
                for it in tcx.associated_items(def_id).in_definition_order() {
                    if it.is_fn() {
                        items.push(J::A(vec![s(it.name().to_string()), s(dps(tcx, it.def_id)), J::B(it.defaultness(tcx).has_value())]));
                    }
                }
                let j = J::O(vec![("rec", s("trait")), ("id", s(dps(tcx, def_id))), ("items", J::A(items))]);
                j.write(&mut out);
                out.push('\n');
            }
            _ => {}
        }
    }
    let tail = J::O(vec![("rec", s("end")), ("bodies", J::I(n_bodies))]);
    tail.write(&mut out);
    out.push('\n');
    let path = format!("{}/{}--{}--{}--{}.jsonl", out_dir, pkg, krate, kind, std::process::id());
    let tmp = format!("{}.tmp", path);
    std::fs::write(&tmp, out).expect("nvs-facts: cannot write facts");
    std::fs::rename(&tmp, &path).expect("nvs-facts: cannot rename facts");
}

struct Cb;
impl Callbacks for Cb {
    fn after_analysis<'tcx>(&mut self, _c: &rustc_interface::interface::Compiler, tcx: TyCtxt<'tcx>) -> Compilation {
        if tcx.dcx().has_errors().is_none() {
            extract(tcx);
        }
        Compilation::Continue
    }
}

fn main() {
    let mut args: Vec<String> = std::env::args().collect();
    // RUSTC_WORKSPACE_WRAPPER: argv[1] is the real rustc path.
    if args.len() > 1 && (args[1].ends_with("rustc") || args[1].contains("/rustc")) {
        args.remove(1);
    }
    rustc_driver::run_compiler(&args, &mut Cb);
}
