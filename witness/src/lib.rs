//! WITNESS: compile-fail witnesses (each paired with a compiling twin that differs only in the offending line)
//! for the type-level remainder of the properties.  Run with `cargo +nightly test --doc` (stable ignores error codes).

/// C07 / C13 — a committed transaction cannot be used again: `commit` consumes the transaction.
///
/// ```compile_fail,E0382
/// let dir = std::env::temp_dir().join(format!("nvs-w1-{}", std::process::id()));
/// let db = nervusdb::Db::open(&dir).unwrap();
/// let txn = db.begin_write();
/// txn.commit().unwrap();
/// txn.commit().unwrap(); // second use of a moved transaction
/// ```
///
/// Twin (compiles):
/// ```no_run
/// let dir = std::env::temp_dir().join(format!("nvs-w1-{}", std::process::id()));
/// let db = nervusdb::Db::open(&dir).unwrap();
/// let txn = db.begin_write();
/// txn.commit().unwrap();
/// ```
pub struct CommitConsumesTransaction;

/// C03 — captured snapshot state is not reachable for mutation from other crates: fields are private.
///
/// ```compile_fail,E0616
/// use nervusdb_api::GraphStore;
/// let dir = std::env::temp_dir().join(format!("nvs-w2-{}", std::process::id()));
/// std::fs::create_dir_all(&dir).unwrap();
/// let engine = nervusdb_storage::engine::GraphEngine::open(dir.join("g.ndb"), dir.join("g.wal")).unwrap();
/// let snap = engine.snapshot();
/// let _ = &snap.tombstoned_nodes; // private field of StorageSnapshot
/// ```
///
/// Twin (compiles):
/// ```no_run
/// use nervusdb_api::{GraphSnapshot, GraphStore};
/// let dir = std::env::temp_dir().join(format!("nvs-w2-{}", std::process::id()));
/// std::fs::create_dir_all(&dir).unwrap();
/// let engine = nervusdb_storage::engine::GraphEngine::open(dir.join("g.ndb"), dir.join("g.wal")).unwrap();
/// let snap = engine.snapshot();
/// let _ = snap.is_tombstoned_node(0);
/// ```
pub struct SnapshotFieldsArePrivate;

/// C03 — a run captured by a snapshot exposes no mutable access to its contents from outside the storage crate.
///
/// ```compile_fail,E0616
/// let run = nervusdb_storage::snapshot::L0Run::new(1, Default::default(), Default::default(), Default::default(),
///     Default::default(), Default::default(), Default::default(), Default::default(), Default::default());
/// let _ = &run.tombstoned_edges; // pub(crate) field
/// ```
///
/// Twin (compiles):
/// ```no_run
/// let run = nervusdb_storage::snapshot::L0Run::new(1, Default::default(), Default::default(), Default::default(),
///     Default::default(), Default::default(), Default::default(), Default::default(), Default::default());
/// let _ = &run;
/// ```
pub struct RunFieldsArePrivate;

/// C09 / C35 — the write transaction borrows the database handle: the handle cannot be closed (moved) while a
/// transaction is alive, so a transaction can never outlive the engine it locks.
///
/// ```compile_fail,E0505
/// let dir = std::env::temp_dir().join(format!("nvs-w3-{}", std::process::id()));
/// let db = nervusdb::Db::open(&dir).unwrap();
/// let txn = db.begin_write();
/// db.close().unwrap(); // moves `db` while `txn` borrows it
/// txn.commit().unwrap();
/// ```
///
/// Twin (compiles):
/// ```no_run
/// let dir = std::env::temp_dir().join(format!("nvs-w3-{}", std::process::id()));
/// let db = nervusdb::Db::open(&dir).unwrap();
/// let txn = db.begin_write();
/// txn.commit().unwrap();
/// db.close().unwrap();
/// ```
pub struct TransactionBorrowsHandle;
