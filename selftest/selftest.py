#!/usr/bin/env python3
"""Applies each self-test mutation to /repo's working tree, runs the property's check, expects a VIOLATION that names the
construct, restores the tree.  Also runs every check on the clean tree and expects no VIOLATION.
Usage: python3 selftest/selftest.py [name-substring ...]"""
import os
import subprocess
import sys

HERE = os.path.dirname(os.path.abspath(__file__))
VERIF = os.path.dirname(HERE)
sys.path.insert(0, HERE)
from mutations import MUTATIONS, NEUTRAL  # noqa: E402

# By default the mutations are applied to /repo itself.  With SELFTEST_SCRATCH=<dir> they are applied to a scratch git worktree of
# /repo at <dir> (created here, removed at the end) and the checks are pointed at it, so /repo stays untouched and usable meanwhile.
SCRATCH = os.environ.get("SELFTEST_SCRATCH")
REPO = SCRATCH or "/repo"
if SCRATCH:
    os.environ["NVS_REPO"] = SCRATCH
    os.environ["NVS_TARGET"] = SCRATCH.rstrip("/") + "-nvs-target"
    os.environ["NVS_EVIDENCE"] = SCRATCH.rstrip("/") + "-evidence"
REL_FILTER = "            if let Some(rel) = self.rel\n                && edge.rel != rel\n            {\n                continue;\n            }\n\n"


def sh(cmd, **kw):
    return subprocess.run(cmd, shell=True, stdout=subprocess.PIPE, stderr=subprocess.STDOUT, text=True, **kw)


def apply(edits):
    for (f, old, new) in edits:
        p = os.path.join(REPO, f)
        t = open(p).read()
        if f.endswith("read_path_iters.rs") and old == "":
            i = t.find(REL_FILTER)
            j = t.find(REL_FILTER, i + 1)
            assert j > 0, "second rel filter not found"
            t = t[:j] + t[j + len(REL_FILTER):]
        else:
            assert t.count(old) == 1, "anchor text for mutation not found exactly once in %s: %r" % (f, old[:60])
            t = t.replace(old, new)
        open(p, "w").write(t)


def main():
    sel = sys.argv[1:]
    # SELFTEST_SHARD=i/n: run every n-th entry starting at i (for several scratch worktrees in parallel)
    shard = os.environ.get("SELFTEST_SHARD")
    counter = [0]

    def mine():
        k = counter[0]
        counter[0] += 1
        if not shard:
            return True
        i, n = shard.split("/")
        return k % int(n) == int(i)
    if SCRATCH and not os.path.isdir(SCRATCH):
        r0 = sh("git -C /repo worktree add --detach %s HEAD" % SCRATCH)
        assert r0.returncode == 0, r0.stdout
    assert sh("git -C %s status --porcelain --untracked-files=no" % REPO).stdout.strip() == "", "/repo working tree must be clean"
    results = []
    for name, pid, expect, edits in MUTATIONS:
        if sel and not any(s in name for s in sel):
            continue
        if not mine():
            continue
        try:
            apply(edits)
            chk = None  # type errors surface as a FATAL from the extractor ("does not type-check")
            r = sh("./nvs.sh check %s" % pid, cwd=VERIF)
            viol = [l for l in r.stdout.splitlines() if l.startswith("VIOLATION")]
            hit = expect in r.stdout and bool(viol) and "does not type-check" not in r.stdout
            results.append((name, pid, "CAUGHT" if hit else "MISSED", len(viol)))
            print("%-40s %s  %s (%d violations)%s" % (name, pid, "CAUGHT" if hit else "MISSED", len(viol),
                  "" if hit else "\n" + "\n".join(r.stdout.splitlines()[-6:])), flush=True)
        except AssertionError as e:
            results.append((name, pid, "STALE", 0))
            print("%-40s %s  STALE-MUTATION %s" % (name, pid, e), flush=True)
        finally:
            sh("git -C %s checkout -- ." % REPO)
    # behaviour-preserving edits: the check must stay silent
    for name, pid, edits in NEUTRAL:
        if sel and not any(s in name for s in sel):
            continue
        if not mine():
            continue
        try:
            apply(edits)
            r = sh("./nvs.sh check %s" % pid, cwd=VERIF)
            viol = [l for l in r.stdout.splitlines() if l.startswith("VIOLATION")]
            bad = bool(viol) or r.returncode != 0
            results.append((name, pid, "FALSE-ALARM" if bad else "CAUGHT", len(viol)))
            print("%-40s %s  %s%s" % (name, pid, "FALSE-ALARM" if bad else "SILENT (as it must be)", "" if not bad else "\n" + "\n".join(r.stdout.splitlines()[-6:])), flush=True)
        except AssertionError as e:
            results.append((name, pid, "STALE", 0))
            print("%-40s %s  STALE-MUTATION %s" % (name, pid, e), flush=True)
        finally:
            sh("git -C %s checkout -- ." % REPO)
    # the independently seeded changes (seeded/<id>/patch.diff) are replayed the same way
    import glob
    import json
    import re
    for m in sorted(glob.glob(os.path.join(VERIF, "seeded", "*", "meta.json"))):
        sid = os.path.basename(os.path.dirname(m))
        name = "seed:" + sid
        if sel and not any(s in name for s in sel):
            continue
        if not mine():
            continue
        meta = json.load(open(m))
        if meta.get("not_caught"):
            print("%-40s %s  (documented miss, skipped)" % (name, meta["property"]), flush=True)
            continue
        pid = meta["property"]
        rules = re.findall(r"C\d\d\.\d[a-z]?", " ".join(meta["caught_by"]))
        try:
            ap = sh("git -C %s apply %s" % (REPO, os.path.join(os.path.dirname(m), "patch.diff")))
            assert ap.returncode == 0, "patch does not apply: " + ap.stdout[-200:]
            hit = False
            nv = 0
            for q in [pid] + meta.get("also", []):
                r = sh("./nvs.sh check %s" % q, cwd=VERIF)
                viol = [l for l in r.stdout.splitlines() if l.startswith("VIOLATION")]
                nv += len(viol)
                rules_pid = [x for x in rules if x.startswith(pid)]
                if viol and q == pid and (not rules_pid or any(("key " + x) in r.stdout for x in rules_pid)):
                    hit = True
            results.append((name, pid, "CAUGHT" if hit else "MISSED", nv))
            print("%-40s %s  %s (%d violations)" % (name, pid, "CAUGHT" if hit else "MISSED", nv), flush=True)
        except AssertionError as e:
            results.append((name, pid, "STALE", 0))
            print("%-40s %s  STALE-SEED %s" % (name, pid, e), flush=True)
        finally:
            sh("git -C %s checkout -- ." % REPO)
    if SCRATCH:
        sh("git -C /repo worktree remove --force %s" % SCRATCH)
        sh("rm -rf %s %s" % (os.environ["NVS_TARGET"], os.environ["NVS_EVIDENCE"]))
    bad = [r for r in results if r[2] != "CAUGHT"]
    print("selftest: %d mutations, %d caught, %d not" % (len(results), len(results) - len(bad), len(bad)))
    return 1 if bad else 0


if __name__ == "__main__":
    sys.exit(main())
