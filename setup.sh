#!/bin/sh
# Build the fact extractor and warm the fact cache (offline; nothing fetched).
cd "$(dirname "$0")" || exit 2
export CARGO_NET_OFFLINE=true
python3 -m nvs facts
